import PhyloModel.Dist.RecWalkCorrectRose
/-! # The fuel-based arena walk `walkF` computes the structural walk

Under the arena invariant, for a slot `c` that represents the tree `t` (`Rep a c t`):
* `walkF_down`: entered from its parent, the walk at `c` is `downW a t`;
* `walkF_upStep`: entered from the child `k`, the walk at `c` walks into the other children and then leaves `c` upward;
* `leaveUp_climb`: the walk that starts at the tip `x` of `t` is `upW a x t` followed by leaving `c` upward;
* `walkFrom_eq`: with the fuel `fuelOf a` of the executable model the walk from a tip of the tree below the root is
  `upW` of the whole tree -- the fuel is never exhausted (the walk never turns back, so it makes at most
  `depth x + height` nested calls). -/
namespace DMF
open AR DMW

abbrev Cache := List (Nat × Int)

/-- continue with `k` when the first part succeeded -/
def qrThen {α β : Type} (r : QR α) (k : α → Option (QR β)) : Option (QR β) :=
  match r with
  | .ok v => k v
  | .err e => some (.err e)
  | .panic => some .panic

/-- the walk leaves node `c` towards its parent (the last neighbour of the loop) -/
def leaveUp (f : Nat) (a : Arena) (c : Nat) (acc : Cache) (L : Int) : Option (QR Cache) :=
  match (nd a c).parent with
  | none => some (.ok acc)
  | some p =>
    match (nd a c).pedge with
    | none => some (.err "MissingBranchLengths")
    | some e => walkF f a p (some c) acc (L + e)

theorem walkF_succ (f : Nat) (a : Arena) (cur : Nat) (prev : Option Nat) (acc : Cache) (len : Int) :
    walkF (f + 1) a cur prev acc len =
      if !isLive a cur then some (.err "NodeNotFound") else
      if prev.isSome && (nd a cur).children.isEmpty then some (.ok (kvInsert acc cur len)) else
      if (nd a cur).children.any (fun c => !isLive a c) then some .panic else
      (neighbours a (nd a cur)).foldl
        (walkStep (fun nb acc' len' => walkF f a nb (some cur) acc' len') prev len) (some (.ok acc)) := by
  rw [walkF]

/-! ### the loop over the neighbours -/

theorem walkStep_stuck (rec : Nat → Cache → Int → Option (QR Cache)) (prev : Option Nat) (len : Int) :
    ∀ (l : List (Nat × Option Int)) (st : Option (QR Cache)), (∀ acc, st ≠ some (.ok acc)) →
      l.foldl (walkStep rec prev len) st = st
  | [], _, _ => rfl
  | nb :: l, st, h => by
    have h1 : walkStep rec prev len st nb = st := by
      unfold walkStep
      split
      · next acc => exact absurd rfl (h acc)
      · rfl
    rw [List.foldl_cons, h1]
    exact walkStep_stuck rec prev len l st h

theorem walkStep_skip (rec : Nat → Cache → Int → Option (QR Cache)) (p : Nat) (len : Int) (st : Option (QR Cache))
    (e : Option Int) : walkStep rec (some p) len st (p, e) = st := by
  unfold walkStep
  split
  · simp
  · rfl

theorem foldl_qrThen (rec : Nat → Cache → Int → Option (QR Cache)) (prev : Option Nat) (len : Int)
    (l : List (Nat × Option Int)) (r : QR Cache) :
    l.foldl (walkStep rec prev len) (some r) =
      qrThen r (fun acc => l.foldl (walkStep rec prev len) (some (.ok acc))) := by
  cases r with
  | ok acc => rfl
  | err e => exact walkStep_stuck rec prev len l _ (by intro acc h; cases h)
  | panic => exact walkStep_stuck rec prev len l _ (by intro acc h; cases h)

/-! ### facts from the invariant -/

theorem rep_live {a : Arena} {i : Nat} {t : RTI} (h : Rep a i t) : live a i := by
  cases t; simp only [Rep] at h; exact h.2.1

theorem repL_live {a : Arena} : ∀ (ts : List RTI) (cs : List Nat), RepL a cs ts → ∀ c ∈ cs, live a c
  | [], cs, h, c, hc => by cases cs <;> simp_all [RepL]
  | t :: ts, cs, h, c, hc => by
    cases cs with
    | nil => simp at hc
    | cons c0 cs =>
      simp only [RepL] at h
      rcases List.mem_cons.1 hc with rfl | hc
      · exact rep_live h.1
      · exact repL_live ts cs h.2 c hc

theorem repL_nil_iff {a : Arena} {cs : List Nat} (h : RepL a cs []) : cs = [] := by
  cases cs with
  | nil => rfl
  | cons c cs => simp [RepL] at h

/-- the parent of a node is not one of its children -/
theorem parent_not_child {a : Arena} (hinv : Inv a) {c p : Nat} (hl : live a c) (hp : (nd a c).parent = some p) :
    p ∉ (nd a c).children := by
  intro hm
  obtain ⟨_, _, hd1, _⟩ := hinv.child_ok c p hl hm
  obtain ⟨hlp, hcp⟩ := hinv.parent_ok c p hl hp
  obtain ⟨_, _, hd2, _⟩ := hinv.child_ok p c hlp hcp
  omega

theorem repL_split {a : Arena} : ∀ (l : List RTI) (tk : RTI) (r : List RTI) (cs : List Nat),
    RepL a cs (l ++ tk :: r) →
    ∃ cl cr, cs = cl ++ rid tk :: cr ∧ RepL a cl l ∧ Rep a (rid tk) tk ∧ RepL a cr r
  | [], tk, r, cs, h => by
    cases cs with
    | nil => simp [RepL] at h
    | cons c cs =>
      simp only [List.nil_append, RepL] at h
      have := rep_rid h.1
      subst this
      exact ⟨[], cs, rfl, by simp [RepL], h.1, h.2⟩
  | t :: l, tk, r, cs, h => by
    cases cs with
    | nil => simp [RepL] at h
    | cons c cs =>
      simp only [List.cons_append, RepL] at h
      obtain ⟨cl, cr, e, h1, h2, h3⟩ := repL_split l tk r cs h.2
      exact ⟨c :: cl, cr, by simp [e], by simp [RepL, h.1, h1], h2, h3⟩

theorem heightL_append : ∀ (l1 l2 : List RTI), heightL (l1 ++ l2) = max (heightL l1) (heightL l2)
  | [], l2 => by simp [heightL]
  | k :: l1, l2 => by
    simp only [List.cons_append, heightL, heightL_append l1 l2]
    omega

theorem height_node (i : Nat) (ks : List RTI) : height (.node i ks) = 1 + heightL ks := by simp [height]

/-! ### the walk into a subtree -/

mutual
theorem walkF_down {a : Arena} (hinv : Inv a) : ∀ (t : RTI) (f c p : Nat) (acc : Cache) (L : Int), Rep a c t →
    height t ≤ f → (nd a c).parent = some p → walkF f a c (some p) acc L = some (downW a t acc L)
  | .node j ks, f, c, p, acc, L, h, hf, hp => by
    have hr := h
    simp only [Rep] at h
    obtain ⟨rfl, hl, hk⟩ := h
    rw [height_node] at hf
    obtain ⟨f, rfl⟩ : ∃ f', f = f' + 1 := ⟨f - 1, by omega⟩
    have hlive : isLive a c = true := (isLive_iff a c).2 hl
    rw [walkF_succ]
    simp only [hlive, Bool.not_true, Bool.false_eq_true, ↓reduceIte, Option.isSome_some, Bool.true_and]
    cases ks with
    | nil =>
      rw [repL_nil_iff hk, downW_leaf]
      simp
    | cons k ks =>
      have hne : (nd a c).children.isEmpty = false := by
        cases hc : (nd a c).children with
        | nil => rw [hc] at hk; simp [RepL] at hk
        | cons _ _ => rfl
      have hany : (nd a c).children.any (fun c' => !isLive a c') = false := by
        rw [List.any_eq_false]
        intro c' hc'
        simp [(isLive_iff a c').2 (repL_live _ _ hk c' hc')]
      simp only [hne, hany, Bool.false_eq_true, ↓reduceIte]
      rw [neighbours, hp, List.foldl_append]
      have hpc := parent_not_child hinv hl hp
      rw [walkF_kids hinv (k :: ks) f c (some p) (nd a c).children acc L hk (by omega)
        (fun c' hc' => (hinv.child_ok c c' hl hc').2.1)
        (fun c' hc' e => hpc (by simp only [Option.some.injEq] at e; exact e ▸ hc'))]
      rw [List.foldl_cons, List.foldl_nil, walkStep_skip, downW_cons]
theorem walkF_kids {a : Arena} (hinv : Inv a) : ∀ (ks : List RTI) (f cur : Nat) (prev : Option Nat) (cs : List Nat)
    (acc : Cache) (L : Int), RepL a cs ks → heightL ks ≤ f → (∀ c ∈ cs, (nd a c).parent = some cur) →
    (∀ c ∈ cs, some c ≠ prev) →
    (cs.map (fun c => (c, (nd a c).pedge))).foldl
      (walkStep (fun nb acc' len' => walkF f a nb (some cur) acc' len') prev L) (some (.ok acc))
      = some (downWL a ks acc L)
  | [], f, cur, prev, cs, acc, L, h, _, _, _ => by
    rw [repL_nil_iff h, downWL_nil]; rfl
  | k :: ks, f, cur, prev, cs, acc, L, h, hf, hpar, hprev => by
    cases cs with
    | nil => simp [RepL] at h
    | cons c cs =>
      simp only [RepL] at h
      simp only [heightL] at hf
      have hck := rep_rid h.1
      rw [List.map_cons, List.foldl_cons, downWL_cons, hck]
      have hne : (some c != prev) = true := by
        simp only [bne_iff_ne, ne_eq]; exact hprev c (by simp)
      cases hp : (nd a c).pedge with
      | none =>
        simp only [walkStep, hne, ↓reduceIte]
        exact walkStep_stuck _ _ _ _ _ (by intro acc h; cases h)
      | some l =>
        simp only [walkStep, hne, ↓reduceIte]
        rw [walkF_down hinv k f c cur acc (L + l) h.1 (by omega) (hpar c (by simp)), foldl_qrThen]
        cases hd : downW a k acc (L + l) with
        | ok acc1 =>
          simp only [qrThen, QR.bind_ok]
          exact walkF_kids hinv ks f cur prev cs acc1 L h.2 (by omega)
            (fun c' hc' => hpar c' (by simp [hc'])) (fun c' hc' => hprev c' (by simp [hc']))
        | err e => rfl
        | panic => rfl
end

/-! ### one step of the climb: entered from a child -/

theorem walkF_upStep {a : Arena} (hinv : Inv a) (f c : Nat) (l : List RTI) (tk : RTI) (r : List RTI) (acc : Cache)
    (L : Int) (hl : live a c) (hk : RepL a (nd a c).children (l ++ tk :: r)) (hf : heightL (l ++ r) ≤ f) :
    walkF (f + 1) a c (some (rid tk)) acc L = qrThen (downWL a (l ++ r) acc L) (fun acc1 => leaveUp f a c acc1 L) := by
  obtain ⟨cl, cr, hcs, h1, h2, h3⟩ := repL_split l tk r _ hk
  have hlive : isLive a c = true := (isLive_iff a c).2 hl
  have hne : (nd a c).children.isEmpty = false := by rw [hcs]; cases cl <;> rfl
  have hany : (nd a c).children.any (fun c' => !isLive a c') = false := by
    rw [List.any_eq_false]
    intro c' hc'
    simp [(isLive_iff a c').2 (repL_live _ _ hk c' hc')]
  have hnd : (cl ++ rid tk :: cr).Nodup := hcs ▸ hinv.nodup c
  have hnd' := List.nodup_append.1 hnd
  have hkl : ∀ c' ∈ cl, some c' ≠ some (rid tk) := by
    intro c' hc' e
    simp only [Option.some.injEq] at e
    exact hnd'.2.2 c' hc' (rid tk) (by simp) e
  have hkr : ∀ c' ∈ cr, some c' ≠ some (rid tk) := by
    intro c' hc' e
    simp only [Option.some.injEq] at e
    exact (List.nodup_cons.1 hnd'.2.1).1 (e ▸ hc')
  have hpar : ∀ c' ∈ (nd a c).children, (nd a c').parent = some c := fun c' hc' => (hinv.child_ok c c' hl hc').2.1
  rw [heightL_append] at hf
  rw [walkF_succ]
  simp only [hlive, hne, hany, Bool.not_true, Bool.false_eq_true, ↓reduceIte, Bool.and_false]
  rw [neighbours, hcs, List.map_append, List.map_cons, List.foldl_append, List.foldl_append, List.foldl_cons]
  rw [walkF_kids hinv l f c (some (rid tk)) cl acc L h1 (by omega)
    (fun c' hc' => hpar c' (by rw [hcs]; simp [hc'])) hkl, walkStep_skip, downWL_append]
  cases hd1 : downWL a l acc L with
  | ok acc1 =>
    simp only [QR.bind_ok]
    rw [walkF_kids hinv r f c (some (rid tk)) cr acc1 L h3 (by omega)
      (fun c' hc' => hpar c' (by rw [hcs]; simp [hc'])) hkr, foldl_qrThen]
    cases hd2 : downWL a r acc1 L with
    | ok acc2 =>
      simp only [qrThen, leaveUp]
      cases hp : (nd a c).parent with
      | none => rfl
      | some p =>
        have hpk : (some p != some (rid tk)) = true := by
          simp only [bne_iff_ne, ne_eq, Option.some.injEq]
          intro e
          exact parent_not_child hinv hl hp (by rw [hcs, e]; simp)
        simp only [List.foldl_cons, List.foldl_nil, walkStep, hpk, ↓reduceIte]
        cases (nd a c).pedge <;> rfl
    | err e => rfl
    | panic => rfl
  | err e =>
    simp only [QR.bind_err, qrThen]
    rw [walkStep_stuck _ _ _ (List.map _ cr) (some (.err e)) (by intro acc h; cases h)]
    exact walkStep_stuck _ _ _ _ _ (by intro acc h; cases h)
  | panic =>
    simp only [QR.bind_panic, qrThen]
    rw [walkStep_stuck _ _ _ (List.map _ cr) (some .panic) (by intro acc h; cases h)]
    exact walkStep_stuck _ _ _ _ _ (by intro acc h; cases h)

/-! ### the whole climb from a tip -/

mutual
theorem leaveUp_climb {a : Arena} (hinv : Inv a) (x : Nat) : ∀ (t : RTI) (c f g : Nat) (acc : Cache), Rep a c t →
    x ∈ leafR t → f + (nd a c).depth = g + (nd a x).depth → height t ≤ g →
    leaveUp f a x acc 0 = qrThen (upW a x t acc) (fun r => leaveUp g a c r.1 r.2)
  | .node j [], c, f, g, acc, h, hx, hfg, _ => by
    simp only [Rep] at h
    obtain ⟨rfl, _, _⟩ := h
    rw [leafR_leaf] at hx
    simp only [List.mem_singleton] at hx
    subst hx
    have : f = g := by omega
    subst this
    rw [upW_leaf]
    rfl
  | .node j (k :: ks), c, f, g, acc, h, hx, hfg, hg => by
    simp only [Rep] at h
    obtain ⟨rfl, hl, hk⟩ := h
    rw [leafR_cons] at hx
    rw [height_node] at hg
    rw [upW_cons]
    exact leaveUp_climbL hinv x [] (k :: ks) c f g acc hl (by simpa using hk) hx hfg (by simpa using hg)
theorem leaveUp_climbL {a : Arena} (hinv : Inv a) (x : Nat) : ∀ (left right : List RTI) (c f g : Nat) (acc : Cache),
    live a c → RepL a (nd a c).children (left ++ right) → x ∈ leafRL right →
    f + (nd a c).depth = g + (nd a x).depth → 1 + heightL (left ++ right) ≤ g →
    leaveUp f a x acc 0 = qrThen (upWL a x left right acc) (fun r => leaveUp g a c r.1 r.2)
  | left, [], c, f, g, acc, _, _, hx, _, _ => by rw [leafRL_nil] at hx; simp at hx
  | left, k :: ks, c, f, g, acc, hl, hk, hx, hfg, hg => by
    rw [upWL_cons]
    by_cases hxk : x ∈ leafR k
    · simp only [hxk, ↓reduceIte]
      obtain ⟨cl, cr, hcs, h1, h2, h3⟩ := repL_split left k ks _ hk
      have hmem : rid k ∈ (nd a c).children := by rw [hcs]; simp
      obtain ⟨hlk, hpk, hdk, _⟩ := hinv.child_ok c (rid k) hl hmem
      have hh : heightL (left ++ k :: ks) = max (heightL left) (max (height k) (heightL ks)) := by
        rw [heightL_append]; simp [heightL]
      have hh' : heightL (left ++ ks) = max (heightL left) (heightL ks) := heightL_append _ _
      obtain ⟨g', rfl⟩ : ∃ g', g = g' + 1 := ⟨g - 1, by omega⟩
      rw [leaveUp_climb hinv x k (rid k) f (g' + 1 + 1) acc h2 hxk (by omega) (by omega)]
      cases hu : upW a x k acc with
      | ok r =>
        simp only [qrThen, QR.bind_ok]
        rw [leaveUp, hpk]
        cases hp : (nd a (rid k)).pedge with
        | none => rfl
        | some e =>
          simp only []
          rw [walkF_upStep hinv (g' + 1) c left k ks r.1 (r.2 + e) hl hk (by omega)]
          cases downWL a (left ++ ks) r.1 (r.2 + e) <;> rfl
      | err e => rfl
      | panic => rfl
    · simp only [hxk, ↓reduceIte]
      rw [leafRL_cons, List.mem_append] at hx
      have hx' : x ∈ leafRL ks := hx.resolve_left hxk
      exact leaveUp_climbL hinv x (left ++ [k]) ks c f g acc hl
        (by rwa [List.append_assoc, List.singleton_append]) hx' hfg
        (by rwa [List.append_assoc, List.singleton_append])
end

/-! ### with the fuel of the executable model -/

/-- the first call `distance_matrix_recursive_impl(tip, None, ..)` at a tip: nothing is written, the walk leaves the
    tip towards its parent -/
theorem walkF_tip {a : Arena} (f x : Nat) (acc : Cache) (hl : live a x) (hc : (nd a x).children = []) :
    walkF (f + 1) a x none acc 0 = leaveUp f a x acc 0 := by
  have hlive : isLive a x = true := (isLive_iff a x).2 hl
  rw [walkF_succ]
  simp only [hlive, hc, Bool.not_true, Bool.false_eq_true, ↓reduceIte, Option.isSome_none, Bool.false_and,
    List.any_nil, neighbours, List.map_nil, List.nil_append, leaveUp]
  cases (nd a x).parent with
  | none => rfl
  | some p =>
    simp only [List.foldl_cons, List.foldl_nil, walkStep]
    cases (nd a x).pedge <;> simp

/-- the cache row of a tip of the tree below the root, as the structural climb through the whole tree; in particular
    the fuel of the executable model is never exhausted -/
theorem walkFrom_eq {a : Arena} (hinv : Inv a) {r : Nat} {t : RTI} (hgr : getRoot a = some r) (ht : Rep a r t)
    {x : Nat} (hx : x ∈ leafR t) :
    walkFrom a x = (upW a x t []) >>= fun p => .ok p.1 := by
  obtain ⟨hlx, hcx⟩ := leafR_spec t r ht x hx
  have hroot := getRoot_spec hgr
  have hdx := depth_lt_size hinv x hlx
  have hd0 : (nd a r).depth = 0 := hinv.root_depth r hroot.1 hroot.2
  have hsz : szR t ≤ a.size := szR_le_size hinv.toW t r ht
  have hht := height_le_szR t
  have e : fuelOf a = (2 * a.size + 2) + 1 := rfl
  rw [walkFrom, e, walkF_tip _ x [] hlx hcx,
    leaveUp_climb hinv x t r (2 * a.size + 2) (2 * a.size + 2 - (nd a x).depth) [] ht hx (by omega) (by omega)]
  cases upW a x t [] with
  | ok p => simp only [qrThen, leaveUp, hroot.2, QR.bind_ok]
  | err e => rfl
  | panic => rfl

end DMF
