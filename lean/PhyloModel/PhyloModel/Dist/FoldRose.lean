import PhyloModel.Dist.FoldCorrect
/-! # The two executable definitions agree: `dmFast a unit = dmRose a unit`

`DMF.dmRose` computes the matrix from the rose tree `absRoot a` by structural recursion (`DM.pairs`).  Under the
invariant, for an arena holding one tree whose tips carry pairwise different names, it returns exactly what the
arena fold `DMF.dmFast` returns.  (With two tips of the SAME name the two definitions may order these two taxa
differently -- `dmFast` breaks the tie by slot index as the crate's stable sort of `get_leaves()` does,
`dmRose` by position in the tree -- so the hypothesis cannot be dropped.) -/
namespace DMF
open AR DMW

/-! ### tips of the abstracted tree -/

mutual
theorem tipsWithNames_roseOf (a : Arena) : ∀ t : RTI,
    tipsWithNames (roseOf a t) = (leafR t).map (fun i => (i, (nd a i).name))
  | .node i [] => by rw [roseOf_node, roseOfL_nil, tipsWithNames, leafR_leaf]; rfl
  | .node i (k :: ks) => by
    rw [roseOf_node, roseOfL_cons, tipsWithNames, ← roseOfL_cons, leafR_cons]
    exact tipsWithNamesL_roseOfL a (k :: ks)
theorem tipsWithNamesL_roseOfL (a : Arena) : ∀ ks : List RTI,
    tipsWithNamesL (roseOfL a ks) = (leafRL ks).map (fun i => (i, (nd a i).name))
  | [] => by rw [roseOfL_nil, tipsWithNamesL, leafRL_nil]; rfl
  | k :: ks => by
    rw [roseOfL_cons, tipsWithNamesL, leafRL_cons, List.map_append, tipsWithNames_roseOf a k,
      tipsWithNamesL_roseOfL a ks]
end

/-! ### the name order -/

theorem nameLe_trans (x y z : Option String) (h1 : nameLe x y = true) (h2 : nameLe y z = true) :
    nameLe x z = true := by
  cases x <;> cases y <;> cases z <;> simp_all [nameLe]
  exact String.le_trans h1 h2

theorem nameLe_total (x y : Option String) : (nameLe x y || nameLe y x) = true := by
  cases x <;> cases y <;> simp [nameLe]
  exact String.le_total _ _

theorem nameLe_antisymm (p q : String) (h1 : nameLe (some p) (some q) = true) (h2 : nameLe (some q) (some p) = true) :
    p = q := by
  simp only [nameLe, decide_eq_true_eq] at h1 h2
  exact String.le_antisymm h1 h2

/-- comparison of two slots by name, as both definitions sort -/
def slotLe (a : Arena) (x y : Nat) : Bool := nameLe (nd a x).name (nd a y).name

theorem leafOrder_eq (a : Arena) : leafOrder a = (leaves a).mergeSort (slotLe a) := rfl

/-- the taxon order is sorted by name (unnamed first) ... -/
theorem leafOrder_sorted (a : Arena) : (leafOrder a).Pairwise (fun x y => slotLe a x y = true) :=
  List.pairwise_mergeSort (le := slotLe a) (fun x y z => nameLe_trans (nd a x).name (nd a y).name (nd a z).name)
    (fun x y => nameLe_total (nd a x).name (nd a y).name) (leaves a)

/-- ... and stable: two tips in name order keep the (slot-index) order `get_leaves` lists them in -/
theorem leafOrder_stable (a : Arena) {x y : Nat} (hxy : slotLe a x y = true) (h : [x, y].Sublist (leaves a)) :
    [x, y].Sublist (leafOrder a) :=
  List.pair_sublist_mergeSort (le := slotLe a)
    (fun x y z => nameLe_trans (nd a x).name (nd a y).name (nd a z).name)
    (fun x y => nameLe_total (nd a x).name (nd a y).name) hxy h

/-- two name-sorted arrangements of the same set of slots with pairwise different names coincide -/
theorem sorted_unique (a : Arena) (l1 l2 : List Nat) (hp : l1.Perm l2)
    (hnamed : ∀ x ∈ l1, (nd a x).name.isSome)
    (hinj : ∀ x ∈ l1, ∀ y ∈ l1, (nd a x).name = (nd a y).name → x = y) :
    l1.mergeSort (slotLe a) = l2.mergeSort (slotLe a) := by
  have htr : ∀ x y z : Nat, slotLe a x y = true → slotLe a y z = true → slotLe a x z = true :=
    fun x y z => nameLe_trans _ _ _
  have hto : ∀ x y : Nat, (slotLe a x y || slotLe a y x) = true := fun x y => nameLe_total _ _
  apply List.Perm.eq_of_pairwise (le := fun x y => slotLe a x y = true)
  · intro x y hx hy hxy hyx
    have hx1 : x ∈ l1 := (List.mergeSort_perm l1 _).mem_iff.1 hx
    have hy1 : y ∈ l1 := hp.mem_iff.2 ((List.mergeSort_perm l2 _).mem_iff.1 hy)
    apply hinj x hx1 y hy1
    have nx := hnamed x hx1
    have ny := hnamed y hy1
    simp only [slotLe] at hxy hyx
    cases hnx : (nd a x).name with
    | none => simp [hnx] at nx
    | some p =>
      cases hny : (nd a y).name with
      | none => simp [hny] at ny
      | some q =>
        rw [hnx, hny] at hxy hyx
        rw [nameLe_antisymm p q hxy hyx]
  · exact List.pairwise_mergeSort htr hto l1
  · exact List.pairwise_mergeSort htr hto l2
  · exact ((List.mergeSort_perm l1 _).trans hp).trans (List.mergeSort_perm l2 _).symm

/-! ### the cell loop of `matrixOf` -/

/-- the cells in the order `matrixOf` lists them: row `i` holds the columns `j < i` -/
def rowMajor (n : Nat) (g : Nat → Nat → Int) : List Int := (List.range n).flatMap (fun i => (List.range i).map (g i))

theorem foldl_snoc {α β : Type} (h : α → β) : ∀ (l : List α) (acc : List β),
    l.foldl (fun acc x => acc ++ [h x]) acc = acc ++ l.map h
  | [], acc => by simp
  | x :: l, acc => by rw [List.foldl_cons, foldl_snoc h l]; simp

theorem foldl_appendF {α β : Type} (G : α → List β) : ∀ (l : List α) (acc : List β),
    l.foldl (fun acc x => acc ++ G x) acc = acc ++ l.flatMap G
  | [], acc => by simp
  | x :: l, acc => by rw [List.foldl_cons, foldl_appendF G l]; simp

theorem cellsLoop_ok (n : Nat) (F : Nat → Nat → Rat) :
    (List.range n).foldlM (fun (acc : List Int) i => (List.range i).foldlM (fun (acc : List Int) j => do
        let v ← QR.ofOpt (some (F i j)) "MissingBranchLengths"
        pure (acc ++ [ratToInt v])) acc) [] = .ok (rowMajor n (fun i j => ratToInt (F i j))) := by
  rw [foldlM_ok _ (fun acc i => acc ++ (List.range i).map (fun j => ratToInt (F i j)))]
  · rw [foldl_appendF]; rfl
  · intro i _ acc
    rw [foldlM_ok _ (fun acc j => acc ++ [ratToInt (F i j)])]
    · rw [foldl_snoc]
    · intro j _ acc'
      rfl

/-- the sum `dmRose` forms for the pair `x, y` -/
def roseSum (ps : List ((Nat × Nat) × Rat)) (x y : Nat) : Rat :=
  (ps.filter (fun p => (p.1.1 == x && p.1.2 == y) || (p.1.1 == y && p.1.2 == x))).foldl (fun s p => s + p.2) 0

theorem dmRose_eq (a : Arena) (unit : Int) : dmRose a unit = (do
    let t ← absRoot a
    matrixOf t (fun x y => some (roseSum (DM.pairs (absDM unit t)) x y))) := rfl

theorem matrixOf_some (t : Rose) (F : Nat → Nat → Rat) :
    matrixOf t (fun x y => some (F x y)) =
      if (tipsWithNames t).any (fun p => p.2.isNone) then .err "UnnamedLeaves" else
        .ok (((tipsWithNames t).mergeSort (fun x y => nameLe x.2 y.2)).map (fun p => p.2.getD ""),
          rowMajor ((tipsWithNames t).mergeSort (fun x y => nameLe x.2 y.2)).length (fun i j => ratToInt
            (F ((((tipsWithNames t).mergeSort (fun x y => nameLe x.2 y.2)).getD i (0, none)).1)
               ((((tipsWithNames t).mergeSort (fun x y => nameLe x.2 y.2)).getD j (0, none)).1)))) := by
  unfold matrixOf
  by_cases h : (tipsWithNames t).any (fun p => p.2.isNone) = true
  · simp only [h, ↓reduceIte]
  · simp only [h, Bool.false_eq_true, ↓reduceIte]
    rw [cellsLoop_ok]
    rfl

theorem flatMap_perm_left_eq {α β : Type} (f g : α → List β) : ∀ l : List α, (∀ x ∈ l, f x = g x) →
    l.flatMap f = l.flatMap g
  | [], _ => rfl
  | x :: l, h => by
    simp only [List.flatMap_cons]
    rw [h x (by simp), flatMap_perm_left_eq f g l (fun y hy => h y (by simp [hy]))]

theorem rowMajor_congr (n : Nat) (g g' : Nat → Nat → Int) (h : ∀ i j, j < i → i < n → g i j = g' i j) :
    rowMajor n g = rowMajor n g' := by
  simp only [rowMajor]
  apply flatMap_perm_left_eq
  intro i hi
  apply List.map_congr_left
  intro j hj
  exact h i j (List.mem_range.1 hj) (List.mem_range.1 hi)

theorem map_range_getD (L : List Int) (s m : Nat) (h : s + m ≤ L.length) :
    (List.range m).map (fun j => L.getD (s + j) 0) = (L.drop s).take m := by
  apply List.ext_getElem
  · simp; omega
  · intro k h1 h2
    simp only [List.length_map, List.length_range] at h1
    simp only [List.getElem_map, List.getElem_range, List.getElem_take, List.getElem_drop]
    rw [List.getD_eq_getElem?_getD, List.getElem?_eq_getElem (by omega)]
    rfl

theorem rowMajor_take (L : List Int) : ∀ n, Tri.T n ≤ L.length →
    rowMajor n (fun i j => L.getD (Tri.T i + j) 0) = L.take (Tri.T n)
  | 0, _ => by simp [rowMajor, Tri.T]
  | n + 1, h => by
    have hT : Tri.T (n + 1) = Tri.T n + n := rfl
    have ih := rowMajor_take L n (by omega)
    simp only [rowMajor] at ih ⊢
    rw [List.range_succ, List.flatMap_append, ih, List.flatMap_singleton, map_range_getD L _ _ (by omega), hT,
      List.take_add]

theorem rowMajor_toList (pw : Array Int) (n : Nat) (h : pw.size = Tri.T n) :
    rowMajor n (fun i j => pw.getD (Tri.T i + j) 0) = pw.toList := by
  have := rowMajor_take pw.toList n (by simp [h])
  simp only [toList_getD] at this
  rw [this]
  apply List.take_of_length_le
  simp [h]

/-! ### the sum `dmRose` forms is the keyed sum of the fold -/

theorem ratToInt_intCast (z : Int) : ratToInt ((z : Int) : Rat) = z := by
  simp [ratToInt]

theorem roseSum_aux (key : Nat × Nat → Nat) (k x y : Nat) : ∀ (P : List ((Nat × Nat) × Int)) (s0 : Rat),
    (∀ c ∈ P, (((c.1.1 == x && c.1.2 == y) || (c.1.1 == y && c.1.2 == x)) = true ↔ key c.1 = k)) →
    ((castP P).filter (fun p => (p.1.1 == x && p.1.2 == y) || (p.1.1 == y && p.1.2 == x))).foldl
      (fun s p => s + p.2) s0 = s0 + ((csum key P k : Int) : Rat)
  | [], s0, _ => by simp [castP, csum_nil, Rat.add_zero]
  | c :: P, s0, h => by
    have hc := h c (by simp)
    have ih := roseSum_aux key k x y P
    have hP : ∀ c' ∈ P, (((c'.1.1 == x && c'.1.2 == y) || (c'.1.1 == y && c'.1.2 == x)) = true ↔ key c'.1 = k) :=
      fun c' hc' => h c' (by simp [hc'])
    have hcast : castP (c :: P) = (c.1, ((c.2 : Int) : Rat)) :: castP P := rfl
    rw [hcast, List.filter_cons, csum_cons]
    by_cases hk : key c.1 = k
    · have hq := hc.2 hk
      simp only [hq, ↓reduceIte, List.foldl_cons, hk]
      rw [ih _ hP, Rat.intCast_add, Rat.add_assoc]
    · have hq : ((c.1.1 == x && c.1.2 == y) || (c.1.1 == y && c.1.2 == x)) = false := by
        cases hb : ((c.1.1 == x && c.1.2 == y) || (c.1.1 == y && c.1.2 == x)) with
        | false => rfl
        | true => exact absurd (hc.1 hb) hk
      simp only [hq, hk, ↓reduceIte, Bool.false_eq_true]
      rw [ih _ hP, Int.zero_add]

theorem roseSum_castP (key : Nat × Nat → Nat) (k x y : Nat) (P : List ((Nat × Nat) × Int))
    (h : ∀ c ∈ P, (((c.1.1 == x && c.1.2 == y) || (c.1.1 == y && c.1.2 == x)) = true ↔ key c.1 = k)) :
    roseSum (castP P) x y = ((csum key P k : Int) : Rat) := by
  rw [roseSum, roseSum_aux key k x y P 0 h, Rat.zero_add]

/-! ### assembly -/

theorem no_root_no_live {a : Arena} (hinv : Inv a) (hgr : getRoot a = none) (i : Nat) : ¬ live a i := by
  intro hl
  obtain ⟨r, _, hr, _⟩ := root_above hinv.toW _ i hl (Nat.le_refl _)
  unfold getRoot at hgr
  rw [List.find?_eq_none] at hgr
  have := hgr r (List.mem_range.2 hr.1.1)
  simp [(isLive_iff a r).2 hr.1, hr.2] at this

theorem leafR_perm_leaves {a : Arena} (hinv : Inv a) (h1 : AtMostOneRoot a) {r : Nat} {t : RTI}
    (hgr : getRoot a = some r) (ht : Rep a r t) : (leafR t).Perm (leaves a) := by
  rw [List.perm_ext_iff_of_nodup ((leafR_sublist t).nodup (pre_nodup hinv.toW t r ht)) (leaves_nodup a)]
  intro x
  exact ⟨fun hx => mem_leaves.2 (leafR_spec t r ht x hx), fun hx => leaves_below_root hinv h1 hgr ht hx⟩

theorem getD_map_fst (a : Arena) (O : List Nat) (i : Nat) (hi : i < O.length) :
    ((O.map (fun i => (i, (nd a i).name))).getD i (0, none)).1 = O[i] := by
  simp [List.getD_eq_getElem?_getD, hi]

/-- **The two executable definitions agree** on an arena that satisfies the invariant, holds one tree, and
    whose tips have pairwise different names (an unnamed tip counts as a name of its own). -/
theorem dmFast_eq_dmRose (a : Arena) (unit : Int) (hinv : Inv a) (h1 : AtMostOneRoot a)
    (hdist : ∀ x ∈ leaves a, ∀ y ∈ leaves a, (nd a x).name = (nd a y).name → x = y) :
    dmFast a unit = dmRose a unit := by
  cases hgr : getRoot a with
  | none =>
    have hR : dmRose a unit = .err "RootNotFound" := by
      simp [dmRose_eq, absRoot, root, hgr, QR.ofOpt]
    rw [hR]
    rcases dmFast_total a unit hinv with ⟨_, l, hl, _⟩ | ⟨h, _⟩ | ⟨names, cells, h⟩
    · exact absurd (mem_leaves.1 hl).1 (no_root_no_live hinv hgr l)
    · exact h
    · obtain ⟨r, _, hr, _⟩ := dmFast_core a unit hinv names cells h
      rw [hgr] at hr; cases hr
  | some r =>
    obtain ⟨t, lo, st, ht, hht, hlo, hst, hsz, cs, hcs, hpw⟩ :=
      dmLoop_ok unit hinv hgr (Tri.T (leafOrder a).length)
    have hperm := leafR_perm_leaves hinv h1 hgr ht
    have hleafnd : (leafR t).Nodup := (leafR_sublist t).nodup (pre_nodup hinv.toW t r ht)
    have hleafO : ∀ x ∈ leafR t, x ∈ leafOrder a := fun x hx =>
      (leafOrder_perm a).mem_iff.2 (hperm.mem_iff.1 hx)
    -- both sides, unfolded
    have hF : dmFast a unit = (if (leafOrder a).any (fun l => (nd a l).name.isNone) then .err "UnnamedLeaves" else
        .ok ((leafOrder a).map (fun l => ((nd a l).name).getD ""), st.pw.toList)) := by
      rw [dmFast_eq]
      simp only [root, hgr, QR.ofOpt, QR.bind_ok, hlo, hst, QR.pure_eq]
    have hR := dmRose_eq a unit
    rw [absRoot_rep hgr ht hht] at hR
    simp only [QR.bind_ok] at hR
    rw [absDM_roseOf, pairs_toRT, matrixOf_some, tipsWithNames_roseOf] at hR
    rw [hF, hR]
    -- the two tests for unnamed tips coincide
    have hany : ((leafR t).map (fun i => (i, (nd a i).name))).any (fun p => p.2.isNone)
        = (leafOrder a).any (fun l => (nd a l).name.isNone) := by
      rw [List.any_map]
      exact (hperm.trans (leafOrder_perm a).symm).any_eq
    rw [hany]
    by_cases hun : (leafOrder a).any (fun l => (nd a l).name.isNone) = true
    · simp only [hun, ↓reduceIte]
    · simp only [hun, Bool.false_eq_true, ↓reduceIte]
      have hnamed : ∀ l ∈ leafOrder a, (nd a l).name.isSome := by
        intro l hl
        simp only [List.any_eq_true, not_exists, not_and] at hun
        have := hun l hl
        cases hn : (nd a l).name <;> simp_all
      -- the two taxon orders coincide
      have hsorted : ((leafR t).map (fun i => (i, (nd a i).name))).mergeSort (fun x y => nameLe x.2 y.2)
          = (leafOrder a).map (fun i => (i, (nd a i).name)) := by
        have hm := List.map_mergeSort (r := slotLe a) (s := fun (x y : Nat × Option String) => nameLe x.2 y.2)
          (f := fun i => (i, (nd a i).name)) (l := leafR t) (fun _ _ _ _ => rfl)
        rw [← hm, leafOrder_eq]
        congr 1
        apply sorted_unique a _ _ hperm
        · intro x hx; exact hnamed x (hleafO x hx)
        · intro x hx y hy
          exact hdist x (hperm.mem_iff.1 hx) y (hperm.mem_iff.1 hy)
      rw [hsorted]
      simp only [List.map_map, List.length_map, Function.comp_def]
      congr 2
      -- the cells
      rw [← rowMajor_toList st.pw _ hsz]
      apply rowMajor_congr
      intro i j hj hi
      have hjl : j < (leafOrder a).length := by omega
      rw [getD_map_fst a _ i hi, getD_map_fst a _ j hjl]
      have hond := leafOrder_nodup a
      have hxy : (leafOrder a)[i] ≠ (leafOrder a)[j] := fun e => by
        have := (List.getElem_inj hond).1 e; omega
      have hkey : keyOf (idxIn (leafOrder a)) ((leafOrder a)[i], (leafOrder a)[j]) = MX.cell i j := by
        simp only [keyOf, idxIn_getElem hond hi, idxIn_getElem hond hjl, Option.getD_some]
      have hlt : MX.cell i j < Tri.T (leafOrder a).length := MX.cell_lt (by omega) hi hjl
      have hcellidx : MX.cell i j = Tri.T i + j := by
        simp only [MX.cell, gt_iff_lt, hj, ↓reduceIte, Tri.idx_eq]
      have hkeysP : ((pairsW (wOf a unit) t).map (·.1)).Perm (DM.allPairs (leafR t)) := by
        have := DM.keys_pairs (toRT (wOf a unit) t)
        rwa [pairs_toRT, keys_castP, leafIds_toRT] at this
      rw [roseSum_castP (keyOf (idxIn (leafOrder a))) (MX.cell i j), ratToInt_intCast,
        ← csum_perm _ hcs, ← hpw _ hlt, hcellidx]
      -- the filter of `dmRose` selects exactly the contributions keyed to this cell
      intro c hc
      have hm : c.1 ∈ DM.allPairs (leafR t) := hkeysP.mem_iff.1 (List.mem_map.2 ⟨c, hc, rfl⟩)
      obtain ⟨⟨u, v⟩, d⟩ := c
      obtain ⟨hu, hv, huv⟩ := allPairs_mem _ hleafnd u v hm
      simp only [Bool.or_eq_true, Bool.and_eq_true, beq_iff_eq]
      rw [← hkey]
      constructor
      · rintro (⟨rfl, rfl⟩ | ⟨rfl, rfl⟩)
        · rfl
        · exact keyOf_symm _ _ _
      · intro e
        exact keyOf_inj (leafOrder a) u v _ _ (hleafO u hu) (hleafO v hv) (List.getElem_mem hi)
          (List.getElem_mem hjl) huv hxy e

end DMF
