/-! Scratch prototype: rose-level fast distance matrix = LCA-based path length -/
namespace DM

inductive RT where | node (id : Nat) (len : Rat) (kids : List RT)

def RT.len : RT → Rat | .node _ l _ => l
def RT.id : RT → Nat | .node i _ _ => i

def shift (d : Rat) (c : List (Nat × Rat)) : List (Nat × Rat) := c.map (fun p => (p.1, p.2 + d))

mutual
/-- `subtree_distances` of a node: leaf ↦ distance from the node -/
def cache : RT → List (Nat × Rat)
  | .node i _ [] => [(i, 0)]
  | .node _ _ (k :: ks) => cacheL (k :: ks)
def cacheL : List RT → List (Nat × Rat)
  | [] => []
  | k :: ks => shift k.len (cache k) ++ cacheL ks
end

def cross (c rest : List (Nat × Rat)) : List ((Nat × Nat) × Rat) :=
  c.flatMap (fun p => rest.map (fun q => ((p.1, q.1), p.2 + q.2)))

mutual
/-- all contributions `pairwise_vec[idx(l1,l2)] += d1 + d2`, in processing order irrelevant -/
def pairs : RT → List ((Nat × Nat) × Rat)
  | .node _ _ ks => pairsL ks
def pairsL : List RT → List ((Nat × Nat) × Rat)
  | [] => []
  | k :: ks => pairs k ++ (cross (shift k.len (cache k)) (cacheL ks) ++ pairsL ks)
end

mutual
/-- distance from the root of `t` down to leaf `x` -/
def depthTo : RT → Nat → Option Rat
  | .node i _ [], x => if i = x then some 0 else none
  | .node _ _ (k :: ks), x => depthToL (k :: ks) x
def depthToL : List RT → Nat → Option Rat
  | [], _ => none
  | k :: ks, x => match depthTo k x with
    | some d => some (d + k.len)
    | none => depthToL ks x
end

mutual
/-- textbook path length between two leaves: descend to the deepest node containing both -/
def pathLen : RT → Nat → Nat → Option Rat
  | .node _ _ ks, x, y => pathLenL ks x y
def pathLenL : List RT → Nat → Nat → Option Rat
  | [], _, _ => none
  | k :: ks, x, y =>
    match depthTo k x, depthTo k y with
    | some _, some _ => pathLen k x y
    | some dx, none => (depthToL ks y).map (fun dy => (dx + k.len) + dy)
    | none, some dy => (depthToL ks x).map (fun dx => dx + (dy + k.len))
    | none, none => pathLenL ks x y
end

mutual
def leafIds : RT → List Nat
  | .node i _ [] => [i]
  | .node _ _ (k :: ks) => leafIdsL (k :: ks)
def leafIdsL : List RT → List Nat
  | [] => []
  | k :: ks => leafIds k ++ leafIdsL ks
end

end DM
