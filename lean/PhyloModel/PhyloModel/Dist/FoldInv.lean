import PhyloModel.Dist.FoldPerm
import PhyloModel.Dist.BottomUp
/-! # Steps 2-3 of the `dmFast` proof: the loop invariant and its preservation

`FInv … done cs st`: every slot of `done` carries a correct `subtree_distances` cache (a permutation of the
integer cache of the tree the slot represents) and cell `k` of the triangular vector holds the keyed sum of
the contributions `cs` made so far.  One iteration at a node all of whose children are done preserves it
(`dmStep_inv`); folding over a top-down list from its END (= over the reversed level order from its start)
therefore establishes it for the whole list (`fold_inv`). -/
namespace DMF
open AR DMW

structure FInv (a : Arena) (unit : Int) (idxOf : Nat → Option Nat) (tr : Nat → RTI) (N : Nat)
    (done : List Nat) (cs : List ((Nat × Nat) × Int)) (st : FState) : Prop where
  sdsize : st.sd.size = a.size
  pwsize : st.pw.size = N
  sd_ok : ∀ v ∈ done, ∃ m, st.sd.getD v none = some m ∧ m.Perm (cacheW (wOf a unit) (tr v))
  pw_ok : ∀ k, k < N → st.pw.getD k 0 = csum (keyOf idxOf) cs k

theorem getD_setIfInBounds {α : Type} (xs : Array α) (v : Nat) (x d : α) (u : Nat) :
    (xs.setIfInBounds v x).getD u d = if u = v ∧ v < xs.size then x else xs.getD u d := by
  simp only [Array.getD_eq_getD_getElem?, Array.getElem?_setIfInBounds]
  grind

theorem ckeysI_perm {m m' : List (Nat × Int)} (h : m.Perm m') : (ckeysI m).Perm (ckeysI m') := h.map _

theorem mem_ckeysI {m : List (Nat × Int)} {p : Nat × Int} (h : p ∈ m) : p.1 ∈ ckeysI m := by
  simp only [ckeysI, List.mem_map]; exact ⟨p, h, rfl⟩

/-- one iteration of the main loop at a node all of whose children are done -/
theorem dmStep_inv {a : Arena} {unit : Int} {idxOf : Nat → Option Nat} {tr : Nat → RTI} {N : Nat}
    (htr : ∀ v t, Rep a v t → tr v = t)
    {done : List Nat} {cs0 : List ((Nat × Nat) × Int)} {st : FState} (hinv : FInv a unit idxOf tr N done cs0 st)
    {v : Nat} (hrep : Rep a v (tr v)) (hch : ∀ c ∈ (nd a v).children, c ∈ done)
    (hnd : (leafR (tr v)).Nodup) (hidx : ∀ x ∈ leafR (tr v), (idxOf x).isSome) :
    ∃ st', dmStep a unit idxOf (.ok st) v = .ok st' ∧
      FInv a unit idxOf tr N (v :: done) (crossWL (wOf a unit) (rkids (tr v)) ++ cs0) st' := by
  -- the shape of the tree at `v`
  generalize hcs : (nd a v).children = cs at hch
  have hlv : live a v := by
    cases htv : tr v with | node j ks => rw [htv] at hrep; simp only [Rep] at hrep; exact hrep.2.1
  have htv : tr v = .node v (cs.map tr) := by
    cases h : tr v with
    | node j ks =>
      rw [h] at hrep; simp only [Rep] at hrep
      obtain ⟨rfl, _, hk⟩ := hrep
      rw [hcs] at hk
      rw [repL_map tr htr cs ks hk]
  have hrepL : RepL a cs (cs.map tr) := by
    rw [htv] at hrep; simp only [Rep] at hrep; rw [hcs] at hrep; exact hrep.2.2
  have hrc : ∀ c ∈ cs, Rep a c (tr c) := repL_map_mem tr cs hrepL
  have hrid : ∀ c ∈ cs, rid (tr c) = c := fun c hc => rep_rid (hrc c hc)
  have hlc : ∀ c ∈ cs, live a c := by
    intro c hc
    have := hrc c hc
    cases h : tr c with | node j ks => rw [h] at this; simp only [Rep] at this; exact this.2.1
  -- the children's caches
  let m : Nat → List (Nat × Int) := fun c => (st.sd.getD c none).getD []
  have hm : ∀ c ∈ cs, st.sd.getD c none = some (m c) ∧ (m c).Perm (cacheW (wOf a unit) (tr c)) := by
    intro c hc
    obtain ⟨mc, h1, h2⟩ := hinv.sd_ok c (hch c hc)
    have : m c = mc := by simp only [m, h1, Option.getD_some]
    rw [this]; exact ⟨h1, h2⟩
  have hkeys : ∀ c ∈ cs, (ckeysI (m c)).Perm (leafR (tr c)) := by
    intro c hc
    have := ckeysI_perm (hm c hc).2
    rwa [ckeysI_cacheW] at this
  -- the leaves below `v`
  rw [htv, leafR_node_eq, leafRL_map] at hnd hidx
  let cache0 : List (Nat × Int) := if cs.isEmpty then [(v, 0)] else []
  have hk0 : ckeysI cache0 = (if (cs.map tr).isEmpty then [v] else []) := by
    simp only [cache0, ckeysI, List.isEmpty_map]
    split <;> simp
  have hkperm : (ckeysI cache0 ++ cs.flatMap (fun c => ckeysI (m c))).Perm
      ((if (cs.map tr).isEmpty then [v] else []) ++ cs.flatMap (fun c => leafR (tr c))) := by
    rw [hk0]
    exact List.Perm.append_left _ (flatMap_perm_left _ _ cs hkeys)
  -- the cache loop
  obtain ⟨cache, hcache, hcperm⟩ := cacheLoop_ok (a := a) (unit := unit) (sd := st.sd) m cs cache0 hlc
    (fun c hc => (hm c hc).1) (hkperm.nodup_iff.2 hnd)
  have hcW : cache.Perm (cacheW (wOf a unit) (tr v)) := by
    refine hcperm.trans ?_
    rw [htv, cacheW_node_eq, cacheWL_map _ tr cs hrid]
    simp only [List.isEmpty_map, cache0]
    exact List.Perm.append_left _ (flatMap_perm_left _ _ cs (fun c hc => shiftI_perm _ (hm c hc).2))
  have hckeys : (ckeysI cache).Perm ((if (cs.map tr).isEmpty then [v] else []) ++ cs.flatMap (fun c => leafR (tr c))) := by
    have := ckeysI_perm hcW
    rwa [ckeysI_cacheW, htv, leafR_node_eq, leafRL_map] at this
  have hcnd : (ckeysI cache).Nodup := hckeys.nodup_iff.2 hnd
  -- lookups in the cache and in the leaf index
  have hD : ∀ c ∈ cs, ∀ p ∈ m c, kvGet cache p.1 = some (wOf a unit c + p.2) := by
    intro c hc p hp
    apply kvGet_mem cache _ _ hcnd
    apply hcperm.mem_iff.2
    simp only [List.mem_append, List.mem_flatMap]
    refine Or.inr ⟨c, hc, ?_⟩
    simp only [shiftI, List.mem_map]
    exact ⟨p, hp, rfl⟩
  have hI : ∀ c ∈ cs, ∀ p ∈ m c, (idxOf p.1).isSome := by
    intro c hc p hp
    apply hidx
    simp only [List.mem_append, List.mem_flatMap]
    exact Or.inr ⟨c, hc, (hkeys c hc).mem_iff.1 (mem_ckeysI hp)⟩
  have hpw := pwLoop_ok (sd := st.sd) (idxOf := idxOf) (cache := cache) m (wOf a unit) cs
    (fun c hc => (hm c hc).1) hD hI st.pw
  -- the step
  have hget : AR.get a v = .ok (nd a v) := by
    simp only [AR.get, (isLive_iff a v).2 hlv, ↓reduceIte]
  refine ⟨{ sd := st.sd.setIfInBounds v (some cache), pw := (stepCs (wOf a unit) m cs).foldl (fun pw c => addAt pw (keyOf idxOf c.1) c.2) st.pw }, ?_, ?_⟩
  · rw [dmStep_eq, hget]
    simp only [QR.bind_ok, hcs]
    rw [hcache]
    simp only [QR.bind_ok]
    rw [hpw]
    simp only [QR.bind_ok, QR.pure_eq]
  · constructor
    · simp only [Array.size_setIfInBounds]; exact hinv.sdsize
    · simp only [accum_size]; exact hinv.pwsize
    · intro u hu
      simp only [getD_setIfInBounds]
      by_cases huv : u = v
      · subst huv
        have : u < st.sd.size := by rw [hinv.sdsize]; exact hlv.1
        simp only [this, and_self, ↓reduceIte]
        exact ⟨cache, rfl, hcW⟩
      · simp only [huv, false_and, ↓reduceIte]
        simp only [List.mem_cons, huv, false_or] at hu
        exact hinv.sd_ok u hu
    · intro k hk
      simp only []
      rw [accum_getD _ _ _ k (by rw [hinv.pwsize]; exact hk), hinv.pw_ok k hk, csum_append, htv]
      simp only [rkids]
      rw [csum_perm _ (stepCs_perm (wOf a unit) tr m cs hrid (fun c hc => (hm c hc).2)) k]
      omega

/-- the state the loop starts from -/
def st0 (a : Arena) (N : Nat) : FState := { sd := Array.replicate a.size none, pw := Array.replicate N 0 }

theorem st0_inv (a : Arena) (unit : Int) (idxOf : Nat → Option Nat) (tr : Nat → RTI) (N : Nat) :
    FInv a unit idxOf tr N [] [] (st0 a N) := by
  constructor
  · simp [st0]
  · simp [st0]
  · intro v hv; simp at hv
  · intro k hk
    simp only [st0, csum_nil, Array.getD_eq_getD_getElem?]
    simp [hk]

/-- the contributions made at node `v` -/
def crossAt (a : Arena) (unit : Int) (tr : Nat → RTI) (v : Nat) : List ((Nat × Nat) × Int) :=
  crossWL (wOf a unit) (rkids (tr v))

/-- the whole loop over the reversed list `e`, when `e` lists every node before its children -/
theorem fold_inv {a : Arena} {unit : Int} {idxOf : Nat → Option Nat} {tr : Nat → RTI} {N : Nat}
    (htr : ∀ v t, Rep a v t → tr v = t) :
    ∀ (e : List Nat), TopDown a e → (∀ v ∈ e, Rep a v (tr v)) → (∀ v ∈ e, (leafR (tr v)).Nodup) →
      (∀ v ∈ e, ∀ x ∈ leafR (tr v), (idxOf x).isSome) →
      ∃ st, e.reverse.foldl (dmStep a unit idxOf) (.ok (st0 a N)) = .ok st ∧
        FInv a unit idxOf tr N e (e.flatMap (crossAt a unit tr)) st
  | [], _, _, _, _ => ⟨st0 a N, rfl, st0_inv a unit idxOf tr N⟩
  | v :: e, htd, hrep, hnd, hidx => by
    obtain ⟨st, h1, h2⟩ := fold_inv htr e htd.2 (fun u hu => hrep u (by simp [hu])) (fun u hu => hnd u (by simp [hu]))
      (fun u hu => hidx u (by simp [hu]))
    obtain ⟨st', h3, h4⟩ := dmStep_inv htr h2 (hrep v (by simp)) htd.1 (hnd v (by simp)) (hidx v (by simp))
    refine ⟨st', ?_, ?_⟩
    · rw [List.reverse_cons, List.foldl_append, h1]
      exact h3
    · rw [List.flatMap_cons]; exact h4

end DMF
