import PhyloModel.Dist.FoldRose
import PhyloModel.Dist.FoldExamples
/-! Non-vacuity of `DMF.dmFast_eq_dmRose`, and a kernel-checked counterexample showing that its hypothesis
    "the tips have pairwise different names" is needed: in the arena `d4` (tree `((A:1,B:2):3,A:4)` whose
    first-listed tip `A` has the HIGHER slot index) the two definitions order the two taxa named `A`
    differently and return different vectors. -/
namespace DMF
open AR DMW

/-- the hypotheses of `dmFast_eq_dmRose` hold for the three-taxon example of `FoldExamples.lean` -/
example : Inv ex4 ∧ AtMostOneRoot ex4 ∧
    (∀ x ∈ leaves ex4, ∀ y ∈ leaves ex4, (nd ex4 x).name = (nd ex4 y).name → x = y) ∧
    dmRose ex4 10 = .ok (["x", "y", "z"], [17, 19, 12]) := by
  have hd : ∀ x ∈ leaves ex4, ∀ y ∈ leaves ex4, (nd ex4 x).name = (nd ex4 y).name → x = y := by
    rw [leaves_ex4]; decide
  refine ⟨ex4_good.1, ex4_oneRoot, hd, ?_⟩
  rw [← dmFast_eq_dmRose ex4 10 ex4_good.1 ex4_oneRoot hd, dmFast_ex4]

def d0 : Arena := (add #[] none).1
def d1 : Arena := (addChildNamed d0 0 (some 3) none).1
def d2 : Arena := (addChildNamed d1 0 (some 4) (some "A")).1
def d3 : Arena := (addChildNamed d2 1 (some 1) (some "A")).1
def d4 : Arena := (addChildNamed d3 1 (some 2) (some "B")).1

def d4tree : Rose := .node 0 none none 0
    [.node 1 none (some 3) 1 [.node 3 (some "A") (some 1) 2 [], .node 4 (some "B") (some 2) 2 []],
     .node 2 (some "A") (some 4) 1 []]

theorem absRoot_d4 : absRoot d4 = .ok d4tree := by rfl

theorem leafOrder_d4 : leafOrder d4 = [2, 3, 4] := by
  have hl : leaves d4 = [2, 3, 4] := by decide
  rw [leafOrder, hl]
  have n2 : (nd d4 2).name = some "A" := by decide
  have n3 : (nd d4 3).name = some "A" := by decide
  have n4 : (nd d4 4).name = some "B" := by decide
  have h : ([2, 3, 4] : List Nat).Pairwise (fun x y => nameLe (nd d4 x).name (nd d4 y).name = true) := by
    simp [n2, n3, n4, nameLe]
  exact List.mergeSort_of_pairwise h

theorem dmFast_d4 : dmFast d4 10 = .ok (["A", "A", "B"], [8, 9, 3]) := by
  rw [dmFast_eq, leafOrder_d4]
  rfl

theorem dmRose_d4 : dmRose d4 10 = .ok (["A", "A", "B"], [8, 3, 9]) := by
  rw [dmRose_eq, absRoot_d4]
  simp only [QR.bind_ok]
  rw [matrixOf_some]
  have ht : tipsWithNames d4tree = [(3, some "A"), (4, some "B"), (2, some "A")] := by rfl
  have hs : ([(3, some "A"), (4, some "B"), (2, some "A")] : List (Nat × Option String)).mergeSort
      (fun x y => nameLe x.2 y.2) = [(3, some "A"), (2, some "A"), (4, some "B")] := by
    simp [List.mergeSort, nameLe, List.MergeSort.Internal.splitInTwo]
  rw [ht, hs]
  have hp : DM.pairs (absDM 10 d4tree) = [((3, 4), 3), ((3, 2), 8), ((4, 2), 9)] := by
    simp [d4tree, absDM, absDM.absDML, DM.pairs, DM.pairsL, DM.cross, DM.shift, DM.cache, DM.cacheL, DM.RT.len]
    refine ⟨by grind, by grind, by grind⟩
  rw [hp]
  simp [rowMajor, roseSum, List.range, List.range.loop, ratToInt, Rat.zero_add]

/-- the hypothesis "pairwise different names" of `dmFast_eq_dmRose` cannot be dropped -/
example : Inv d4 ∧ AtMostOneRoot d4 ∧ dmFast d4 10 ≠ dmRose d4 10 := by
  refine ⟨?_, ?_, ?_⟩
  · exact (addChildNamed_good _ _ _ (addChildNamed_good _ _ _ (addChildNamed_good _ _ _ (addChildNamed_good _ _ _
      (add_good none empty_good))))).1
  · have h0 : AtMostOneRoot d0 := add_oneRoot none (fun i h => absurd h.1.1 (by simp))
    have r1 : RootsSub d0 d1 := addChildNamed_roots _ _ _
    have r2 : RootsSub d1 d2 := addChildNamed_roots _ _ _
    have r3 : RootsSub d2 d3 := addChildNamed_roots _ _ _
    have r4 : RootsSub d3 d4 := addChildNamed_roots _ _ _
    exact (((r1.trans r2).trans r3).trans r4).atMostOne h0
  · rw [dmFast_d4, dmRose_d4]
    simp
end DMF
