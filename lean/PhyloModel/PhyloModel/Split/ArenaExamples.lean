import PhyloModel.Split.ArenaCompress
import PhyloModel.Split.ArenaRescale
import PhyloModel.Arena.AbsRose
import PhyloModel.Dist.FoldExamples
/-! Non-vacuity of the arena bridges: an arena built with the model's own constructors,
    `((x:5)u:2, y:3, (z:1,t:4)w:6)` — slot 1 is a one-child non-root node, so `compress` has work to do — is good,
    has one root and an abstraction. -/
namespace SPM
open AR

def exA0 : Arena := (add #[] none).1
def exA1 : Arena := (addChildNamed exA0 0 (some 2) (some "u")).1
def exA2 : Arena := (addChildNamed exA1 1 (some 5) (some "x")).1
def exA3 : Arena := (addChildNamed exA2 0 (some 3) (some "y")).1
def exA4 : Arena := (addChildNamed exA3 0 (some 6) (some "w")).1
def exA5 : Arena := (addChildNamed exA4 4 (some 1) (some "z")).1
def exA6 : Arena := (addChildNamed exA5 4 (some 4) (some "t")).1

theorem exA6_good : Good exA6 :=
  addChildNamed_good _ _ _ (addChildNamed_good _ _ _ (addChildNamed_good _ _ _ (addChildNamed_good _ _ _
    (addChildNamed_good _ _ _ (addChildNamed_good _ _ _ (add_good none empty_good))))))

theorem exA6_oneRoot : AtMostOneRoot exA6 := by
  have h0 : AtMostOneRoot exA0 := add_oneRoot none (fun i h => absurd h.1.1 (by simp))
  have r1 : RootsSub exA0 exA1 := addChildNamed_roots _ _ _
  have r2 : RootsSub exA1 exA2 := addChildNamed_roots _ _ _
  have r3 : RootsSub exA2 exA3 := addChildNamed_roots _ _ _
  have r4 : RootsSub exA3 exA4 := addChildNamed_roots _ _ _
  have r5 : RootsSub exA4 exA5 := addChildNamed_roots _ _ _
  have r6 : RootsSub exA5 exA6 := addChildNamed_roots _ _ _
  exact (((((r1.trans r2).trans r3).trans r4).trans r5).trans r6).atMostOne h0

/-- the hypotheses of `compress_shape` / `compress_keeps_splits` / `ladderize_keeps_splits` / `absRoot_rescale`
    hold for an arena on which `compress` has a node to remove -/
example : ∃ t, Good exA6 ∧ absRoot exA6 = .ok t ∧ toCompress exA6 = [1] := by
  obtain ⟨t, ht⟩ := absRoot_total exA6_good exA6_oneRoot 0 ((isLive_iff exA6 0).1 (by decide))
  exact ⟨t, exA6_good, ht, by decide⟩

end SPM
