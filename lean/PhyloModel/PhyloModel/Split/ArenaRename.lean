import PhyloModel.Split.RenameDist
import PhyloModel.Split.ArenaRescale
/-! Bridge for renaming: two arenas that agree on everything but the names — tip names mapped by `f`, the names
    of nodes with children by `g` — abstract to `t` and `renameR f g t`. -/
namespace SPM
open AR

/-- `b` is `a` with every tip renamed by `f` and every other node's name changed by `g` -/
def NameMapped (f : String → String) (g : Option String → Option String) (a b : Arena) : Prop :=
  b.size = a.size ∧ ∀ i, (nd b i).children = (nd a i).children ∧ (nd b i).parent = (nd a i).parent ∧
    (nd b i).pedge = (nd a i).pedge ∧ (nd b i).deleted = (nd a i).deleted ∧ (nd b i).depth = (nd a i).depth ∧
    (nd b i).name = (if (nd a i).children = [] then (nd a i).name.map f else g (nd a i).name)

theorem renameR_node (f : String → String) (g : Option String → Option String) (i : Nat) (n : Option String)
    (l : Option Int) (d : Nat) (ks : List Rose) :
    renameR f g (.node i n l d ks) = .node i (if ks = [] then n.map f else g n) l d (ks.map (renameR f g)) := by
  cases ks with
  | nil => rw [renameR_leaf]; rfl
  | cons k ks => rw [renameR_cons, renameL_eq_map]; rfl

theorem mapM_eq_nil_iff {α β : Type} (h : α → Option β) (l : List α) (r : List β) (hm : l.mapM h = some r) :
    r = [] ↔ l = [] := by
  cases l with
  | nil => simp at hm; simp [hm]
  | cons x l =>
    simp only [List.mapM_cons] at hm
    cases hx : h x with
    | none => simp [hx] at hm
    | some y =>
      cases hl : l.mapM h with
      | none => simp [hx, hl] at hm
      | some ys =>
        simp [hx, hl] at hm
        simp [← hm]

theorem absF_nameMapped {f : String → String} {g : Option String → Option String} {a b : Arena}
    (h : NameMapped f g a b) : ∀ (fu x : Nat), absF fu b x = (absF fu a x).map (renameR f g)
  | 0, x => by simp [absF]
  | fu + 1, x => by
    obtain ⟨p0, _, p2, p3, p4, p5⟩ := h.2 x
    have hlive : isLive b x = isLive a x := by unfold isLive; rw [h.1, p3]
    unfold absF
    rw [hlive]
    by_cases hl : isLive a x = true
    · rw [if_pos hl, if_pos hl, p0, p2, p4, p5]
      have : (fun c => absF fu b c) = (fun c => (absF fu a c).map (renameR f g)) := by
        funext c; exact absF_nameMapped h fu c
      rw [this, mapM_map_option]
      cases hm : (nd a x).children.mapM (fun c => absF fu a c) with
      | none => rfl
      | some ks =>
        simp only [Option.map_some, renameR_node]
        have hnil := mapM_eq_nil_iff _ _ _ hm
        by_cases hk : (nd a x).children = []
        · rw [if_pos hk, if_pos (hnil.2 hk)]
        · rw [if_neg hk, if_neg (fun e => hk (hnil.1 e))]
    · rw [if_neg hl, if_neg hl]; rfl

/-- **arena bridge for renaming** -/
theorem absRoot_nameMapped {f : String → String} {g : Option String → Option String} {a b : Arena}
    (h : NameMapped f g a b) (t : Rose) (ht : absRoot a = .ok t) : absRoot b = .ok (renameR f g t) := by
  have hroot : getRoot b = getRoot a := by
    unfold getRoot
    rw [h.1]
    apply find?_congr'
    intro i _
    obtain ⟨_, p1, _, p3, _⟩ := h.2 i
    unfold isLive
    rw [h.1, p3, p1]
  unfold absRoot root at ht ⊢
  rw [hroot]
  cases hr : getRoot a with
  | none => rw [hr] at ht; simp [QR.ofOpt] at ht
  | some r =>
    rw [hr] at ht
    simp only [QR.ofOpt, QR.bind_ok] at ht ⊢
    have hfuel : fuelOf b = fuelOf a := by unfold fuelOf; rw [h.1]
    rw [hfuel, absF_nameMapped h]
    cases hf : absF (fuelOf a) a r with
    | none => rw [hf] at ht; cases ht
    | some t0 =>
      rw [hf] at ht
      simp only [QR.ok.injEq] at ht
      subst ht
      rfl

/-- RF between two arenas does not change when the taxa of both are renamed consistently -/
theorem rf_nameMapped {f : String → String} (hf : Function.Injective f) {g g' : Option String → Option String}
    {a a' b b' : Arena} (ha : NameMapped f g a a') (hb : NameMapped f g' b b') (s o : Rose)
    (hs : absRoot a = .ok s) (ho : absRoot b = .ok o) :
    ∃ s' o', absRoot a' = .ok s' ∧ absRoot b' = .ok o' ∧ rf s' o' = rf s o ∧
      compareTopologies s' o' = compareTopologies s o :=
  ⟨_, _, absRoot_nameMapped ha s hs, absRoot_nameMapped hb o ho, rf_renameR hf g g' s o,
    compareTopologies_renameR hf g g' s o⟩

end SPM
