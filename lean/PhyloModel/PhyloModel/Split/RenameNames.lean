import PhyloModel.Split.RenameDist
/-! The reported set of a renamed tree, read as NAME SETS: the split `{A, rest}` is reported for the tree iff
    the split `{f A, rest}` is reported for the renamed tree; read back through `namesOf`, a reported side of the
    renamed tree lists the image of the names listed by the corresponding side of the tree, or the image of
    their complement (which of the two sides is stored depends on the sorted order, which `f` changes). -/
namespace SPM
open AR

section
variable {f : String → String} (hf : Function.Injective f) (g : Option String → Option String)
include hf

/-- the sides reported for the renamed tree are the transported sides, in the same order -/
theorem sides_renameR (t : Rose) (all : List String) (ps : List Part)
    (hall : leafIndex t = .ok all) (hps : partitions t = .ok ps) :
    ∃ ps', partitions (renameR f g t) = .ok ps' ∧ sides ps' = (sides ps).map (phi f all) :=
  ⟨_, partitions_renameR hf g t all ps hall hps, sides_mapP all ps⟩

/-- **renaming, name-set reading**: the split of the leaf set into `A` and the rest is reported for the tree
    iff the split into `f A` and the rest is reported for the renamed tree -/
theorem reported_renameR_iff (t : Rose) (all : List String) (ps ps' : List Part)
    (hall : leafIndex t = .ok all) (hps : partitions t = .ok ps)
    (hps' : partitions (renameR f g t) = .ok ps') (A : List String) :
    canon (maskOf (sigma f all) (A.map f)) ∈ sides ps' ↔ canon (maskOf all A) ∈ sides ps := by
  have h := partitions_renameR hf g t all ps hall hps
  rw [hps'] at h
  cases h
  rw [sides_mapP, ← phi_canon_mask hf]
  exact mem_map_phi hf all (sides ps) (isSide_of_mem_sides t all ps hall hps) _ ⟨A, rfl⟩

/-- reading a transported side back as names: the image of the names of the side, or of their complement -/
theorem namesOf_phi (all : List String) (x : Side) (hx : IsSide all x) :
    (∀ y, y ∈ namesOf (sigma f all) (phi f all x) ↔ ∃ z, z ∈ namesOf all x ∧ f z = y) ∨
    (∀ y, y ∈ namesOf (sigma f all) (phi f all x) ↔ ∃ z, z ∈ all ∧ z ∉ namesOf all x ∧ f z = y) := by
  obtain ⟨A, rfl⟩ := hx
  rw [phi_canon_mask hf]
  have hmem : ∀ y, (y ∈ sigma f all ∧ y ∈ A.map f) ↔ ∃ z, (z ∈ all ∧ z ∈ A) ∧ f z = y := by
    intro y
    constructor
    · rintro ⟨h1, h2⟩
      obtain ⟨z, hz, rfl⟩ := (mem_sigma f all y).1 h1
      exact ⟨z, ⟨hz, (mem_map_inj hf A z).1 h2⟩, rfl⟩
    · rintro ⟨z, ⟨h1, h2⟩, rfl⟩
      exact ⟨(mem_sigma f all _).2 ⟨z, h1, rfl⟩, (mem_map_inj hf A z).2 h2⟩
  have hmem' : ∀ y, (y ∈ sigma f all ∧ y ∉ A.map f) ↔ ∃ z, (z ∈ all ∧ z ∉ A) ∧ f z = y := by
    intro y
    constructor
    · rintro ⟨h1, h2⟩
      obtain ⟨z, hz, rfl⟩ := (mem_sigma f all y).1 h1
      exact ⟨z, ⟨hz, fun h => h2 ((mem_map_inj hf A z).2 h)⟩, rfl⟩
    · rintro ⟨z, ⟨h1, h2⟩, rfl⟩
      exact ⟨(mem_sigma f all _).2 ⟨z, h1, rfl⟩, fun h => h2 ((mem_map_inj hf A z).1 h)⟩
  rcases namesOf_canon_mask all A with h1 | h1 <;>
    rcases namesOf_canon_mask (sigma f all) (A.map f) with h2 | h2
  · left; intro y; rw [h2, hmem]
    constructor
    · rintro ⟨z, hz, he⟩; exact ⟨z, (h1 z).2 hz, he⟩
    · rintro ⟨z, hz, he⟩; exact ⟨z, (h1 z).1 hz, he⟩
  · right; intro y; rw [h2, hmem']
    constructor
    · rintro ⟨z, ⟨hz1, hz2⟩, he⟩; exact ⟨z, hz1, fun h => hz2 ((h1 z).1 h).2, he⟩
    · rintro ⟨z, hz1, hz2, he⟩; exact ⟨z, ⟨hz1, fun h => hz2 ((h1 z).2 ⟨hz1, h⟩)⟩, he⟩
  · right; intro y; rw [h2, hmem]
    constructor
    · rintro ⟨z, ⟨hz1, hz2⟩, he⟩; exact ⟨z, hz1, fun h => ((h1 z).1 h).2 hz2, he⟩
    · rintro ⟨z, hz1, hz2, he⟩
      refine ⟨z, ⟨hz1, ?_⟩, he⟩
      apply Classical.byContradiction
      intro hA; exact hz2 ((h1 z).2 ⟨hz1, hA⟩)
  · left; intro y; rw [h2, hmem']
    constructor
    · rintro ⟨z, hz, he⟩; exact ⟨z, (h1 z).2 hz, he⟩
    · rintro ⟨z, hz, he⟩; exact ⟨z, (h1 z).1 hz, he⟩

/-- **renaming, `namesOf` reading**: every reported side `x` of the tree has the reported side `phi x` of the
    renamed tree, which lists the image of the names `x` lists or the image of the complementary names; and
    every reported side of the renamed tree arises this way -/
theorem reported_renameR_names (t : Rose) (all : List String) (ps ps' : List Part)
    (hall : leafIndex t = .ok all) (hps : partitions t = .ok ps)
    (hps' : partitions (renameR f g t) = .ok ps') :
    (∀ x' , x' ∈ sides ps' ↔ ∃ x ∈ sides ps, x' = phi f all x) ∧
    (∀ x ∈ sides ps,
      (∀ y, y ∈ namesOf (sigma f all) (phi f all x) ↔ ∃ z, z ∈ namesOf all x ∧ f z = y) ∨
      (∀ y, y ∈ namesOf (sigma f all) (phi f all x) ↔ ∃ z, z ∈ all ∧ z ∉ namesOf all x ∧ f z = y)) := by
  have h := partitions_renameR hf g t all ps hall hps
  rw [hps'] at h
  cases h
  refine ⟨?_, fun x hx => namesOf_phi hf all x (isSide_of_mem_sides t all ps hall hps x hx)⟩
  intro x'
  rw [sides_mapP, List.mem_map]
  constructor
  · rintro ⟨x, hx, rfl⟩; exact ⟨x, hx, rfl⟩
  · rintro ⟨x, hx, rfl⟩; exact ⟨x, hx, rfl⟩

end

end SPM
