import PhyloModel.Split.Model
/-! Lemmas about the bitmask split model: complement symmetry of the canonical side and of the
    trivial-split test, the partition map as a duplicate-free set of canonical sides, counting. -/
namespace SPM

@[simp] theorem length_flip (m : Side) : (flip m).length = m.length := by simp [flip]

theorem flip_flip (m : Side) : flip (flip m) = m := by
  induction m with
  | nil => rfl
  | cons b m ih => simp only [flip, List.map_cons, Bool.not_not] at ih ⊢; rw [ih]

theorem ones_flip (m : Side) : ones (flip m) + ones m = m.length := by
  induction m with
  | nil => simp [ones, flip]
  | cons b m ih =>
    simp only [ones, flip] at ih ⊢
    cases b <;> simp [List.count_cons] <;> omega

/-- the canonical side never contains the first leaf -/
theorem canon_head (m : Side) : (canon m).head? ≠ some true := by
  cases m with
  | nil => simp [canon]
  | cons b m => cases b <;> simp [canon, flip]

/-- "reported once whichever side is listed": a side and its complement have the same representative -/
theorem canon_flip (m : Side) : canon (flip m) = canon m := by
  cases m with
  | nil => simp [canon, flip]
  | cons b m =>
    cases b
    · simp only [flip, List.map_cons, Bool.not_false, canon, Bool.not_true, List.map_map]
      congr 1
      induction m with
      | nil => rfl
      | cons c m ih => simp [ih]
    · simp [canon, flip]

theorem canon_eq (m : Side) : canon m = m ∨ canon m = flip m := by
  cases m with
  | nil => left; rfl
  | cons b m => cases b <;> simp [canon]

theorem canon_idem (m : Side) : canon (canon m) = canon m := by
  rcases canon_eq m with h | h
  · rw [h, h]
  · rw [h, canon_flip, h]

/-- the trivial-split test is symmetric in the two sides -/
theorem trivial_flip (m : Side) : trivial (flip m) = trivial m := by
  have h := ones_flip m
  simp only [trivial, length_flip]
  by_cases h1 : ones m ≤ 1 <;> by_cases h2 : ones m + 1 ≥ m.length <;>
    by_cases h3 : ones (flip m) ≤ 1 <;> by_cases h4 : ones (flip m) + 1 ≥ m.length <;>
    simp [h1, h2, h3, h4] <;> omega

theorem trivial_canon (m : Side) : trivial (canon m) = trivial m := by
  rcases canon_eq m with h | h
  · rw [h]
  · rw [h, trivial_flip]

/-- a non-trivial split has at least two leaves on each side -/
theorem not_trivial_iff (m : Side) : trivial m = false ↔ 2 ≤ ones m ∧ 2 ≤ ones (flip m) := by
  have h := ones_flip m
  simp only [trivial]
  constructor
  · intro ht
    simp at ht
    omega
  · intro ⟨h1, h2⟩
    simp
    omega

/-! ### the partition map -/

theorem sides_insertPart (m : List Part) (s : Side) (d : Nat) (l : Option Int) (x : Side) :
    x ∈ sides (insertPart m s d l) ↔ x ∈ sides m ∨ x = s := by
  unfold insertPart sides
  split
  · next p hp =>
    have hps : p.side = s ∧ p ∈ m := by
      have := List.find?_some hp
      have hm := List.mem_of_find?_eq_some hp
      exact ⟨by simpa using this, hm⟩
    simp only [List.map_append, List.mem_append, List.mem_map, List.mem_filter, List.map_cons, List.map_nil,
      List.mem_singleton]
    constructor
    · rintro (⟨q, ⟨hq, _⟩, rfl⟩ | h)
      · left; exact ⟨q, hq, rfl⟩
      · right; exact h
    · rintro (⟨q, hq, rfl⟩ | h)
      · by_cases hqs : q.side = s
        · right; exact hqs
        · left; exact ⟨q, ⟨hq, by simpa using hqs⟩, rfl⟩
      · right; exact h
  · simp only [List.map_append, List.mem_append, List.map_cons, List.map_nil, List.mem_singleton]

theorem sides_nodup_insertPart (m : List Part) (s : Side) (d : Nat) (l : Option Int)
    (h : (sides m).Nodup) : (sides (insertPart m s d l)).Nodup := by
  unfold insertPart sides at *
  split
  · next p hp =>
    rw [List.map_append, List.nodup_append]
    refine ⟨?_, by simp, ?_⟩
    · exact List.Nodup.sublist (List.Sublist.map _ List.filter_sublist) h
    · intro a ha b hb
      simp only [List.mem_map, List.mem_filter] at ha
      obtain ⟨q, ⟨_, hq⟩, rfl⟩ := ha
      simp only [List.map_cons, List.map_nil, List.mem_singleton] at hb
      subst hb
      simpa using hq
  · next hnone =>
    rw [List.map_append, List.nodup_append]
    refine ⟨h, by simp, ?_⟩
    intro a ha b hb
    simp only [List.map_cons, List.map_nil, List.mem_singleton] at hb
    subst hb
    simp only [List.mem_map] at ha
    obtain ⟨q, hq, rfl⟩ := ha
    have := List.find?_eq_none.mp hnone q hq
    intro heq
    exact this (by simpa using heq)

theorem sides_foldl (bs : List (Side × Nat × Option Int)) :
    ∀ (m : List Part) (x : Side),
      x ∈ sides (bs.foldl (fun m b => insertPart m b.1 b.2.1 b.2.2) m) ↔ x ∈ sides m ∨ ∃ b ∈ bs, x = b.1 := by
  induction bs with
  | nil => intro m x; simp
  | cons b bs ih =>
    intro m x
    simp only [List.foldl_cons]
    rw [ih, sides_insertPart]
    simp only [List.mem_cons, exists_eq_or_imp]
    constructor
    · rintro ((h | h) | h)
      · left; exact h
      · right; left; exact h
      · right; right; exact h
    · rintro (h | h | h)
      · left; left; exact h
      · left; right; exact h
      · right; exact h

theorem sides_nodup_foldl (bs : List (Side × Nat × Option Int)) :
    ∀ (m : List Part), (sides m).Nodup → (sides (bs.foldl (fun m b => insertPart m b.1 b.2.1 b.2.2) m)).Nodup := by
  induction bs with
  | nil => intro m h; simpa using h
  | cons b bs ih =>
    intro m h
    simp only [List.foldl_cons]
    exact ih _ (sides_nodup_insertPart m b.1 b.2.1 b.2.2 h)

/-! ### counting -/

theorem length_filter_split {α : Type} (p : α → Bool) (l : List α) :
    (l.filter p).length + (l.filter (fun x => !p x)).length = l.length := by
  induction l with
  | nil => simp
  | cons a l ih =>
    simp only [List.filter_cons]
    cases p a <;> simp <;> omega

theorem inter_symm (a b : List Side) (ha : a.Nodup) (hb : b.Nodup) : inter a b = inter b a := by
  unfold inter
  apply List.Perm.length_eq
  rw [List.perm_ext_iff_of_nodup (ha.filter _) (hb.filter _)]
  intro x
  simp only [List.mem_filter, List.contains_eq_mem, decide_eq_true_eq]
  exact ⟨fun ⟨h1, h2⟩ => ⟨h2, h1⟩, fun ⟨h1, h2⟩ => ⟨h2, h1⟩⟩

theorem inter_le_left (a b : List Side) : inter a b ≤ a.length := by
  unfold inter; exact List.length_filter_le _ _

/-- `|A| + |B| − 2|A∩B|` is the number of splits present in exactly one of the two sets -/
theorem delta_eq_symdiff (a b : List Side) (ha : a.Nodup) (hb : b.Nodup) :
    b.length + a.length - 2 * inter b a =
      (a.filter (fun s => !b.contains s)).length + (b.filter (fun s => !a.contains s)).length := by
  have h1 := length_filter_split (fun s => b.contains s) a
  have h2 := length_filter_split (fun s => a.contains s) b
  have h3 := inter_symm a b ha hb
  unfold inter at *
  omega

end SPM
