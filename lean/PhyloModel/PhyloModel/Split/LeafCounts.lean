import PhyloModel.Split.Rename
/-! "At least two leaves on each side" in terms of LEAVES (not bits): for a tree with a leaf index, the number
    of set bits of the mask of a branch is the number of leaves below the branch, so a side is reported iff it
    is the stored side of a non-root internal node with at least two leaves below it and at least two leaves
    elsewhere. -/
namespace SPM
open AR C05

theorem ones_maskOf_eq_length (all A : List String) (hall : all.Nodup) (hA : A.Nodup) (hsub : ∀ x ∈ A, x ∈ all) :
    ones (maskOf all A) = A.length := by
  rw [ones_eq_countP, List.countP_eq_length_filter]
  apply List.Perm.length_eq
  rw [List.perm_ext_iff_of_nodup (hall.filter _) hA]
  intro x
  simp only [List.mem_filter, List.contains_eq_mem, decide_eq_true_eq]
  exact ⟨fun h => h.2, fun h => ⟨hsub x h, h⟩⟩

theorem inner_node (i : Nat) (n : Option String) (l : Option Int) (d : Nat) (ks : List Rose) :
    inner (.node i n l d ks) = innerL ks := by rw [inner]
theorem innerL_nil : innerL [] = [] := by rw [innerL]
theorem mem_innerL_cons (k : Rose) (ks : List Rose) (v : Rose) :
    v ∈ innerL (k :: ks) ↔ ((v = k ∧ k.kids ≠ []) ∨ v ∈ inner k ∨ v ∈ innerL ks) := by
  cases k with
  | node i n l d kk =>
    cases kk with
    | nil => rw [innerL]; simp [Rose.kids]
    | cons k1 kk => rw [innerL]; simp [Rose.kids]

mutual
/-- the tips below a non-root node are a sublist of the tips of the tree -/
theorem tipNames_sublist_inner : ∀ (t v : Rose), v ∈ inner t → (tipNames v).Sublist (tipNames t)
  | .node i n l d [], v, hv => by rw [inner_node, innerL_nil] at hv; cases hv
  | .node i n l d (k :: ks), v, hv => by
    rw [inner_node] at hv
    rw [tipNames_cons]
    exact tipNames_sublist_innerL (k :: ks) v hv
theorem tipNames_sublist_innerL : ∀ (ks : List Rose) (v : Rose), v ∈ innerL ks → (tipNames v).Sublist (tipNamesL ks)
  | [], v, hv => by rw [innerL_nil] at hv; cases hv
  | k :: ks, v, hv => by
    rw [tipNamesL_cons]
    rcases (mem_innerL_cons k ks v).1 hv with ⟨rfl, _⟩ | h | h
    · exact List.sublist_append_left _ _
    · exact (tipNames_sublist_inner k v h).trans (List.sublist_append_left _ _)
    · exact (tipNames_sublist_innerL ks v h).trans (List.sublist_append_right _ _)
end

theorem names_sublist_inner (t v : Rose) (hv : v ∈ inner t) : (names v).Sublist (names t) :=
  (tipNames_sublist_inner t v hv).filterMap id

/-- bits = leaves: below a non-root node of a tree with leaf index `all`, the mask has as many set bits as
    there are leaves below the node, and its complement as many as there are leaves elsewhere -/
theorem ones_sideOf_inner (t : Rose) (all : List String) (hall : leafIndex t = .ok all) (v : Rose) (hv : v ∈ inner t) :
    ones (maskOf all (names v)) = (names v).length ∧
    ones (flip (maskOf all (names v))) + (names v).length = all.length := by
  obtain ⟨_, hnd, _⟩ := (leafIndex_ok_iff t all).1 hall
  have hsub := names_sublist_inner t v hv
  have h1 := ones_maskOf_eq_length all (names v) (leafIndex_nodup t all hall) (hsub.nodup hnd)
    (fun x hx => (mem_leafIndex t all hall x).2 (hsub.subset hx))
  refine ⟨h1, ?_⟩
  have := ones_flip (maskOf all (names v))
  have hl : (maskOf all (names v)).length = all.length := by simp [maskOf]
  omega

/-- **exactness in terms of leaves**: a side is reported iff it is the stored side of a non-root internal node
    with at least two leaves below it and at least two leaves elsewhere -/
theorem partitions_exact_leaves (t : Rose) (all : List String) (ps : List Part) (hall : leafIndex t = .ok all)
    (hps : partitions t = .ok ps) (x : Side) :
    x ∈ sides ps ↔ ∃ v ∈ inner t, x = sideOf all v ∧ 2 ≤ (names v).length ∧ (names v).length + 2 ≤ all.length := by
  rw [partitions_exact t all ps hall hps]
  constructor
  · rintro ⟨v, hv, rfl, h⟩
    refine ⟨v, hv, rfl, ?_⟩
    have hnt : trivial (maskOf all (names v)) = false := by
      rw [← trivial_canon, ← sideOf_eq]; exact (not_trivial_iff _).2 h
    have h2 := (not_trivial_iff _).1 hnt
    obtain ⟨e1, e2⟩ := ones_sideOf_inner t all hall v hv
    omega
  · rintro ⟨v, hv, rfl, h1, h2⟩
    refine ⟨v, hv, rfl, ?_⟩
    obtain ⟨e1, e2⟩ := ones_sideOf_inner t all hall v hv
    have hnt : trivial (maskOf all (names v)) = false := (not_trivial_iff _).2 ⟨by omega, by omega⟩
    rw [← trivial_canon, ← sideOf_eq] at hnt
    exact (not_trivial_iff _).1 hnt

end SPM
