import PhyloModel.Split.Rename
/-! Renaming a rose tree: the leaf index is the sorted image, every branch entry is transported by `phi`, and
    the partition map of the renamed tree is the entry-by-entry image of the partition map of the tree. -/
namespace SPM
open AR

mutual
/-- rename every tip by `f`; internal node names (never read by the split machinery) are changed by an
    arbitrary `g` -/
def renameR (f : String → String) (g : Option String → Option String) : Rose → Rose
  | .node i n l d [] => .node i (n.map f) l d []
  | .node i n l d (k :: ks) => .node i (g n) l d (renameL f g (k :: ks))
def renameL (f : String → String) (g : Option String → Option String) : List Rose → List Rose
  | [] => []
  | k :: ks => renameR f g k :: renameL f g ks
end

section
variable (f : String → String) (g : Option String → Option String)

theorem renameR_leaf (i : Nat) (n : Option String) (l : Option Int) (d : Nat) :
    renameR f g (.node i n l d []) = .node i (n.map f) l d [] := by rw [renameR]
theorem renameR_cons (i : Nat) (n : Option String) (l : Option Int) (d : Nat) (k : Rose) (ks : List Rose) :
    renameR f g (.node i n l d (k :: ks)) = .node i (g n) l d (renameL f g (k :: ks)) := by rw [renameR]
theorem renameL_nil : renameL f g [] = [] := by rw [renameL]
theorem renameL_cons (k : Rose) (ks : List Rose) : renameL f g (k :: ks) = renameR f g k :: renameL f g ks := by
  rw [renameL]

theorem renameL_eq_map : ∀ ks : List Rose, renameL f g ks = ks.map (renameR f g)
  | [] => by rw [renameL_nil]; rfl
  | k :: ks => by rw [renameL_cons, renameL_eq_map ks]; rfl

theorem kids_renameR (t : Rose) : (renameR f g t).kids = renameL f g t.kids := by
  cases t with
  | node i n l d ks =>
    cases ks with
    | nil => rw [renameR_leaf]; simp only [Rose.kids]; rw [renameL_nil]
    | cons k ks => rw [renameR_cons]; rfl

theorem depth_renameR (t : Rose) : (renameR f g t).depth = t.depth := by
  cases t with
  | node i n l d ks =>
    cases ks with
    | nil => rw [renameR_leaf]; rfl
    | cons k ks => rw [renameR_cons]; rfl

theorem len_renameR (t : Rose) : (renameR f g t).len = t.len := by
  cases t with
  | node i n l d ks =>
    cases ks with
    | nil => rw [renameR_leaf]; rfl
    | cons k ks => rw [renameR_cons]; rfl

theorem kids_renameR_nil (t : Rose) : (renameR f g t).kids = [] ↔ t.kids = [] := by
  rw [kids_renameR, renameL_eq_map]
  simp

mutual
theorem tipNames_renameR : ∀ t : Rose, tipNames (renameR f g t) = (tipNames t).map (Option.map f)
  | .node i n l d [] => by rw [renameR_leaf, tipNames_leaf, tipNames_leaf]; rfl
  | .node i n l d (k :: ks) => by
    rw [renameR_cons, tipNames_cons, renameL_cons, tipNames_cons, tipNamesL_cons, tipNamesL_cons,
      tipNames_renameR k, tipNamesL_renameL ks, List.map_append]
theorem tipNamesL_renameL : ∀ ks : List Rose, tipNamesL (renameL f g ks) = (tipNamesL ks).map (Option.map f)
  | [] => by rw [renameL_nil, tipNamesL_nil]; rfl
  | k :: ks => by
    rw [renameL_cons, tipNamesL_cons, tipNamesL_cons, tipNames_renameR k, tipNamesL_renameL ks, List.map_append]
end

theorem filterMap_id_map (l : List (Option String)) :
    (l.map (Option.map f)).filterMap id = (l.filterMap id).map f := by
  induction l with
  | nil => rfl
  | cons a l ih => cases a <;> simp [ih]

theorem names_renameR (t : Rose) : names (renameR f g t) = (names t).map f := by
  unfold names
  rw [tipNames_renameR, filterMap_id_map]

end

section
variable {f : String → String} (hf : Function.Injective f) (g : Option String → Option String)
include hf

/-- the stored side of a renamed branch is the transported stored side of the branch -/
theorem sideOf_renameR (all : List String) (t : Rose) :
    sideOf (sigma f all) (renameR f g t) = phi f all (sideOf all t) := by
  rw [sideOf_eq, sideOf_eq, names_renameR, phi_canon_mask hf]

/-- transport of a branch entry -/
def mapB (f : String → String) (all : List String) (b : Side × Nat × Option Int) : Side × Nat × Option Int :=
  (phi f all b.1, b.2)

omit hf in
theorem mapB_fst (all : List String) (b : Side × Nat × Option Int) : (mapB f all b).1 = phi f all b.1 := rfl

theorem headB_renameR (all : List String) (t : Rose) :
    headB (sigma f all) (renameR f g t) = (headB all t).map (mapB f all) := by
  unfold headB
  by_cases hk : t.kids = []
  · rw [if_pos hk, if_pos ((kids_renameR_nil f g t).2 hk)]; rfl
  · rw [if_neg hk, if_neg (fun h => hk ((kids_renameR_nil f g t).1 h)), sideOf_renameR hf, depth_renameR,
      len_renameR]
    rfl

set_option linter.unusedSectionVars false in
mutual
theorem branches_renameR (all : List String) :
    ∀ t : Rose, branches (sigma f all) (renameR f g t) = (branches all t).map (mapB f all)
  | .node i n l d [] => by
    rw [renameR_leaf, branches_node, branches_node, branchesL_nil]; rfl
  | .node i n l d (k :: ks) => by
    rw [renameR_cons, branches_node, branches_node]
    exact branchesL_renameL all (k :: ks)
theorem branchesL_renameL (all : List String) :
    ∀ ks : List Rose, branchesL (sigma f all) (renameL f g ks) = (branchesL all ks).map (mapB f all)
  | [] => by rw [renameL_nil, branchesL_nil, branchesL_nil]; rfl
  | k :: ks => by
    rw [renameL_cons, branchesL_cons, branchesL_cons, headB_renameR hf g all k, branches_renameR all k,
      branchesL_renameL all ks, List.map_append, List.map_append]
end

omit hf in
/-- every branch entry carries a side that can occur -/
theorem isSide_of_mem_branches (all : List String) (t : Rose) (b : Side × Nat × Option Int)
    (hb : b ∈ branches all t) : IsSide all b.1 := by
  have : b.1 ∈ (branches all t).map (·.1) := List.mem_map.mpr ⟨b, hb, rfl⟩
  rw [C05.branches_inner] at this
  obtain ⟨v, _, hv⟩ := List.mem_map.mp this
  rw [← hv]; exact isSide_sideOf all v

theorem nbranches_renameR (all : List String) (t : Rose) :
    nbranches (sigma f all) (renameR f g t) = (nbranches all t).map (mapB f all) := by
  unfold nbranches
  rw [branches_renameR hf g all t, List.filter_map]
  congr 1
  apply List.filter_congr
  intro b hb
  simp only [Function.comp, mapB_fst]
  rw [trivial_phi hf all b.1 (isSide_of_mem_branches all t b hb)]

/-- transport of an entry of the partition map -/
def mapP (f : String → String) (all : List String) (p : Part) : Part :=
  { side := phi f all p.side, depth := p.depth, len := p.len }

omit hf in
theorem sides_mapP (all : List String) (m : List Part) : sides (m.map (mapP f all)) = (sides m).map (phi f all) := by
  simp [sides, mapP, List.map_map, Function.comp_def]

theorem insertPart_map (all : List String) (m : List Part) (s : Side) (d : Nat) (l : Option Int)
    (hm : ∀ q ∈ m, IsSide all q.side) (hs : IsSide all s) :
    insertPart (m.map (mapP f all)) (phi f all s) d l = (insertPart m s d l).map (mapP f all) := by
  have hfind : (m.map (mapP f all)).find? (fun p => p.side == phi f all s) =
      (m.find? (fun p => p.side == s)).map (mapP f all) := by
    rw [List.find?_map]
    congr 1
    apply find?_congr'
    intro q hq
    simp only [Function.comp, mapP]
    exact phi_beq hf all q.side s (hm q hq) hs
  have hfilter : (m.map (mapP f all)).filter (fun q => q.side != phi f all s) =
      (m.filter (fun q => q.side != s)).map (mapP f all) := by
    rw [List.filter_map]
    congr 1
    apply List.filter_congr
    intro q hq
    simp only [Function.comp, mapP, bne]
    rw [phi_beq hf all q.side s (hm q hq) hs]
  unfold insertPart
  rw [hfind]
  cases hq : m.find? (fun p => p.side == s) with
  | none => simp [mapP]
  | some q =>
    simp only [Option.map_some]
    rw [hfilter]
    simp [mapP]

theorem foldl_insertPart_map (all : List String) :
    ∀ (bs : List (Side × Nat × Option Int)) (m : List Part),
      (∀ q ∈ m, IsSide all q.side) → (∀ b ∈ bs, IsSide all b.1) →
      (bs.map (mapB f all)).foldl (fun m b => insertPart m b.1 b.2.1 b.2.2) (m.map (mapP f all)) =
        (bs.foldl (fun m b => insertPart m b.1 b.2.1 b.2.2) m).map (mapP f all)
  | [], m, _, _ => rfl
  | b :: bs, m, hm, hbs => by
    simp only [List.map_cons, List.foldl_cons, mapB]
    rw [insertPart_map hf all m b.1 b.2.1 b.2.2 hm (hbs b List.mem_cons_self)]
    apply foldl_insertPart_map all bs
    · intro q hq
      have : q.side ∈ sides (insertPart m b.1 b.2.1 b.2.2) := List.mem_map.mpr ⟨q, hq, rfl⟩
      rw [sides_insertPart] at this
      rcases this with h | h
      · obtain ⟨q', hq', he⟩ := List.mem_map.mp h
        rw [← he]; exact hm q' hq'
      · rw [h]; exact hbs b List.mem_cons_self
    · intro c hc; exact hbs c (List.mem_cons_of_mem _ hc)

omit hf in
theorem sortS_sigma (l : List String) : sigma f (sortS l) = sortS (l.map f) := by
  unfold sigma
  exact sortS_congr _ _ ((sortS_perm l).map f)

omit hf in
theorem any_isNone_rename (l : List (Option String)) :
    (l.map (Option.map f)).any Option.isNone = l.any Option.isNone := by
  induction l with
  | nil => rfl
  | cons a l ih => cases a <;> simp [ih]

theorem nodup_map_inj (l : List String) : (l.map f).Nodup ↔ l.Nodup := by
  induction l with
  | nil => simp
  | cons a l ih =>
    rw [List.map_cons, List.nodup_cons, List.nodup_cons, ih, mem_map_inj hf]

/-- **the renamed leaf index**: the sorted image of the leaf index; the same error otherwise -/
theorem leafIndex_renameR (t : Rose) :
    leafIndex (renameR f g t) =
      (match leafIndex t with
       | .ok all => .ok (sigma f all)
       | .err e => .err e
       | .panic => .panic) := by
  have hany : (tipNames (renameR f g t)).any Option.isNone = (tipNames t).any Option.isNone := by
    rw [tipNames_renameR, any_isNone_rename]
  have hnd : (names (renameR f g t)).Nodup ↔ (names t).Nodup := by
    rw [names_renameR, nodup_map_inj hf]
  rcases leafIndex_cases t with ⟨h1, h2⟩ | ⟨h1, h2, h3⟩ | ⟨h1, h2, h3⟩
  · rw [h2]
    rcases leafIndex_cases (renameR f g t) with ⟨h1', h2'⟩ | ⟨h1', _, _⟩ | ⟨h1', _, _⟩
    · exact h2'
    · rw [hany, h1] at h1'; cases h1'
    · rw [hany, h1] at h1'; cases h1'
  · rw [h3]
    rcases leafIndex_cases (renameR f g t) with ⟨h1', _⟩ | ⟨_, _, h3'⟩ | ⟨_, h2', _⟩
    · rw [hany, h1] at h1'; cases h1'
    · exact h3'
    · exact absurd (hnd.1 h2') h2
  · rw [h3]
    rcases leafIndex_cases (renameR f g t) with ⟨h1', _⟩ | ⟨_, h2', _⟩ | ⟨_, _, h3'⟩
    · rw [hany, h1] at h1'; cases h1'
    · exact absurd (hnd.2 h2) h2'
    · rw [h3', names_renameR]
      show QR.ok (sortS ((names t).map f)) = QR.ok (sigma f (sortS (names t)))
      rw [sortS_sigma]

theorem leafIndex_renameR_ok (t : Rose) (all : List String) (h : leafIndex t = .ok all) :
    leafIndex (renameR f g t) = .ok (sigma f all) := by
  rw [leafIndex_renameR hf g t, h]

theorem leafIndex_renameR_err (t : Rose) (e : String) (h : leafIndex t = .err e) :
    leafIndex (renameR f g t) = .err e := by
  rw [leafIndex_renameR hf g t, h]

/-- **the renamed partition map**: entry by entry the transported partition map (same order, same depths, same
    lengths) -/
theorem partitions_renameR (t : Rose) (all : List String) (ps : List Part)
    (hall : leafIndex t = .ok all) (hps : partitions t = .ok ps) :
    partitions (renameR f g t) = .ok (ps.map (mapP f all)) := by
  have hall' := leafIndex_renameR_ok hf g t all hall
  simp only [partitions, hall, QR.bind_ok, QR.pure_eq, QR.ok.injEq] at hps
  subst hps
  simp only [partitions, hall', QR.bind_ok, QR.pure_eq, QR.ok.injEq]
  have h1 := nbranches_renameR hf g all t
  unfold nbranches at h1
  rw [h1]
  have := foldl_insertPart_map hf all ((branches all t).filter (fun b => !trivial b.1)) []
    (by simp) (fun b hb => isSide_of_mem_branches all t b (List.mem_filter.1 hb).1)
  simpa using this

theorem partitions_renameR_err (t : Rose) (e : String) (hps : partitions t = .err e) :
    partitions (renameR f g t) = .err e := by
  rw [partitions_err_iff] at hps ⊢
  exact leafIndex_renameR_err hf g t e hps

end

end SPM
