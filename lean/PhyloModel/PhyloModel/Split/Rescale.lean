import PhyloModel.Split.WeightedCongr
/-! Common rescaling of all branch lengths of a rose tree by an integer factor `k`: the partition map is the
    same with every accumulated length multiplied by `k`; weighted RF scales by `|k|`, the squared branch
    score by `k²` (executable functions, values and errors). -/
namespace SPM
open AR

mutual
def scaleR (k : Int) : Rose → Rose
  | .node i n l d ks => .node i n (l.map (fun x => k * x)) d (scaleL k ks)
def scaleL (k : Int) : List Rose → List Rose
  | [] => []
  | c :: cs => scaleR k c :: scaleL k cs
end

section
variable (k : Int)

theorem scaleR_node (i : Nat) (n : Option String) (l : Option Int) (d : Nat) (ks : List Rose) :
    scaleR k (.node i n l d ks) = .node i n (l.map (fun x => k * x)) d (scaleL k ks) := by rw [scaleR]
theorem scaleL_nil : scaleL k [] = [] := by rw [scaleL]
theorem scaleL_cons (c : Rose) (cs : List Rose) : scaleL k (c :: cs) = scaleR k c :: scaleL k cs := by rw [scaleL]

theorem scaleL_eq_nil (ks : List Rose) : scaleL k ks = [] ↔ ks = [] := by
  cases ks with
  | nil => rw [scaleL_nil]
  | cons c cs => rw [scaleL_cons]; simp

mutual
theorem tipNames_scaleR : ∀ t : Rose, tipNames (scaleR k t) = tipNames t
  | .node i n l d [] => by rw [scaleR_node, scaleL_nil, tipNames_leaf, tipNames_leaf]
  | .node i n l d (c :: cs) => by
    rw [scaleR_node, scaleL_cons, tipNames_cons, tipNames_cons, tipNamesL_cons, tipNamesL_cons,
      tipNames_scaleR c, tipNamesL_scaleL cs]
theorem tipNamesL_scaleL : ∀ ks : List Rose, tipNamesL (scaleL k ks) = tipNamesL ks
  | [] => by rw [scaleL_nil]
  | c :: cs => by rw [scaleL_cons, tipNamesL_cons, tipNamesL_cons, tipNames_scaleR c, tipNamesL_scaleL cs]
end

theorem leafIndex_scaleR (t : Rose) : leafIndex (scaleR k t) = leafIndex t :=
  leafIndex_of_tips_eq t _ (tipNames_scaleR k t).symm

theorem sideOf_scaleR (all : List String) (t : Rose) : sideOf all (scaleR k t) = sideOf all t :=
  sideOf_of_tips_eq all _ _ (tipNames_scaleR k t)

/-- rescaling of a branch entry -/
def scB (k : Int) (b : Side × Nat × Option Int) : Side × Nat × Option Int := (b.1, b.2.1, b.2.2.map (fun x => k * x))

theorem kids_scaleR (t : Rose) : (scaleR k t).kids = scaleL k t.kids := by
  cases t with
  | node i n l d ks => rw [scaleR_node]; rfl
theorem depth_scaleR (t : Rose) : (scaleR k t).depth = t.depth := by
  cases t with
  | node i n l d ks => rw [scaleR_node]; rfl
theorem len_scaleR (t : Rose) : (scaleR k t).len = t.len.map (fun x => k * x) := by
  cases t with
  | node i n l d ks => rw [scaleR_node]; rfl

theorem headB_scaleR (all : List String) (t : Rose) : headB all (scaleR k t) = (headB all t).map (scB k) := by
  unfold headB
  by_cases hk : t.kids = []
  · rw [if_pos hk, if_pos (by rw [kids_scaleR, scaleL_eq_nil]; exact hk)]; rfl
  · rw [if_neg hk, if_neg (by rw [kids_scaleR, scaleL_eq_nil]; exact hk), sideOf_scaleR, depth_scaleR, len_scaleR]
    rfl

mutual
theorem branches_scaleR (all : List String) : ∀ t : Rose, branches all (scaleR k t) = (branches all t).map (scB k)
  | .node i n l d ks => by
    rw [scaleR_node, branches_node, branches_node]
    exact branchesL_scaleL all ks
theorem branchesL_scaleL (all : List String) :
    ∀ ks : List Rose, branchesL all (scaleL k ks) = (branchesL all ks).map (scB k)
  | [] => by rw [scaleL_nil, branchesL_nil]; rfl
  | c :: cs => by
    rw [scaleL_cons, branchesL_cons, branchesL_cons, headB_scaleR, branches_scaleR all c, branchesL_scaleL all cs,
      List.map_append, List.map_append]
end

theorem nbranches_scaleR (all : List String) (t : Rose) :
    nbranches all (scaleR k t) = (nbranches all t).map (scB k) := by
  unfold nbranches
  rw [branches_scaleR, List.filter_map]
  rfl

/-- rescaling of an entry of the partition map -/
def scP (k : Int) (p : Part) : Part := { side := p.side, depth := p.depth, len := p.len.map (fun x => k * x) }

theorem accLen_scale (a b : Option Int) :
    accLen (a.map (fun x => k * x)) (b.map (fun x => k * x)) = (accLen a b).map (fun x => k * x) := by
  cases a <;> cases b <;> simp [accLen, Int.mul_add]

theorem insertPart_scale (m : List Part) (s : Side) (d : Nat) (l : Option Int) :
    insertPart (m.map (scP k)) s d (l.map (fun x => k * x)) = (insertPart m s d l).map (scP k) := by
  have hfind : (m.map (scP k)).find? (fun p => p.side == s) = (m.find? (fun p => p.side == s)).map (scP k) := by
    rw [List.find?_map]; rfl
  have hfilter : (m.map (scP k)).filter (fun q => q.side != s) = (m.filter (fun q => q.side != s)).map (scP k) := by
    rw [List.filter_map]; rfl
  unfold insertPart
  rw [hfind]
  cases hq : m.find? (fun p => p.side == s) with
  | none => simp [scP]
  | some q =>
    simp only [Option.map_some]
    rw [hfilter]
    simp only [List.map_append, List.map_cons, List.map_nil]
    congr 2
    simp only [scP, accLen_scale]

theorem foldl_insertPart_scale :
    ∀ (bs : List (Side × Nat × Option Int)) (m : List Part),
      (bs.map (scB k)).foldl (fun m b => insertPart m b.1 b.2.1 b.2.2) (m.map (scP k)) =
        (bs.foldl (fun m b => insertPart m b.1 b.2.1 b.2.2) m).map (scP k)
  | [], m => rfl
  | b :: bs, m => by
    simp only [List.map_cons, List.foldl_cons, scB]
    rw [insertPart_scale]
    exact foldl_insertPart_scale bs _

/-- the partition map of the rescaled tree: the same entries with every length multiplied by `k` -/
theorem partitions_scaleR (t : Rose) :
    partitions (scaleR k t) =
      (match partitions t with
       | .ok ps => .ok (ps.map (scP k))
       | .err e => .err e
       | .panic => .panic) := by
  unfold partitions
  rw [leafIndex_scaleR]
  cases leafIndex t with
  | err e => rfl
  | panic => rfl
  | ok all =>
    simp only [QR.bind_ok, QR.pure_eq]
    have h1 := nbranches_scaleR k all t
    unfold nbranches at h1
    rw [h1]
    have := foldl_insertPart_scale k ((branches all t).filter (fun b => !trivial b.1)) []
    simpa using this

theorem withLengths_scP (ps : List Part) :
    withLengths (ps.map (scP k)) =
      (match withLengths ps with
       | .ok ms => .ok (C07.scaleM k ms)
       | .err e => .err e
       | .panic => .panic) := by
  have hany : (ps.map (scP k)).any (fun p => p.len.isNone) = ps.any (fun p => p.len.isNone) := by
    rw [List.any_map]
    congr 1
    funext p
    simp only [Function.comp, scP]
    cases p.len <;> rfl
  unfold withLengths
  rw [hany]
  split
  · rfl
  · simp only [QR.ok.injEq, C07.scaleM, List.map_map]
    apply List.map_congr_left
    intro p _
    simp only [Function.comp, scP]
    cases p.len <;> simp

/-- **common rescaling, executable form**: weighted RF scales by `|k|` and the squared branch score by `k²`;
    errors are kept -/
theorem weighted_scaleR (s o : Rose) :
    wrf (scaleR k s) (scaleR k o) =
      (match wrf s o with
       | .ok v => .ok (iabs k * v)
       | .err e => .err e
       | .panic => .panic) ∧
    kf2 (scaleR k s) (scaleR k o) =
      (match kf2 s o with
       | .ok v => .ok (k * k * v)
       | .err e => .err e
       | .panic => .panic) := by
  have hs := partitions_scaleR k s
  have ho := partitions_scaleR k o
  rcases partitions_cases s with ⟨e, _, hps⟩ | ⟨ls, ps, _, hps⟩
  · rw [hps] at hs
    simp [wrf, kf2, hps, hs]
  rw [hps] at hs
  have hws := withLengths_scP k ps
  rcases withLengths_cases ps with hms | hms
  · rw [hms] at hws
    simp [wrf, kf2, hps, hs, hms, hws]
  rw [hms] at hws
  rcases partitions_cases o with ⟨e, _, hpo⟩ | ⟨lo, po, _, hpo⟩
  · rw [hpo] at ho
    simp [wrf, kf2, hps, hs, hms, hws, hpo, ho]
  rw [hpo] at ho
  have hwo := withLengths_scP k po
  rcases withLengths_cases po with hmo | hmo
  · rw [hmo] at hwo
    simp [wrf, kf2, hps, hs, hms, hws, hpo, ho, hmo, hwo]
  rw [hmo] at hwo
  have hr := C07.rescaling k (ps.map gLen) (po.map gLen)
  simp only [wrf, kf2, hps, hs, hms, hws, hpo, ho, hmo, hwo, QR.bind_ok, QR.pure_eq, hr.1, hr.2]
  exact ⟨True.intro, True.intro⟩

theorem scaleL_eq_map : ∀ ks : List Rose, scaleL k ks = ks.map (scaleR k)
  | [] => by rw [scaleL_nil]; rfl
  | c :: cs => by rw [scaleL_cons, scaleL_eq_map cs]; rfl

theorem sides_scP (ps : List Part) : sides (ps.map (scP k)) = sides ps := by
  simp [sides, scP, List.map_map, Function.comp_def]

/-- RF does not read branch lengths -/
theorem rfSame_scaleR (t : Rose) : RFSame t (scaleR k t) := by
  refine ⟨leafIndex_scaleR k t, ?_, ?_, ?_⟩
  · unfold isRootedR; rw [kids_scaleR, scaleL_eq_map, List.length_map]
  · intro all x
    rw [mem_rootSides, mem_rootSides, kids_scaleR, scaleL_eq_map, List.map_map]
    have : (sideOf all ∘ scaleR k) = sideOf all := by
      funext c; exact sideOf_scaleR k all c
    rw [this]
  · intro ps hps
    refine ⟨ps.map (scP k), ?_, ?_⟩
    · rw [partitions_scaleR, hps]
    · intro x; rw [sides_scP]

theorem rf_scaleR (k' : Int) (s o : Rose) : rf (scaleR k s) (scaleR k' o) = rf s o :=
  rf_congr (rfSame_scaleR k s) (rfSame_scaleR k' o)

end

end SPM
