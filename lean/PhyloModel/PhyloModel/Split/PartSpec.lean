import PhyloModel.Props.C07
/-! Order-independent description of the executable partition map `SPM.partitions`:

    * unfolding equations for `tipNames`, `branches` as `flatMap`s over the child list,
    * the leaf index depends on the tip names only up to permutation,
    * the partition map has one entry per distinct non-trivial branch side, whose length is the
      (poisoned) sum of the lengths of ALL branches inducing that side — a permutation-invariant quantity,
    * hence: two trees whose branch lists are permutations of each other report `PartEq` maps. -/
namespace SPM
open AR

/-! ### unfolding equations -/

theorem tipNames_leaf (i : Nat) (n : Option String) (l : Option Int) (d : Nat) :
    tipNames (.node i n l d []) = [n] := by rw [tipNames]
theorem tipNames_cons (i : Nat) (n : Option String) (l : Option Int) (d : Nat) (k : Rose) (ks : List Rose) :
    tipNames (.node i n l d (k :: ks)) = tipNamesL (k :: ks) := by rw [tipNames]
theorem tipNamesL_nil : tipNamesL [] = [] := by rw [tipNamesL]
theorem tipNamesL_cons (k : Rose) (ks : List Rose) : tipNamesL (k :: ks) = tipNames k ++ tipNamesL ks := by
  rw [tipNamesL]

theorem tipNamesL_eq_flatMap : ∀ ks : List Rose, tipNamesL ks = ks.flatMap tipNames
  | [] => by rw [tipNamesL_nil]; rfl
  | k :: ks => by rw [tipNamesL_cons, tipNamesL_eq_flatMap ks, List.flatMap_cons]

theorem tipNames_node_ne (i : Nat) (n : Option String) (l : Option Int) (d : Nat) (ks : List Rose) (h : ks ≠ []) :
    tipNames (.node i n l d ks) = ks.flatMap tipNames := by
  cases ks with
  | nil => exact absurd rfl h
  | cons k ks => rw [tipNames_cons, tipNamesL_eq_flatMap]

/-- the named leaves below a node -/
def names (t : Rose) : List String := (tipNames t).filterMap id

theorem sideOf_eq (all : List String) (t : Rose) : sideOf all t = canon (maskOf all (names t)) := rfl

/-- the branch entry contributed by a child itself (nothing for a tip) -/
def headB (all : List String) (k : Rose) : List (Side × Nat × Option Int) :=
  if k.kids = [] then [] else [(sideOf all k, k.depth, k.len)]

theorem branches_node (all : List String) (i : Nat) (n : Option String) (l : Option Int) (d : Nat) (ks : List Rose) :
    branches all (.node i n l d ks) = branchesL all ks := by rw [branches]
theorem branchesL_nil (all : List String) : branchesL all [] = [] := by rw [branchesL]
theorem branchesL_cons (all : List String) (k : Rose) (ks : List Rose) :
    branchesL all (k :: ks) = headB all k ++ branches all k ++ branchesL all ks := by
  cases k with
  | node i n l d kk =>
    cases kk with
    | nil => rw [branchesL]; simp [headB, Rose.kids]
    | cons k1 kk => rw [branchesL]; simp [headB, Rose.kids, Rose.depth, Rose.len]

theorem branchesL_eq_flatMap (all : List String) :
    ∀ ks : List Rose, branchesL all ks = ks.flatMap (fun k => headB all k ++ branches all k)
  | [] => by rw [branchesL_nil]; rfl
  | k :: ks => by rw [branchesL_cons, branchesL_eq_flatMap all ks, List.flatMap_cons]

theorem branchesL_append (all : List String) (l1 l2 : List Rose) :
    branchesL all (l1 ++ l2) = branchesL all l1 ++ branchesL all l2 := by
  simp only [branchesL_eq_flatMap, List.flatMap_append]

theorem branches_kids (all : List String) (t : Rose) : branches all t = branchesL all t.kids := by
  cases t with
  | node i n l d ks => rw [branches_node]; rfl

theorem find?_congr' {α : Type} (l : List α) (p q : α → Bool) (h : ∀ x ∈ l, p x = q x) : l.find? p = l.find? q := by
  induction l with
  | nil => rfl
  | cons a l ih =>
    simp only [List.find?_cons, h a List.mem_cons_self]
    rw [ih (fun x hx => h x (List.mem_cons_of_mem _ hx))]

/-! ### the leaf index -/

theorem sortS_perm (l : List String) : (sortS l).Perm l := List.mergeSort_perm _ _

theorem sortS_sorted (l : List String) : (sortS l).Pairwise (fun x y => x ≤ y) := by
  have := List.pairwise_mergeSort (le := fun (x y : String) => decide (x ≤ y))
    (fun x y z h1 h2 => by
      simp only [decide_eq_true_eq] at h1 h2 ⊢
      exact String.le_trans h1 h2)
    (fun x y => by
      simp only [Bool.or_eq_true, decide_eq_true_eq]
      exact String.le_total x y) l
  unfold sortS
  simpa using this

theorem sorted_perm_eq (l1 l2 : List String) (h1 : l1.Pairwise (fun x y => x ≤ y))
    (h2 : l2.Pairwise (fun x y => x ≤ y)) (hp : l1.Perm l2) : l1 = l2 :=
  List.Perm.eq_of_pairwise (le := fun (x y : String) => x ≤ y)
    (fun _ _ _ _ hab hba => String.le_antisymm hab hba) h1 h2 hp

/-- sorting forgets the order of its input -/
theorem sortS_congr (l1 l2 : List String) (hp : l1.Perm l2) : sortS l1 = sortS l2 :=
  sorted_perm_eq _ _ (sortS_sorted l1) (sortS_sorted l2)
    (((sortS_perm l1).trans hp).trans (sortS_perm l2).symm)

theorem any_perm {α : Type} (p : α → Bool) (l1 l2 : List α) (hp : l1.Perm l2) : l1.any p = l2.any p := by
  rw [Bool.eq_iff_iff]
  simp only [List.any_eq_true]
  constructor <;> rintro ⟨x, hx, hpx⟩
  · exact ⟨x, hp.mem_iff.1 hx, hpx⟩
  · exact ⟨x, hp.mem_iff.2 hx, hpx⟩

/-- the leaf index (also its error) depends on the tip names only up to their order -/
theorem leafIndex_perm (t t' : Rose) (hp : (tipNames t).Perm (tipNames t')) : leafIndex t' = leafIndex t := by
  unfold leafIndex
  simp only []
  rw [any_perm _ _ _ hp, sortS_congr _ _ (hp.filterMap id)]

theorem eraseDups_length_le {α : Type} [BEq α] : ∀ (n : Nat) (l : List α), l.length ≤ n → l.eraseDups.length ≤ l.length
  | 0, l, h => by
    have : l = [] := List.eq_nil_of_length_eq_zero (by omega)
    subst this; simp
  | n + 1, [], _ => by simp
  | n + 1, a :: as, h => by
    rw [List.eraseDups_cons]
    have h1 := List.length_filter_le (fun b => !b == a) as
    have h2 := eraseDups_length_le n (as.filter (fun b => !b == a)) (by simp at h; omega)
    simp only [List.length_cons]
    omega

theorem nodup_of_eraseDups_length {α : Type} [BEq α] [LawfulBEq α] :
    ∀ (n : Nat) (l : List α), l.length ≤ n → l.eraseDups.length = l.length → l.Nodup
  | 0, l, h, _ => by
    have : l = [] := List.eq_nil_of_length_eq_zero (by omega)
    subst this; simp
  | n + 1, [], _, _ => by simp
  | n + 1, a :: as, h, he => by
    rw [List.eraseDups_cons] at he
    have h1 := List.length_filter_le (fun b => !b == a) as
    have h2 := eraseDups_length_le _ (as.filter (fun b => !b == a)) (Nat.le_refl _)
    simp only [List.length_cons] at he h
    have hfl : (as.filter (fun b => !b == a)).length = as.length := by omega
    have hf : as.filter (fun b => !b == a) = as := List.filter_eq_self.mpr (by
      have := (List.filter_eq_self (p := fun b => !b == a) (l := as))
      apply Classical.byContradiction
      intro hcon
      have hne : as.filter (fun b => !b == a) ≠ as := fun h => hcon (this.mp h)
      have hsub : (as.filter (fun b => !b == a)).Sublist as := List.filter_sublist
      exact hne (hsub.eq_of_length hfl))
    rw [hf] at he
    have ih := nodup_of_eraseDups_length n as (by omega) (by omega)
    rw [List.nodup_cons]
    refine ⟨?_, ih⟩
    intro hmem
    have := (List.filter_eq_self.mp hf) a hmem
    simp at this

theorem eraseDups_of_nodup {α : Type} [BEq α] [LawfulBEq α] : ∀ (n : Nat) (l : List α), l.length ≤ n → l.Nodup → l.eraseDups = l
  | 0, l, h, _ => by
    have : l = [] := List.eq_nil_of_length_eq_zero (by omega)
    subst this; simp
  | n + 1, [], _, _ => by simp
  | n + 1, a :: as, h, hn => by
    rw [List.eraseDups_cons]
    rw [List.nodup_cons] at hn
    have hf : as.filter (fun b => !b == a) = as := List.filter_eq_self.mpr (by
      intro b hb
      have : b ≠ a := fun h => hn.1 (h ▸ hb)
      simpa using this)
    rw [hf, eraseDups_of_nodup n as (by simp at h; omega) hn.2]

/-- what a successful leaf index is: all tips named, the names pairwise different, the index is the
    sorted list of names -/
theorem leafIndex_ok_iff (t : Rose) (all : List String) :
    leafIndex t = .ok all ↔
      ((tipNames t).any Option.isNone = false ∧ (names t).Nodup ∧ all = sortS (names t)) := by
  unfold leafIndex
  simp only [names]
  constructor
  · intro h
    split at h
    · cases h
    · next hany =>
      split at h
      · cases h
      · next hd =>
        simp only [QR.ok.injEq] at h
        refine ⟨by rw [← Bool.not_eq_true]; exact hany, ?_, h.symm⟩
        have hd' : (sortS ((tipNames t).filterMap id)).eraseDups.length = (sortS ((tipNames t).filterMap id)).length := by
          simpa using hd
        exact (sortS_perm _).nodup_iff.1 (nodup_of_eraseDups_length _ _ (Nat.le_refl _) hd')
  · rintro ⟨h1, h2, h3⟩
    have hnd : (sortS ((tipNames t).filterMap id)).Nodup := (sortS_perm _).nodup_iff.2 h2
    rw [if_neg (by simp [h1]), eraseDups_of_nodup _ _ (Nat.le_refl _) hnd]
    simp [h3]

/-- the three outcomes of the leaf index -/
theorem leafIndex_cases (t : Rose) :
    ((tipNames t).any Option.isNone = true ∧ leafIndex t = .err "UnnamedLeaves") ∨
    ((tipNames t).any Option.isNone = false ∧ ¬ (names t).Nodup ∧ leafIndex t = .err "DuplicateLeafNames") ∨
    ((tipNames t).any Option.isNone = false ∧ (names t).Nodup ∧ leafIndex t = .ok (sortS (names t))) := by
  cases hany : (tipNames t).any Option.isNone with
  | true => left; exact ⟨rfl, by unfold leafIndex; simp [hany]⟩
  | false =>
    right
    by_cases hnd : (names t).Nodup
    · right; exact ⟨rfl, hnd, (leafIndex_ok_iff t _).2 ⟨hany, hnd, rfl⟩⟩
    · left
      refine ⟨rfl, hnd, ?_⟩
      unfold leafIndex
      simp only [hany, Bool.false_eq_true, ↓reduceIte]
      rw [if_pos]
      simp only [bne_iff_ne, ne_eq]
      intro hlen
      apply hnd
      exact (sortS_perm _).nodup_iff.1 (nodup_of_eraseDups_length _ _ (Nat.le_refl _) hlen)

/-- a convenient way to establish a concrete leaf index -/
theorem leafIndex_of_sorted (t : Rose) (all : List String) (h1 : (tipNames t).any Option.isNone = false)
    (hp : (names t).Perm all) (hs : all.Pairwise (fun x y => x ≤ y)) (hnd : all.Nodup) : leafIndex t = .ok all := by
  rw [leafIndex_ok_iff]
  refine ⟨h1, hp.nodup_iff.2 hnd, ?_⟩
  rw [sortS_congr _ _ hp]
  exact (List.mergeSort_of_pairwise (by simpa using hs)).symm

theorem leafIndex_nodup (t : Rose) (all : List String) (h : leafIndex t = .ok all) : all.Nodup := by
  obtain ⟨_, h2, h3⟩ := (leafIndex_ok_iff t all).1 h
  rw [h3]; exact (sortS_perm _).nodup_iff.2 h2

theorem mem_leafIndex (t : Rose) (all : List String) (h : leafIndex t = .ok all) (x : String) :
    x ∈ all ↔ x ∈ names t := by
  obtain ⟨_, _, h3⟩ := (leafIndex_ok_iff t all).1 h
  rw [h3]; exact (sortS_perm _).mem_iff

/-! ### the partition map, independent of insertion order -/

/-- poisoned sum: `none` as soon as one summand is missing -/
def sumO : List (Option Int) → Option Int
  | [] => some 0
  | l :: ls => match l, sumO ls with
    | some a, some b => some (a + b)
    | _, _ => none

theorem sumO_perm {l1 l2 : List (Option Int)} (hp : l1.Perm l2) : sumO l1 = sumO l2 := by
  induction hp with
  | nil => rfl
  | cons x _ ih => simp only [sumO, ih]
  | swap x y l =>
    simp only [sumO]
    cases x <;> cases y <;> cases sumO l <;> simp <;> omega
  | trans _ _ ih1 ih2 => exact ih1.trans ih2

theorem sumO_snoc (L : List (Option Int)) (l : Option Int) : sumO (L ++ [l]) = accLen l (sumO L) := by
  induction L with
  | nil => cases l <;> simp [sumO, accLen]
  | cons a L ih =>
    simp only [List.cons_append, sumO, ih]
    cases a <;> cases l <;> cases sumO L <;> simp [accLen] <;> omega

theorem sumO_isSome (L : List (Option Int)) : (sumO L).isSome = L.all Option.isSome := by
  induction L with
  | nil => rfl
  | cons a L ih =>
    simp only [sumO, List.all_cons, ← ih]
    cases a <;> cases sumO L <;> simp

/-- the lengths of all branches inducing side `s` -/
def lensOf (bs : List (Side × Nat × Option Int)) (s : Side) : List (Option Int) :=
  (bs.filter (fun b => b.1 == s)).map (·.2.2)

theorem lensOf_perm {bs bs' : List (Side × Nat × Option Int)} (hp : bs.Perm bs') (s : Side) :
    (lensOf bs s).Perm (lensOf bs' s) := (hp.filter _).map _

theorem lensOf_snoc (bs : List (Side × Nat × Option Int)) (b : Side × Nat × Option Int) (s : Side) :
    lensOf (bs ++ [b]) s = if b.1 = s then lensOf bs s ++ [b.2.2] else lensOf bs s := by
  unfold lensOf
  by_cases h : b.1 = s
  · simp [List.filter_append, h]
  · have : (b.1 == s) = false := by simpa using h
    simp [List.filter_append, h, this]

/-- the loop invariant of `init_partitions` after the branches `bs0` were inserted -/
structure PInv (m : List Part) (bs0 : List (Side × Nat × Option Int)) : Prop where
  nodup : (sides m).Nodup
  mem : ∀ x, x ∈ sides m ↔ x ∈ bs0.map (·.1)
  len : ∀ p ∈ m, p.len = sumO (lensOf bs0 p.side)

theorem PInv.step {m : List Part} {bs0 : List (Side × Nat × Option Int)} (h : PInv m bs0)
    (b : Side × Nat × Option Int) : PInv (insertPart m b.1 b.2.1 b.2.2) (bs0 ++ [b]) := by
  refine ⟨sides_nodup_insertPart m _ _ _ h.nodup, ?_, ?_⟩
  · intro x
    rw [sides_insertPart, h.mem]
    simp only [List.map_append, List.mem_append, List.map_cons, List.map_nil, List.mem_singleton]
  · intro p hp
    rw [lensOf_snoc]
    unfold insertPart at hp
    split at hp
    · next q hq =>
      have hqs : q.side = b.1 := by simpa using List.find?_some hq
      have hqm : q ∈ m := List.mem_of_find?_eq_some hq
      rw [List.mem_append] at hp
      rcases hp with hp | hp
      · rw [List.mem_filter] at hp
        have hne : p.side ≠ b.1 := by simpa using hp.2
        rw [if_neg (fun e => hne e.symm)]
        exact h.len p hp.1
      · simp only [List.mem_singleton] at hp
        subst hp
        simp only [↓reduceIte]
        rw [sumO_snoc, ← hqs, ← h.len q hqm]
    · next hnone =>
      rw [List.mem_append] at hp
      rcases hp with hp | hp
      · have hne : p.side ≠ b.1 := by
          have := List.find?_eq_none.mp hnone p hp
          simpa using this
        rw [if_neg (fun e => hne e.symm)]
        exact h.len p hp
      · simp only [List.mem_singleton] at hp
        subst hp
        simp only [↓reduceIte]
        have hnot : b.1 ∉ bs0.map (·.1) := by
          rw [← h.mem]
          intro hx
          obtain ⟨q, hq, hqs⟩ := List.mem_map.mp hx
          have := List.find?_eq_none.mp hnone q hq
          simp [hqs] at this
        have hnil : lensOf bs0 b.1 = [] := by
          unfold lensOf
          rw [List.map_eq_nil_iff, List.filter_eq_nil_iff]
          intro c hc hcb
          exact hnot (List.mem_map.mpr ⟨c, hc, by simpa using hcb⟩)
        rw [hnil]
        cases b.2.2 <;> simp [sumO]

theorem PInv.foldl : ∀ (bs : List (Side × Nat × Option Int)) (m : List Part) (bs0 : List (Side × Nat × Option Int)),
    PInv m bs0 → PInv (bs.foldl (fun m b => insertPart m b.1 b.2.1 b.2.2) m) (bs0 ++ bs)
  | [], m, bs0, h => by simpa using h
  | b :: bs, m, bs0, h => by
    have := PInv.foldl bs _ _ (h.step b)
    simpa using this

/-- the non-trivial branch entries of a tree, in insertion order -/
def nbranches (all : List String) (t : Rose) : List (Side × Nat × Option Int) :=
  (branches all t).filter (fun b => !trivial b.1)

/-- **order-free specification of `partitions`**: one entry per distinct non-trivial branch side; its length
    is the poisoned sum of the lengths of all branches inducing that side -/
theorem partitions_spec (t : Rose) (all : List String) (ps : List Part)
    (hall : leafIndex t = .ok all) (hps : partitions t = .ok ps) : PInv ps (nbranches all t) := by
  simp only [partitions, hall, QR.bind_ok, QR.pure_eq, QR.ok.injEq] at hps
  subst hps
  have := PInv.foldl (nbranches all t) [] [] ⟨by simp [sides], by simp [sides], by simp⟩
  simpa [nbranches] using this

theorem partitions_ok_of_leafIndex (t : Rose) (all : List String) (hall : leafIndex t = .ok all) :
    ∃ ps, partitions t = .ok ps := by
  simp [partitions, hall]

theorem partitions_err_iff (t : Rose) (e : String) : partitions t = .err e ↔ leafIndex t = .err e := by
  unfold partitions
  cases leafIndex t <;> simp

theorem leafIndex_ok_of_partitions (t : Rose) (ps : List Part) (h : partitions t = .ok ps) :
    ∃ all, leafIndex t = .ok all := by
  unfold partitions at h
  cases hl : leafIndex t with
  | ok all => exact ⟨all, rfl⟩
  | err e => simp [hl] at h
  | panic => simp [hl] at h

/-- two partition maps that agree as sets of sides and carry the same length for every side (depths, which the
    crate takes from whichever inducing branch was inserted last, are not compared) -/
structure PartEq (ps ps' : List Part) : Prop where
  nodup : (sides ps).Nodup
  nodup' : (sides ps').Nodup
  mem : ∀ x, x ∈ sides ps ↔ x ∈ sides ps'
  len : ∀ p ∈ ps, ∀ p' ∈ ps', p.side = p'.side → p.len = p'.len

theorem PartEq.length {ps ps' : List Part} (h : PartEq ps ps') : ps.length = ps'.length := by
  have := ((List.perm_ext_iff_of_nodup h.nodup h.nodup').2 h.mem).length_eq
  simpa [sides] using this

theorem PartEq.perm {ps ps' : List Part} (h : PartEq ps ps') : (sides ps).Perm (sides ps') :=
  (List.perm_ext_iff_of_nodup h.nodup h.nodup').2 h.mem

/-- permuting the inserted branches changes neither the set of sides nor any accumulated length -/
theorem partEq_of_perm {ps ps' : List Part} {bs bs' : List (Side × Nat × Option Int)}
    (h : PInv ps bs) (h' : PInv ps' bs') (hp : bs.Perm bs') : PartEq ps ps' := by
  refine ⟨h.nodup, h'.nodup, ?_, ?_⟩
  · intro x
    rw [h.mem, h'.mem]
    exact (hp.map _).mem_iff
  · intro p hpm p' hpm' hs
    rw [h.len p hpm, h'.len p' hpm', hs]
    exact sumO_perm (lensOf_perm hp _)

end SPM
