import PhyloModel.Split.Reorder
import PhyloModel.Split.Unary
import PhyloModel.Split.RootStyle
/-! The three shape invariances composed: the closure of child reordering, unary-node insertion/removal (and
    changes of decoration) and re-drawing the root (two-child root versus its first child dissolved) — "the same
    unrooted leaf-labelled tree" — keeps the leaf index and the reported set. -/
namespace SPM
open AR

/-- same leaf index (or error) and same reported set -/
def SameReport (t t' : Rose) : Prop :=
  leafIndex t' = leafIndex t ∧
  ∀ ps, partitions t = .ok ps → ∃ ps', partitions t' = .ok ps' ∧ ∀ x, x ∈ sides ps ↔ x ∈ sides ps'

theorem SameReport.refl (t : Rose) : SameReport t t := ⟨rfl, fun ps h => ⟨ps, h, fun _ => Iff.rfl⟩⟩

theorem SameReport.symm {t t' : Rose} (h : SameReport t t') : SameReport t' t := by
  refine ⟨h.1.symm, ?_⟩
  intro ps' hps'
  obtain ⟨all, hall'⟩ := leafIndex_ok_of_partitions t' ps' hps'
  obtain ⟨ps, hps⟩ := partitions_ok_of_leafIndex t all (by rw [← h.1, hall'])
  obtain ⟨ps'', h1, h2⟩ := h.2 ps hps
  rw [hps'] at h1
  cases h1
  exact ⟨ps, hps, fun x => (h2 x).symm⟩

theorem SameReport.trans {a b c : Rose} (h1 : SameReport a b) (h2 : SameReport b c) : SameReport a c := by
  refine ⟨h2.1.trans h1.1, ?_⟩
  intro ps hps
  obtain ⟨ps1, hp1, hm1⟩ := h1.2 ps hps
  obtain ⟨ps2, hp2, hm2⟩ := h2.2 ps1 hp1
  exact ⟨ps2, hp2, fun x => (hm1 x).trans (hm2 x)⟩

theorem SameReport.err {t t' : Rose} (h : SameReport t t') (e : String) (he : partitions t = .err e) :
    partitions t' = .err e := by
  rw [partitions_err_iff] at he ⊢
  rw [h.1, he]

/-- the same unrooted leaf-labelled tree, drawn differently -/
inductive SameUnrooted : Rose → Rose → Prop where
  | reorder {t t'} : ReorderR t t' → SameUnrooted t t'
  | unary {t t'} : UnaryEq t t' → SameUnrooted t t'
  | rootStyle {i n l d ix nx lx dx kx Y i' n' l' d'} : kx ≠ [] →
      SameUnrooted (.node i n l d [.node ix nx lx dx kx, Y]) (.node i' n' l' d' (kx ++ [Y]))
  | symm {t t'} : SameUnrooted t t' → SameUnrooted t' t
  | trans {a b c} : SameUnrooted a b → SameUnrooted b c → SameUnrooted a c

/-- **the reported set is a function of the unrooted leaf-labelled tree** -/
theorem sameUnrooted_report {t t' : Rose} (h : SameUnrooted t t') : SameReport t t' := by
  induction h with
  | reorder h =>
    exact ⟨leafIndex_reorder h, fun ps hps => by
      obtain ⟨ps', h1, h2⟩ := partitions_reorder h ps hps
      exact ⟨ps', h1, h2.mem⟩⟩
  | unary h => exact ⟨leafIndex_unary h, partitions_unary h⟩
  | @rootStyle i n l d ix nx lx dx kx Y i' n' l' d' hkx =>
    exact ⟨leafIndex_root_style i n l d ix nx lx dx kx Y i' n' l' d' hkx,
      partitions_root_style i n l d ix nx lx dx kx Y i' n' l' d' hkx⟩
  | symm _ ih => exact ih.symm
  | trans _ _ ih1 ih2 => exact ih1.trans ih2

/-- ... and so is the RF distance to itself: two drawings of one unrooted tree are at distance zero -/
theorem rf_sameUnrooted_zero {t t' : Rose} (h : SameUnrooted t t') (ps : List Part) (hps : partitions t = .ok ps) :
    rf t t' = .ok 0 := by
  have hr := sameUnrooted_report h
  obtain ⟨all, hall⟩ := leafIndex_ok_of_partitions t ps hps
  obtain ⟨ps', hps', he⟩ := hr.2 ps hps
  exact C06.rf_zero_of_same_splits t t' ps ps' all hps hps' hall (by rw [hr.1, hall]) he

end SPM
