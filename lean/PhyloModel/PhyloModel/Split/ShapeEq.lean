import PhyloModel.Split.ArenaReorder
import PhyloModel.Split.SameUnrooted
/-! `ShapeEq`: the closure of child reordering and unary-node insertion/removal (with decoration changes).  Unlike
    `SameUnrooted` it does not re-draw the root, so it is a congruence: it can be applied inside any child.
    Plus the `Option`-`mapM` and fuel lemmas the arena bridges need. -/
namespace SPM
open AR

inductive ShapeEq : Rose → Rose → Prop where
  | reorder {t t'} : ReorderR t t' → ShapeEq t t'
  | unary {t t'} : UnaryEq t t' → ShapeEq t t'
  | trans {a b c} : ShapeEq a b → ShapeEq b c → ShapeEq a c

theorem ShapeEq.refl (t : Rose) : ShapeEq t t := .reorder .refl

theorem UnaryEq.inside {i : Nat} {n : Option String} {l : Option Int} {d : Nat} {l1 l2 : List Rose} {k k' : Rose}
    (h : UnaryEq k k') : UnaryEq (.node i n l d (l1 ++ k :: l2)) (.node i n l d (l1 ++ k' :: l2)) := by
  induction h with
  | step h => exact .step (.inside h)
  | refl => exact .refl
  | symm _ ih => exact .symm ih
  | trans _ _ ih1 ih2 => exact .trans ih1 ih2

theorem ShapeEq.inside {i : Nat} {n : Option String} {l : Option Int} {d : Nat} {l1 l2 : List Rose} {k k' : Rose}
    (h : ShapeEq k k') : ShapeEq (.node i n l d (l1 ++ k :: l2)) (.node i n l d (l1 ++ k' :: l2)) := by
  induction h with
  | reorder h => exact .reorder (.inside h)
  | unary h => exact .unary h.inside
  | trans _ _ ih1 ih2 => exact .trans ih1 ih2

theorem ShapeEq.kids_pointwise (i : Nat) (n : Option String) (l : Option Int) (d : Nat) :
    ∀ (ks ks' : List Rose), List.Forall₂ ShapeEq ks ks' → ∀ pre post : List Rose,
      ShapeEq (.node i n l d (pre ++ ks ++ post)) (.node i n l d (pre ++ ks' ++ post)) := by
  intro ks ks' h
  induction h with
  | nil => intro pre post; exact ShapeEq.refl _
  | @cons k k' ks ks' hk _ ih =>
    intro pre post
    have h1 : ShapeEq (.node i n l d (pre ++ k :: (ks ++ post))) (.node i n l d (pre ++ k' :: (ks ++ post))) :=
      hk.inside
    have h2 := ih (pre ++ [k']) post
    have e1 : pre ++ (k :: ks) ++ post = pre ++ k :: (ks ++ post) := by simp
    have e2 : pre ++ [k'] ++ ks ++ post = pre ++ k' :: (ks ++ post) := by simp
    have e3 : pre ++ [k'] ++ ks' ++ post = pre ++ (k' :: ks') ++ post := by simp
    rw [e1]
    rw [e2, e3] at h2
    exact .trans h1 h2

/-- change of the decoration of the root node of a subtree (not the name of a tip) -/
theorem ShapeEq.relabel (i : Nat) (n : Option String) (l : Option Int) (d : Nat) (ks : List Rose)
    (i' : Nat) (l' : Option Int) (d' : Nat) : ShapeEq (.node i n l d ks) (.node i' n l' d' ks) :=
  .unary (.step (.relabel (Or.inr rfl)))

theorem ShapeEq.sameUnrooted {t t' : Rose} (h : ShapeEq t t') : SameUnrooted t t' := by
  induction h with
  | reorder h => exact .reorder h
  | unary h => exact .unary h
  | trans _ _ ih1 ih2 => exact .trans ih1 ih2

/-! ### `mapM` in `Option`, continued -/

theorem mapM_append_some {α β : Type} (g : α → Option β) :
    ∀ (l1 l2 : List α) (r : List β), (l1 ++ l2).mapM g = some r ↔
      ∃ r1 r2, l1.mapM g = some r1 ∧ l2.mapM g = some r2 ∧ r = r1 ++ r2
  | [], l2, r => by
    simp only [List.nil_append]
    constructor
    · intro h; exact ⟨[], r, (mapM_nil_some g []).2 rfl, h, rfl⟩
    · rintro ⟨r1, r2, h1, h2, rfl⟩
      rw [mapM_nil_some] at h1; subst h1; exact h2
  | x :: l1, l2, r => by
    rw [List.cons_append, mapM_cons_some]
    constructor
    · rintro ⟨y, ys, h1, h2, rfl⟩
      obtain ⟨r1, r2, h3, h4, rfl⟩ := (mapM_append_some g l1 l2 ys).1 h2
      exact ⟨y :: r1, r2, (mapM_cons_some g x l1 _).2 ⟨y, r1, h1, h3, rfl⟩, h4, rfl⟩
    · rintro ⟨r1, r2, h1, h2, rfl⟩
      obtain ⟨y, ys, h3, h4, rfl⟩ := (mapM_cons_some g x l1 r1).1 h1
      exact ⟨y, ys ++ r2, h3, (mapM_append_some g l1 l2 _).2 ⟨ys, r2, h4, h2, rfl⟩, rfl⟩

theorem mapM_single_some {α β : Type} (g : α → Option β) (x : α) (r : List β) :
    [x].mapM g = some r ↔ ∃ y, g x = some y ∧ r = [y] := by
  rw [mapM_cons_some]
  constructor
  · rintro ⟨y, ys, h1, h2, rfl⟩
    rw [mapM_nil_some] at h2; subst h2; exact ⟨y, h1, rfl⟩
  · rintro ⟨y, h1, rfl⟩; exact ⟨y, [], h1, (mapM_nil_some g []).2 rfl, rfl⟩

theorem forall2_eq {α : Type} : ∀ (l l' : List α), List.Forall₂ Eq l l' → l = l' := by
  intro l l' h
  induction h with
  | nil => rfl
  | cons h _ ih => rw [h, ih]

/-- more fuel does not change a successful abstraction -/
theorem absF_mono (a : Arena) : ∀ (f x : Nat) (t : Rose), absF f a x = some t → absF (f + 1) a x = some t
  | 0, x, t, h => by simp [absF] at h
  | f + 1, x, t, h => by
    rw [absF] at h ⊢
    by_cases hl : isLive a x = true
    · rw [if_pos hl] at h ⊢
      cases hm : (nd a x).children.mapM (fun c => absF f a c) with
      | none => rw [hm] at h; cases h
      | some ks =>
        obtain ⟨ks', h1, h2⟩ := mapM_forall2 (fun c => absF f a c) (fun c => absF (f + 1) a c) Eq _ ks hm
          (fun c _ y hy => ⟨y, absF_mono a f c y hy, rfl⟩)
        rw [← forall2_eq _ _ h2] at h1
        rw [hm] at h
        rw [h1]; exact h
    · rw [if_neg hl] at h; cases h

theorem absF_some_iff (a : Arena) (f x : Nat) (t : Rose) :
    absF (f + 1) a x = some t ↔ (isLive a x = true ∧ ∃ ks, (nd a x).children.mapM (fun c => absF f a c) = some ks ∧
      t = .node x (nd a x).name (nd a x).pedge (nd a x).depth ks) := by
  rw [absF]
  by_cases hl : isLive a x = true
  · rw [if_pos hl]
    cases hm : (nd a x).children.mapM (fun c => absF f a c) with
    | none => simp [hl]
    | some ks =>
      simp only [Option.map_some, Option.some.injEq, hl, true_and]
      constructor
      · intro h; exact ⟨ks, rfl, h.symm⟩
      · rintro ⟨ks', h1, h2⟩; cases h1; exact h2.symm
  · rw [if_neg hl]; simp [hl]

end SPM
