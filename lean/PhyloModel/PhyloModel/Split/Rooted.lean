import PhyloModel.Split.Basic
namespace SP

theorem leaves_cons (n : Option Nat) (k : NT) (ks : List NT) : leaves (.node n (k :: ks)) = leaves k ++ leavesL ks := by
  rw [leaves, leavesL]
theorem leavesL_nil : leavesL [] = [] := by rw [leavesL]
theorem leavesL_cons (k : NT) (ks : List NT) : leavesL (k :: ks) = leaves k ++ leavesL ks := by rw [leavesL]
theorem leaves_pair (n : Option Nat) (X Y : NT) : leaves (.node n [X, Y]) = leaves X ++ leaves Y := by
  rw [leaves_cons, leavesL_cons, leavesL_nil, List.append_nil]

def IsCompl (t : NT) (A B : List Nat) : Prop := ∀ x, x ∈ A ↔ (x ∈ leaves t ∧ x ∉ B)

/-- `A | rest` is a split induced by some branch, whichever side the branch hangs on -/
def Split (t : NT) (A : List Nat) : Prop := IsSide t A ∨ ∃ B, IsSide t B ∧ IsCompl t A B

/-- drawing the same unrooted tree with a two-child root `[X, Y]` or with `X` dissolved into the root -/
theorem rooted_unrooted (n m : Option Nat) (kx : List NT) (Y : NT) (hkx : kx ≠ [])
    (hnd : (leaves (.node n [.node m kx, Y])).Nodup) (A : List Nat) :
    Split (.node n [.node m kx, Y]) A ↔ Split (.node n (kx ++ [Y])) A := by
  have hne2 : kx ++ [Y] ≠ [] := by simp
  -- leaves agree
  have hlX : ∀ x, x ∈ leaves (.node m kx) ↔ ∃ k, k ∈ kx ∧ x ∈ leaves k := leaves_nonempty_kids m kx hkx
  have hl1 : ∀ x, x ∈ leaves (.node n [.node m kx, Y]) ↔ (x ∈ leaves (.node m kx) ∨ x ∈ leaves Y) := by
    intro x; rw [leaves_pair]; simp
  have hl2 : ∀ x, x ∈ leaves (.node n (kx ++ [Y])) ↔ (x ∈ leaves (.node m kx) ∨ x ∈ leaves Y) := by
    intro x
    rw [leaves_nonempty_kids n _ hne2, hlX]
    simp only [List.mem_append, List.mem_singleton]
    constructor
    · rintro ⟨k, (hk | rfl), hx⟩
      · exact Or.inl ⟨k, hk, hx⟩
      · exact Or.inr hx
    · rintro (⟨k, hk, hx⟩ | hx)
      · exact ⟨k, Or.inl hk, hx⟩
      · exact ⟨Y, Or.inr rfl, hx⟩
  have hsame : ∀ x, x ∈ leaves (.node n [.node m kx, Y]) ↔ x ∈ leaves (.node n (kx ++ [Y])) :=
    fun x => (hl1 x).trans (hl2 x).symm
  -- X and Y are disjoint
  have hdisj : ∀ x, x ∈ leaves (.node m kx) → x ∉ leaves Y := by
    have : leaves (.node n [.node m kx, Y]) = leaves (.node m kx) ++ leaves Y := leaves_pair n _ Y
    rw [this, List.nodup_append] at hnd
    intro x hx hy; exact hnd.2.2 x hx x hy rfl
  -- sides
  have hs1 : ∀ B, IsSide (.node n [.node m kx, Y]) B ↔
      (SameSet B (leaves (.node m kx)) ∨ (∃ k, k ∈ kx ∧ Contrib k B) ∨ Contrib Y B) := by
    intro B
    rw [isSide_node]
    simp only [List.mem_cons, List.mem_singleton, List.not_mem_nil, or_false]
    constructor
    · rintro ⟨k, (rfl | rfl), hc⟩
      · rcases hc with hc | hc
        · exact Or.inl hc
        · exact Or.inr (Or.inl ((isSide_node m kx B).1 hc))
      · exact Or.inr (Or.inr hc)
    · rintro (h | h | h)
      · exact ⟨_, Or.inl rfl, Or.inl h⟩
      · exact ⟨_, Or.inl rfl, Or.inr ((isSide_node m kx B).2 h)⟩
      · exact ⟨Y, Or.inr rfl, h⟩
  have hs2 : ∀ B, IsSide (.node n (kx ++ [Y])) B ↔ ((∃ k, k ∈ kx ∧ Contrib k B) ∨ Contrib Y B) := by
    intro B
    rw [isSide_node]
    simp only [List.mem_append, List.mem_singleton]
    constructor
    · rintro ⟨k, (hk | rfl), hc⟩
      · exact Or.inl ⟨k, hk, hc⟩
      · exact Or.inr hc
    · rintro (⟨k, hk, hc⟩ | hc)
      · exact ⟨k, Or.inl hk, hc⟩
      · exact ⟨Y, Or.inr rfl, hc⟩
  have hcompl : ∀ A B, IsCompl (.node n [.node m kx, Y]) A B ↔ IsCompl (.node n (kx ++ [Y])) A B := by
    intro A B; simp only [IsCompl]
    constructor <;> intro h x
    · rw [h x, hsame x]
    · rw [h x, hsame x]
  simp only [Split]
  constructor
  · rintro (h | ⟨B, hB, hc⟩)
    · rcases (hs1 A).1 h with h | h | h
      · -- A = leaves X: it is the complement of leaves Y, and Y is a child in the unrooted drawing
        refine Or.inr ⟨leaves Y, (hs2 _).2 (Or.inr (Or.inl (fun _ => Iff.rfl))), ?_⟩
        intro x
        rw [h x, hl2 x]
        constructor
        · intro hx; exact ⟨Or.inl hx, hdisj x hx⟩
        · rintro ⟨hx | hx, hn⟩
          · exact hx
          · exact absurd hx hn
      · exact Or.inl ((hs2 A).2 (Or.inl h))
      · exact Or.inl ((hs2 A).2 (Or.inr h))
    · rcases (hs1 B).1 hB with h | h | h
      · -- B = leaves X, so A = leaves Y (as a set): a side of the unrooted drawing
        refine Or.inl ((hs2 A).2 (Or.inr (Or.inl ?_)))
        intro x
        rw [hc x, hl1 x]
        constructor
        · rintro ⟨hx | hx, hn⟩
          · exact absurd ((h x).2 hx) hn
          · exact hx
        · intro hx
          exact ⟨Or.inr hx, fun hb => hdisj x ((h x).1 hb) hx⟩
      · exact Or.inr ⟨B, (hs2 B).2 (Or.inl h), (hcompl A B).1 hc⟩
      · exact Or.inr ⟨B, (hs2 B).2 (Or.inr h), (hcompl A B).1 hc⟩
  · rintro (h | ⟨B, hB, hc⟩)
    · rcases (hs2 A).1 h with h | h
      · exact Or.inl ((hs1 A).2 (Or.inr (Or.inl h)))
      · exact Or.inl ((hs1 A).2 (Or.inr (Or.inr h)))
    · rcases (hs2 B).1 hB with h | h
      · exact Or.inr ⟨B, (hs1 B).2 (Or.inr (Or.inl h)), (hcompl A B).2 hc⟩
      · exact Or.inr ⟨B, (hs1 B).2 (Or.inr (Or.inr h)), (hcompl A B).2 hc⟩

end SP
