import PhyloModel.Split.Reorder
/-! Distances between a tree and a child-reordering of itself: RF = 0, weighted RF = 0, squared branch score = 0
    (when all lengths are present; otherwise the same missing-length error as the tree against itself). -/
namespace SPM
open AR

def gLen (p : Part) : Side × Nat × Int := (p.side, p.depth, p.len.getD 0)

theorem withLengths_ok_iff (ps : List Part) (ms : PM) :
    withLengths ps = .ok ms ↔ ((∀ p ∈ ps, p.len.isSome) ∧ ms = ps.map gLen) := by
  unfold withLengths
  constructor
  · intro h
    split at h
    · cases h
    · next hany =>
      simp only [QR.ok.injEq] at h
      refine ⟨?_, h.symm⟩
      intro p hp
      have : ¬ (ps.any (fun p => p.len.isNone) = true) := hany
      simp only [List.any_eq_true, not_exists, not_and] at this
      have := this p hp
      cases hl : p.len <;> simp_all
  · rintro ⟨h1, h2⟩
    have : ps.any (fun p => p.len.isNone) = false := by
      rw [Bool.eq_false_iff]
      simp only [ne_eq, List.any_eq_true, not_exists, not_and]
      intro p hp
      have := h1 p hp
      cases hl : p.len <;> simp_all
    rw [if_neg (by simp [this]), h2]
    rfl

theorem withLengths_cases (ps : List Part) :
    withLengths ps = .err "MissingBranchLengths" ∨ withLengths ps = .ok (ps.map gLen) := by
  unfold withLengths
  split
  · left; rfl
  · right; rfl

theorem lookup_map_gLen (ps : List Part) (s : Side) :
    lookup (ps.map gLen) s = (ps.find? (fun q => q.side == s)).map (fun q => (q.depth, q.len.getD 0)) := by
  unfold lookup
  rw [List.find?_map]
  cases h : ps.find? ((fun p => p.1 == s) ∘ gLen) with
  | none =>
    have : ps.find? (fun q => q.side == s) = none := h
    rw [this]; rfl
  | some q =>
    have : ps.find? (fun q => q.side == s) = some q := h
    rw [this]; rfl

theorem find_side_of_mem (ps : List Part) (s : Side) (h : s ∈ sides ps) :
    ∃ q, ps.find? (fun q => q.side == s) = some q ∧ q ∈ ps ∧ q.side = s := by
  cases hf : ps.find? (fun q => q.side == s) with
  | none =>
    obtain ⟨p, hp, hps⟩ := List.mem_map.mp h
    have := List.find?_eq_none.mp hf p hp
    simp [hps] at this
  | some q =>
    exact ⟨q, rfl, List.mem_of_find?_eq_some hf, by simpa using List.find?_some hf⟩

theorem sum_map_eq_zero {α : Type} (l : List α) (g : α → Int) (h : ∀ x ∈ l, g x = 0) : (l.map g).sum = 0 := by
  induction l with
  | nil => rfl
  | cons a l ih =>
    simp only [List.map_cons, List.sum_cons]
    rw [h a (List.mem_cons_self), ih (fun x hx => h x (List.mem_cons_of_mem _ hx))]
    rfl

/-- the weighted sum vanishes between two maps with the same keys and the same length under every key -/
theorem sumOver_zero (f : Int → Int) (hf : f 0 = 0) (ms mo : PM)
    (hA : ∀ p ∈ ms, ∃ d, lookup mo p.1 = some (d, p.2.2))
    (hB : ∀ p ∈ mo, (lookup ms p.1).isSome) : sumOver f ms mo = 0 := by
  have h2 : mo.filter (fun p => (lookup ms p.1).isNone) = [] := by
    rw [List.filter_eq_nil_iff]
    intro p hp
    have := hB p hp
    cases hl : lookup ms p.1 <;> simp_all
  unfold sumOver
  rw [h2, sum_map_eq_zero ms _ (by
    intro p hp
    obtain ⟨d, hd⟩ := hA p hp
    simp only [hd]
    simp [hf])]
  rfl

/-- all lengths present is a property of the `PartEq` class -/
theorem PartEq.lens_present {ps ps' : List Part} (h : PartEq ps ps') (hl : ∀ p ∈ ps, p.len.isSome) :
    ∀ p' ∈ ps', p'.len.isSome := by
  intro p' hp'
  have hm : p'.side ∈ sides ps := (h.mem _).2 (List.mem_map.mpr ⟨p', hp', rfl⟩)
  obtain ⟨p, hp, hps⟩ := List.mem_map.mp hm
  rw [← h.len p hp p' hp' hps]
  exact hl p hp

theorem PartEq.symm {ps ps' : List Part} (h : PartEq ps ps') : PartEq ps' ps :=
  ⟨h.nodup', h.nodup, fun x => (h.mem x).symm, fun p hp p' hp' hs => (h.len p' hp' p hp hs.symm).symm⟩

theorem PartEq.lookup_some {ps ps' : List Part} (h : PartEq ps ps') :
    ∀ p ∈ ps.map gLen, ∃ d, lookup (ps'.map gLen) p.1 = some (d, p.2.2) := by
  intro p hp
  obtain ⟨q, hq, rfl⟩ := List.mem_map.mp hp
  have hm : q.side ∈ sides ps' := (h.mem _).1 (List.mem_map.mpr ⟨q, hq, rfl⟩)
  obtain ⟨q', hf, hq', hs⟩ := find_side_of_mem ps' q.side hm
  refine ⟨q'.depth, ?_⟩
  rw [lookup_map_gLen]
  simp only [gLen]
  rw [hf, h.len q hq q' hq' hs.symm]
  rfl

/-- both weighted distances vanish between `PartEq` maps with all lengths present -/
theorem PartEq.sumOver_zero {ps ps' : List Part} (h : PartEq ps ps') (f : Int → Int) (hf : f 0 = 0) :
    sumOver f (ps.map gLen) (ps'.map gLen) = 0 := by
  apply SPM.sumOver_zero f hf
  · exact h.lookup_some
  · intro p hp
    obtain ⟨d, hd⟩ := h.symm.lookup_some p hp
    rw [hd]; rfl

theorem PartEq.wl_ok {ps ps' : List Part} (h : PartEq ps ps') (ms : PM) (hms : withLengths ps = .ok ms) :
    withLengths ps' = .ok (ps'.map gLen) := by
  obtain ⟨h1, _⟩ := (withLengths_ok_iff ps ms).1 hms
  exact (withLengths_ok_iff ps' _).2 ⟨h.lens_present h1, rfl⟩

theorem PartEq.wl_err {ps ps' : List Part} (h : PartEq ps ps')
    (hms : withLengths ps = .err "MissingBranchLengths") : withLengths ps' = .err "MissingBranchLengths" := by
  rcases withLengths_cases ps' with h' | h'
  · exact h'
  · have := h.symm.wl_ok _ h'
    rw [hms] at this
    cases this

/-! ### a tree against a child-reordering of itself -/

/-- RF between a tree and any child-reordering of itself is zero (no root correction either), in both
    argument orders -/
theorem rf_reorder_zero {t t' : Rose} (h : ReorderR t t') (ps : List Part) (hps : partitions t = .ok ps) :
    rf t t' = .ok 0 ∧ rf t' t = .ok 0 := by
  obtain ⟨all, hall⟩ := leafIndex_ok_of_partitions t ps hps
  have hall' : leafIndex t' = .ok all := by rw [leafIndex_reorder h, hall]
  obtain ⟨ps', hps', he⟩ := partitions_reorder h ps hps
  exact ⟨C06.rf_zero_of_same_splits t t' ps ps' all hps hps' hall hall' he.mem,
    C06.rf_zero_of_same_splits t' t ps' ps all hps' hps hall' hall he.symm.mem⟩

/-- ... and when the tree has no bipartition set (unnamed or duplicate leaves) the comparison fails with the
    same error as the tree's own partition query -/
theorem rf_reorder_err {t t' : Rose} (h : ReorderR t t') (e : String) (hps : partitions t = .err e) :
    rf t t' = .err e ∧ rf t' t = .err e := by
  have hps' := partitions_reorder_err h e hps
  simp [rf, hps, hps']

/-- the normalised distance: numerator 0, denominator twice the number of splits -/
theorem rfNorm_reorder_zero {t t' : Rose} (h : ReorderR t t') (ps : List Part) (hps : partitions t = .ok ps) :
    rfNorm t t' = .ok (0, ps.length + ps.length) := by
  obtain ⟨ps', hps', he⟩ := partitions_reorder h ps hps
  simp [rfNorm, (rf_reorder_zero h ps hps).1, hps, hps', he.length]

/-- weighted RF, squared branch score and the combined report between a tree and any child-reordering of
    itself, all lengths present: all zero -/
theorem weighted_reorder_zero {t t' : Rose} (h : ReorderR t t') (ps : List Part) (ms : PM)
    (hps : partitions t = .ok ps) (hms : withLengths ps = .ok ms) :
    wrf t t' = .ok 0 ∧ kf2 t t' = .ok 0 ∧ wrf t' t = .ok 0 ∧ kf2 t' t = .ok 0 ∧
    compareTopologies t t' = .ok (0, ps.length + ps.length, 0, 0) := by
  obtain ⟨all, hall⟩ := leafIndex_ok_of_partitions t ps hps
  have hall' : leafIndex t' = .ok all := by rw [leafIndex_reorder h, hall]
  obtain ⟨ps', hps', he⟩ := partitions_reorder h ps hps
  have hms' := he.wl_ok ms hms
  have hms0 : withLengths ps = .ok (ps.map gLen) := by
    rw [hms, ((withLengths_ok_iff ps ms).1 hms).2]
  have z1 := he.sumOver_zero iabs (by decide)
  have z2 := he.sumOver_zero (fun x => x * x) (by decide)
  have z3 := he.symm.sumOver_zero iabs (by decide)
  have z4 := he.symm.sumOver_zero (fun x => x * x) (by decide)
  have hrf := (rf_reorder_zero h ps hps).1
  have hrep := C06.rf_equals_report t t' ps ps' all all _ _ hps hps' hall hall' hms0 hms'
    (withLengths_keys ps _ hms0) (withLengths_keys ps' _ hms')
  refine ⟨by simp [wrf, hps, hps', hms0, hms', z1], by simp [kf2, hps, hps', hms0, hms', z2],
    by simp [wrf, hps, hps', hms0, hms', z3], by simp [kf2, hps, hps', hms0, hms', z4], ?_⟩
  rw [hrf] at hrep
  simp only [compareTopologies, hps, hps', hms0, hms', hall, hall', QR.bind_ok, QR.pure_eq, z1, z2,
    bne_self_eq_false, Bool.false_eq_true, ↓reduceIte, List.length_map] at hrep ⊢
  simp only [QR.ok.injEq] at hrep
  rw [hrep, he.length]

/-- a missing length on a branch inducing a non-trivial split: the same missing-length error in either order -/
theorem weighted_reorder_missing {t t' : Rose} (h : ReorderR t t') (ps : List Part)
    (hps : partitions t = .ok ps) (hms : withLengths ps = .err "MissingBranchLengths") :
    wrf t t' = .err "MissingBranchLengths" ∧ kf2 t t' = .err "MissingBranchLengths" ∧
    wrf t' t = .err "MissingBranchLengths" ∧ kf2 t' t = .err "MissingBranchLengths" := by
  obtain ⟨ps', hps', he⟩ := partitions_reorder h ps hps
  have hms' := he.wl_err hms
  simp [wrf, kf2, hps, hps', hms, hms']

end SPM
