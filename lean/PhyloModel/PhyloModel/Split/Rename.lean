import PhyloModel.Split.Unary
/-! Consistent renaming of the taxa by an injective `f : String → String` on the executable rose trees.
    The leaf index is re-sorted, so every bit position may change; the stored sides are transported by a map
    `phi` that is injective on the sides that can occur, and the partition map of the renamed tree is the
    image of the partition map of the tree, entry by entry. -/
namespace SPM
open AR

/-! ### masks as name sets -/

theorem maskOf_eq_iff (all A B : List String) : maskOf all A = maskOf all B ↔ ∀ x ∈ all, (x ∈ A ↔ x ∈ B) := by
  constructor
  · intro h x hx
    unfold maskOf at h
    have := List.map_inj_left.1 h x hx
    simp only [List.contains_eq_mem] at this
    constructor
    · intro ha
      have h1 : decide (x ∈ A) = true := by simpa using ha
      rw [this] at h1; simpa using h1
    · intro hb
      have h1 : decide (x ∈ B) = true := by simpa using hb
      rw [← this] at h1; simpa using h1
  · exact maskOf_congr all A B

theorem maskOf_eq_flip_iff (all A B : List String) :
    maskOf all A = flip (maskOf all B) ↔ ∀ x ∈ all, (x ∈ A ↔ x ∉ B) := by
  constructor
  · intro h x hx
    unfold maskOf flip at h
    rw [List.map_map] at h
    have := List.map_inj_left.1 h x hx
    simp only [List.contains_eq_mem, Function.comp] at this
    by_cases ha : x ∈ A <;> by_cases hb : x ∈ B <;> simp_all
  · exact maskOf_compl all A B

theorem canon_inj (x y : Side) (h : canon x = canon y) : x = y ∨ x = flip y := by
  rcases canon_eq x with hx | hx <;> rcases canon_eq y with hy | hy
  · left; rw [← hx, ← hy, h]
  · right; rw [← hx, ← hy, h]
  · right; rw [← flip_flip x, ← hx, h, hy]
  · left; rw [← flip_flip x, ← flip_flip y, ← hx, ← hy, h]

/-- two name lists have the same stored side iff, relative to the leaf index, they are the same set or
    complementary sets -/
theorem canon_mask_eq_iff (all A B : List String) :
    canon (maskOf all A) = canon (maskOf all B) ↔
      ((∀ x ∈ all, (x ∈ A ↔ x ∈ B)) ∨ (∀ x ∈ all, (x ∈ A ↔ x ∉ B))) := by
  constructor
  · intro h
    rcases canon_inj _ _ h with h | h
    · left; exact (maskOf_eq_iff all A B).1 h
    · right; exact (maskOf_eq_flip_iff all A B).1 h
  · rintro (h | h)
    · rw [maskOf_congr all A B h]
    · exact canon_mask_compl all A B h

theorem namesOf_map (all : List String) (p : String → Bool) : namesOf all (all.map p) = all.filter p := by
  unfold namesOf
  induction all with
  | nil => rfl
  | cons a all ih =>
    simp only [List.map_cons, List.zip_cons_cons, List.filterMap_cons, List.filter_cons]
    cases h : p a <;> simp [ih]

theorem namesOf_maskOf (all A : List String) : namesOf all (maskOf all A) = all.filter (fun x => A.contains x) :=
  namesOf_map all _

theorem namesOf_flip_maskOf (all A : List String) :
    namesOf all (flip (maskOf all A)) = all.filter (fun x => !A.contains x) := by
  have : flip (maskOf all A) = all.map (fun x => !A.contains x) := by
    unfold flip maskOf; rw [List.map_map]; rfl
  rw [this]; exact namesOf_map all _

/-- reading a stored side back as names gives the name set or its complement (within the leaf index) -/
theorem namesOf_canon_mask (all A : List String) :
    (∀ z, z ∈ namesOf all (canon (maskOf all A)) ↔ (z ∈ all ∧ z ∈ A)) ∨
    (∀ z, z ∈ namesOf all (canon (maskOf all A)) ↔ (z ∈ all ∧ z ∉ A)) := by
  rcases canon_eq (maskOf all A) with h | h
  · left; intro z; rw [h, namesOf_maskOf]; simp
  · right; intro z; rw [h, namesOf_flip_maskOf]; simp

/-! ### transport of sides -/

/-- the renamed leaf index -/
def sigma (f : String → String) (all : List String) : List String := sortS (all.map f)

theorem mem_sigma (f : String → String) (all : List String) (y : String) :
    y ∈ sigma f all ↔ ∃ x ∈ all, f x = y := by
  unfold sigma
  rw [(sortS_perm _).mem_iff, List.mem_map]

/-- transport of a stored side along the renaming: read the side back as names, rename, store again -/
def phi (f : String → String) (all : List String) (m : Side) : Side :=
  canon (maskOf (sigma f all) ((namesOf all m).map f))

theorem mem_map_inj {f : String → String} (hf : Function.Injective f) (A : List String) (x : String) :
    f x ∈ A.map f ↔ x ∈ A := by
  rw [List.mem_map]
  constructor
  · rintro ⟨a, ha, he⟩; rw [← hf he]; exact ha
  · intro h; exact ⟨x, h, rfl⟩

/-- the transported side of the split `{A, rest}` is the stored side of `{f A, rest}` -/
theorem phi_canon_mask {f : String → String} (hf : Function.Injective f) (all A : List String) :
    phi f all (canon (maskOf all A)) = canon (maskOf (sigma f all) (A.map f)) := by
  unfold phi
  rw [canon_mask_eq_iff]
  rcases namesOf_canon_mask all A with h | h
  · left
    intro y hy
    obtain ⟨x, hx, rfl⟩ := (mem_sigma f all _).1 hy
    rw [mem_map_inj hf, mem_map_inj hf, h x]
    exact ⟨fun h => h.2, fun h => ⟨hx, h⟩⟩
  · right
    intro y hy
    obtain ⟨x, hx, rfl⟩ := (mem_sigma f all _).1 hy
    rw [mem_map_inj hf, mem_map_inj hf, h x]
    exact ⟨fun h => h.2, fun h => ⟨hx, h⟩⟩

/-- the sides that can occur: stored sides of name lists -/
def IsSide (all : List String) (m : Side) : Prop := ∃ A, m = canon (maskOf all A)

theorem isSide_sideOf (all : List String) (t : Rose) : IsSide all (sideOf all t) := ⟨names t, rfl⟩

/-- renaming preserves equality of splits in both directions -/
theorem canon_mask_rename_iff {f : String → String} (hf : Function.Injective f) (all A B : List String) :
    canon (maskOf (sigma f all) (A.map f)) = canon (maskOf (sigma f all) (B.map f)) ↔
      canon (maskOf all A) = canon (maskOf all B) := by
  rw [canon_mask_eq_iff, canon_mask_eq_iff]
  constructor
  · rintro (h | h)
    · left; intro x hx
      have := h (f x) ((mem_sigma f all _).2 ⟨x, hx, rfl⟩)
      rwa [mem_map_inj hf, mem_map_inj hf] at this
    · right; intro x hx
      have := h (f x) ((mem_sigma f all _).2 ⟨x, hx, rfl⟩)
      rwa [mem_map_inj hf, mem_map_inj hf] at this
  · rintro (h | h)
    · left; intro y hy
      obtain ⟨x, hx, rfl⟩ := (mem_sigma f all _).1 hy
      rw [mem_map_inj hf, mem_map_inj hf]; exact h x hx
    · right; intro y hy
      obtain ⟨x, hx, rfl⟩ := (mem_sigma f all _).1 hy
      rw [mem_map_inj hf, mem_map_inj hf]; exact h x hx

/-- the transport is injective on the sides that can occur -/
theorem phi_inj {f : String → String} (hf : Function.Injective f) (all : List String) (m m' : Side)
    (hm : IsSide all m) (hm' : IsSide all m') : phi f all m = phi f all m' ↔ m = m' := by
  obtain ⟨A, rfl⟩ := hm
  obtain ⟨B, rfl⟩ := hm'
  rw [phi_canon_mask hf, phi_canon_mask hf, canon_mask_rename_iff hf]

theorem phi_beq {f : String → String} (hf : Function.Injective f) (all : List String) (m m' : Side)
    (hm : IsSide all m) (hm' : IsSide all m') : (phi f all m == phi f all m') = (m == m') := by
  rw [Bool.eq_iff_iff]
  simp only [beq_iff_eq]
  exact phi_inj hf all m m' hm hm'

theorem ones_eq_countP (all A : List String) : ones (maskOf all A) = all.countP (fun x => A.contains x) := by
  unfold ones maskOf
  induction all with
  | nil => rfl
  | cons a all ih =>
    simp only [List.map_cons, List.countP_cons, List.count_cons, ih]
    cases A.contains a <;> simp

theorem ones_rename {f : String → String} (hf : Function.Injective f) (all A : List String) :
    ones (maskOf (sigma f all) (A.map f)) = ones (maskOf all A) := by
  rw [ones_eq_countP, ones_eq_countP]
  unfold sigma
  rw [(sortS_perm _).countP_eq, List.countP_map]
  apply List.countP_congr
  intro x _
  simp only [Function.comp, List.contains_eq_mem, decide_eq_true_eq]
  rw [mem_map_inj hf]

theorem length_sigma (f : String → String) (all : List String) : (sigma f all).length = all.length := by
  unfold sigma
  rw [(sortS_perm _).length_eq, List.length_map]

/-- a split is trivial iff its renamed split is -/
theorem trivial_phi {f : String → String} (hf : Function.Injective f) (all : List String) (m : Side)
    (hm : IsSide all m) : trivial (phi f all m) = trivial m := by
  obtain ⟨A, rfl⟩ := hm
  rw [phi_canon_mask hf, trivial_canon, trivial_canon]
  unfold trivial
  rw [ones_rename hf]
  simp [maskOf, length_sigma]

end SPM
