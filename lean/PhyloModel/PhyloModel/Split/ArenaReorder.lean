import PhyloModel.Split.WeightedCongr
import PhyloModel.Arena.ResolvePost
/-! Bridge from the arena to the rose-level reordering relation: two arenas that differ only in the order
    inside child lists (`AR.PermKids`, the proved frame of `ladderize`) abstract to rose trees related by
    `SPM.ReorderR`.  Hence `ladderize` changes neither the leaf index nor the reported bipartition set, and the
    ladderized tree is at RF / weighted RF / branch-score distance zero from the original. -/
namespace SPM
open AR

/-! ### `mapM` in `Option` -/

theorem mapM_cons_some {α β : Type} (g : α → Option β) (x : α) (l : List α) (r : List β) :
    (x :: l).mapM g = some r ↔ ∃ y ys, g x = some y ∧ l.mapM g = some ys ∧ r = y :: ys := by
  simp only [List.mapM_cons]
  cases hx : g x with
  | none => simp
  | some y =>
    cases hl : l.mapM g with
    | none => simp
    | some ys =>
      simp only [Option.bind_eq_bind, Option.bind_some, Option.pure_def, Option.some.injEq]
      constructor
      · intro h; exact ⟨y, ys, rfl, rfl, h.symm⟩
      · rintro ⟨y', ys', h1, h2, h3⟩; rw [h3, h1, h2]

theorem mapM_nil_some {α β : Type} (g : α → Option β) (r : List β) : ([] : List α).mapM g = some r ↔ r = [] := by
  simp only [List.mapM_nil, Option.pure_def, Option.some.injEq]
  exact eq_comm

theorem mapM_forall2 {α β : Type} (g g' : α → Option β) (R : β → β → Prop) :
    ∀ (l : List α) (r : List β), l.mapM g = some r →
      (∀ x ∈ l, ∀ y, g x = some y → ∃ y', g' x = some y' ∧ R y y') →
      ∃ r', l.mapM g' = some r' ∧ List.Forall₂ R r r'
  | [], r, h, _ => by
    rw [mapM_nil_some] at h; subst h
    exact ⟨[], (mapM_nil_some g' []).2 rfl, .nil⟩
  | x :: l, r, h, hp => by
    obtain ⟨y, ys, h1, h2, rfl⟩ := (mapM_cons_some g x l r).1 h
    obtain ⟨y', hy', hR⟩ := hp x List.mem_cons_self y h1
    obtain ⟨ys', hys', hF⟩ := mapM_forall2 g g' R l ys h2 (fun z hz => hp z (List.mem_cons_of_mem _ hz))
    exact ⟨y' :: ys', (mapM_cons_some g' x l _).2 ⟨y', ys', hy', hys', rfl⟩, .cons hR hF⟩

theorem mapM_perm {α β : Type} (g : α → Option β) {l l' : List α} (hp : l.Perm l') :
    ∀ r, l.mapM g = some r → ∃ r', l'.mapM g = some r' ∧ r.Perm r' := by
  induction hp with
  | nil => intro r h; exact ⟨r, h, List.Perm.refl _⟩
  | @cons x l l' _ ih =>
    intro r h
    obtain ⟨y, ys, h1, h2, rfl⟩ := (mapM_cons_some g x l r).1 h
    obtain ⟨ys', h3, h4⟩ := ih ys h2
    exact ⟨y :: ys', (mapM_cons_some g x l' _).2 ⟨y, ys', h1, h3, rfl⟩, h4.cons y⟩
  | swap x y l =>
    intro r h
    obtain ⟨b, r1, h1, h2, rfl⟩ := (mapM_cons_some g y (x :: l) r).1 h
    obtain ⟨a, rs, h3, h4, rfl⟩ := (mapM_cons_some g x l r1).1 h2
    refine ⟨a :: b :: rs, ?_, List.Perm.swap a b rs⟩
    exact (mapM_cons_some g x (y :: l) _).2 ⟨a, b :: rs, h3, (mapM_cons_some g y l _).2 ⟨b, rs, h1, h4, rfl⟩, rfl⟩
  | trans _ _ ih1 ih2 =>
    intro r h
    obtain ⟨r1, h1, p1⟩ := ih1 r h
    obtain ⟨r2, h2, p2⟩ := ih2 r1 h1
    exact ⟨r2, h2, p1.trans p2⟩

/-! ### reordering inside every child -/

theorem ReorderR.kids_pointwise (i : Nat) (n : Option String) (l : Option Int) (d : Nat) :
    ∀ (ks ks' : List Rose), List.Forall₂ ReorderR ks ks' → ∀ pre : List Rose,
      ReorderR (.node i n l d (pre ++ ks)) (.node i n l d (pre ++ ks')) := by
  intro ks ks' h
  induction h with
  | nil => intro pre; exact .refl
  | @cons k k' ks ks' hk _ ih =>
    intro pre
    refine .trans (.inside (l1 := pre) (l2 := ks) hk) ?_
    have := ih (pre ++ [k'])
    simpa [List.append_assoc] using this

/-! ### the abstraction of two arenas that differ only in child order -/

theorem isLive_permKids {a b : Arena} (h : PermKids a b) (x : Nat) : isLive b x = isLive a x := by
  obtain ⟨_, _, _, _, p4, _⟩ := h.2 x
  unfold isLive
  rw [h.1, p4]

theorem absF_permKids {a b : Arena} (h : PermKids a b) :
    ∀ (f x : Nat) (t : Rose), absF f a x = some t → ∃ t', absF f b x = some t' ∧ ReorderR t t'
  | 0, x, t, ht => by simp [absF] at ht
  | f + 1, x, t, ht => by
    obtain ⟨p0, _, p2, _, _, p5, p6, _⟩ := h.2 x
    unfold absF at ht ⊢
    rw [isLive_permKids h x]
    by_cases hl : isLive a x = true
    · rw [if_pos hl] at ht ⊢
      cases hm : (nd a x).children.mapM (fun c => absF f a c) with
      | none => rw [hm] at ht; cases ht
      | some ks =>
        rw [hm] at ht
        simp only [Option.map_some, Option.some.injEq] at ht
        subst ht
        obtain ⟨ks', hk', hF⟩ := mapM_forall2 (fun c => absF f a c) (fun c => absF f b c) ReorderR _ ks hm
          (fun c _ y hy => absF_permKids h f c y hy)
        obtain ⟨ks'', hk'', hP⟩ := mapM_perm (fun c => absF f b c) p0.symm ks' hk'
        refine ⟨.node x (nd b x).name (nd b x).pedge (nd b x).depth ks'', by rw [hk'']; rfl, ?_⟩
        rw [p2, p5, p6]
        exact .trans (by simpa using ReorderR.kids_pointwise x _ _ _ ks ks' hF []) (.here hP)
    · rw [if_neg hl] at ht; cases ht

theorem getRoot_permKids {a b : Arena} (h : PermKids a b) : getRoot b = getRoot a := by
  unfold getRoot
  rw [h.1]
  apply find?_congr'
  intro i _
  obtain ⟨_, p1, _⟩ := h.2 i
  rw [isLive_permKids h i, p1]

/-- **arena bridge**: arenas that differ only in the order inside child lists abstract to reorderings -/
theorem absRoot_permKids {a b : Arena} (h : PermKids a b) (t : Rose) (ht : absRoot a = .ok t) :
    ∃ t', absRoot b = .ok t' ∧ ReorderR t t' := by
  unfold absRoot root at ht ⊢
  rw [getRoot_permKids h]
  cases hr : getRoot a with
  | none => rw [hr] at ht; simp [QR.ofOpt] at ht
  | some r =>
    rw [hr] at ht
    simp only [QR.ofOpt, QR.bind_ok] at ht ⊢
    have hfuel : fuelOf b = fuelOf a := by unfold fuelOf; rw [h.1]
    rw [hfuel]
    cases hf : absF (fuelOf a) a r with
    | none => rw [hf] at ht; cases ht
    | some t0 =>
      rw [hf] at ht
      simp only [QR.ok.injEq] at ht
      subst ht
      obtain ⟨t', h1, h2⟩ := absF_permKids h (fuelOf a) r t0 hf
      exact ⟨t', by rw [h1], h2⟩

/-- **`ladderize` is a child reordering of the abstracted tree** -/
theorem ladderize_reorder (a : Arena) (t : Rose) (ht : absRoot a = .ok t) :
    ∃ t', absRoot (ladderize a).1 = .ok t' ∧ ReorderR t t' :=
  absRoot_permKids (ladderize_frame a) t ht

/-- hence `ladderize` changes neither the leaf index nor the reported bipartition set (nor any accumulated
    length), and the ladderized tree is at distance zero from the original -/
theorem ladderize_keeps_splits (a : Arena) (t : Rose) (ht : absRoot a = .ok t) :
    ∃ t', absRoot (ladderize a).1 = .ok t' ∧ leafIndex t' = leafIndex t ∧
      (∀ ps, partitions t = .ok ps → ∃ ps', partitions t' = .ok ps' ∧ PartEq ps ps' ∧
        rf t t' = .ok 0 ∧
        (∀ ms, withLengths ps = .ok ms → wrf t t' = .ok 0 ∧ kf2 t t' = .ok 0)) := by
  obtain ⟨t', h1, h2⟩ := ladderize_reorder a t ht
  refine ⟨t', h1, leafIndex_reorder h2, ?_⟩
  intro ps hps
  obtain ⟨ps', h3, h4⟩ := partitions_reorder h2 ps hps
  refine ⟨ps', h3, h4, (rf_reorder_zero h2 ps hps).1, ?_⟩
  intro ms hms
  have := weighted_reorder_zero h2 ps ms hps hms
  exact ⟨this.1, this.2.1⟩

end SPM
