import PhyloModel.Split.Lemmas
/-! Symmetry of the weighted sums: `sumOver f ms mo = sumOver f mo ms` for an even `f`, when no split occurs
    twice in either map. -/
namespace SPM

abbrev PM := List (Side × Nat × Int)

def commonSum (f : Int → Int) (ms mo : PM) : Int :=
  (ms.map (fun p => match lookup mo p.1 with | some (_, lo) => f (p.2.2 - lo) | none => 0)).sum
def onlySum (f : Int → Int) (ms mo : PM) : Int :=
  ((ms.filter (fun p => (lookup mo p.1).isNone)).map (fun p => f p.2.2)).sum

theorem sumOver_split (f : Int → Int) (ms mo : PM) :
    sumOver f ms mo = commonSum f ms mo + onlySum f ms mo + onlySum f mo ms := by
  unfold sumOver
  congr 1
  unfold commonSum onlySum
  induction ms with
  | nil => simp
  | cons p ms ih =>
    simp only [List.map_cons, List.sum_cons, List.filter_cons, ih]
    cases h : lookup mo p.1 with
    | none => simp; omega
    | some q => obtain ⟨d, lo⟩ := q; simp; omega

theorem lookup_cons (k : Side) (d : Nat) (l : Int) (ms : PM) (s : Side) :
    lookup ((k, d, l) :: ms) s = if k = s then some (d, l) else lookup ms s := by
  unfold lookup
  simp only [List.find?_cons]
  by_cases h : k = s
  · simp [h]
  · have hb : (k == s) = false := by simpa using h
    simp [h, hb]

theorem lookup_none_of_not_mem (m : PM) (k : Side) (h : k ∉ m.map (·.1)) : lookup m k = none := by
  induction m with
  | nil => simp [lookup]
  | cons p m ih =>
    obtain ⟨k', d, l⟩ := p
    simp only [List.map_cons, List.mem_cons, not_or] at h
    rw [lookup_cons, if_neg (Ne.symm h.1)]
    exact ih h.2

theorem commonSum_cons_right (f : Int → Int) (k : Side) (d : Nat) (l : Int) (ms : PM) (hk : lookup ms k = none) :
    ∀ (mo : PM), (mo.map (·.1)).Nodup →
    commonSum f mo ((k, d, l) :: ms) =
      commonSum f mo ms + (match lookup mo k with | some (_, lo) => f (lo - l) | none => 0) := by
  intro mo
  induction mo with
  | nil => intro _; simp [commonSum, lookup]
  | cons q mo ih =>
    intro hnd
    obtain ⟨k', d', l'⟩ := q
    simp only [List.map_cons, List.nodup_cons] at hnd
    have ih' := ih hnd.2
    unfold commonSum at ih' ⊢
    simp only [List.map_cons, List.sum_cons]
    rw [ih', lookup_cons k d l ms k', lookup_cons k' d' l' mo k]
    by_cases h : k = k'
    · subst h
      have : lookup mo k = none := lookup_none_of_not_mem mo k hnd.1
      simp [hk, this]; omega
    · simp only [h, Ne.symm h, ↓reduceIte]
      omega

theorem sum_map_zero {α : Type} (l : List α) : (l.map (fun _ => (0 : Int))).sum = 0 := by
  induction l with
  | nil => simp
  | cons x xs ih => simp only [List.map_cons, List.sum_cons, ih]; omega

theorem commonSum_symm (f : Int → Int) (hf : ∀ x, f (-x) = f x) :
    ∀ (ms mo : PM), (ms.map (·.1)).Nodup → (mo.map (·.1)).Nodup → commonSum f ms mo = commonSum f mo ms := by
  intro ms
  induction ms with
  | nil =>
    intro mo _ _
    simp only [commonSum, lookup, List.map_nil, List.sum_nil, List.find?_nil, Option.map_none]
    exact (sum_map_zero mo).symm
  | cons p ms ih =>
    intro mo hs ho
    obtain ⟨k, d, l⟩ := p
    simp only [List.map_cons, List.nodup_cons] at hs
    rw [commonSum_cons_right f k d l ms (lookup_none_of_not_mem ms k hs.1) mo ho, ← ih mo hs.2 ho]
    unfold commonSum
    simp only [List.map_cons, List.sum_cons]
    cases h : lookup mo k with
    | none => simp
    | some q =>
      obtain ⟨d', lo⟩ := q
      have : f (l - lo) = f (lo - l) := by
        have := hf (lo - l)
        rw [← this]; congr 1; omega
      simp [this]; omega

/-- the weighted sum over the union of two split maps does not depend on the order of the two maps -/
theorem sumOver_symm (f : Int → Int) (hf : ∀ x, f (-x) = f x) (ms mo : PM)
    (hs : (ms.map (·.1)).Nodup) (ho : (mo.map (·.1)).Nodup) : sumOver f ms mo = sumOver f mo ms := by
  rw [sumOver_split, sumOver_split, commonSum_symm f hf ms mo hs ho]
  omega

theorem iabs_neg (x : Int) : iabs (-x) = iabs x := by
  unfold iabs; split <;> split <;> omega

theorem withLengths_keys (ps : List Part) (m : PM) (h : withLengths ps = .ok m) : m.map (·.1) = sides ps := by
  unfold withLengths at h
  split at h
  · cases h
  · cases h; simp [sides, List.map_map, Function.comp_def]

end SPM
