import PhyloModel.Split.RenameDist
/-! RF as a function of the reported SETS: replacing either tree by one with the same leaf index, the same
    reported set and the same root splits does not change `rf` (value, correction, errors).  Instances:
    child reordering and unary nodes, in either or both arguments. -/
namespace SPM
open AR

/-- `s'` is indistinguishable from `s` for `rf` -/
structure RFSame (s s' : Rose) : Prop where
  idx : leafIndex s' = leafIndex s
  rooted : isRootedR s' = isRootedR s
  roots : ∀ all x, x ∈ rootSides all s ↔ x ∈ rootSides all s'
  parts : ∀ ps, partitions s = .ok ps → ∃ ps', partitions s' = .ok ps' ∧ ∀ x, x ∈ sides ps ↔ x ∈ sides ps'

theorem length_eq_of_same_sides (t t' : Rose) (ps ps' : List Part) (h : partitions t = .ok ps)
    (h' : partitions t' = .ok ps') (hm : ∀ x, x ∈ sides ps ↔ x ∈ sides ps') : ps.length = ps'.length := by
  have := ((List.perm_ext_iff_of_nodup (C05.partitions_nodup t ps h) (C05.partitions_nodup t' ps' h')).2 hm).length_eq
  simpa [sides] using this

theorem inter_congr (a a' b b' : List Side) (ha : a.Perm a') (hb : ∀ x, x ∈ b ↔ x ∈ b') :
    inter a b = inter a' b' := by
  unfold inter
  have : a.filter (fun s => b.contains s) = a.filter (fun s => b'.contains s) := by
    apply List.filter_congr
    intro x _
    simp only [List.contains_eq_mem]
    rw [decide_eq_decide]; exact hb x
  rw [this]
  exact (ha.filter _).length_eq

theorem sameSet_congr (a a' b b' : List Side) (ha : ∀ x, x ∈ a ↔ x ∈ a') (hb : ∀ x, x ∈ b ↔ x ∈ b') :
    sameSet a b = sameSet a' b' := by
  rw [Bool.eq_iff_iff, sameSet_iff, sameSet_iff]
  constructor
  · intro h x; rw [← ha, ← hb]; exact h x
  · intro h x; rw [ha, hb]; exact h x

theorem rf_congr {s s' o o' : Rose} (h1 : RFSame s s') (h2 : RFSame o o') : rf s' o' = rf s o := by
  rcases partitions_cases s with ⟨e, hls, hps⟩ | ⟨ls, ps, hls, hps⟩
  · have hps' : partitions s' = .err e := by rw [partitions_err_iff, h1.idx, hls]
    simp [rf, hps, hps']
  obtain ⟨ps', hps', hm1⟩ := h1.parts ps hps
  rcases partitions_cases o with ⟨e, hlo, hpo⟩ | ⟨lo, po, hlo, hpo⟩
  · have hpo' : partitions o' = .err e := by rw [partitions_err_iff, h2.idx, hlo]
    simp [rf, hps, hps', hpo, hpo']
  obtain ⟨po', hpo', hm2⟩ := h2.parts po hpo
  have hls' : leafIndex s' = .ok ls := by rw [h1.idx, hls]
  have hlo' : leafIndex o' = .ok lo := by rw [h2.idx, hlo]
  rw [C06.rf_eq s' o' ps' po' ls lo hps' hpo' hls' hlo', C06.rf_eq s o ps po ls lo hps hpo hls hlo]
  have hd : C06.delta ps' po' = C06.delta ps po := by
    unfold C06.delta
    rw [← length_eq_of_same_sides s s' ps ps' hps hps' hm1, ← length_eq_of_same_sides o o' po po' hpo hpo' hm2,
      inter_congr (sides po') (sides po) (sides ps') (sides ps)
        ((List.perm_ext_iff_of_nodup (C05.partitions_nodup o' po' hpo') (C05.partitions_nodup o po hpo)).2
          (fun x => (hm2 x).symm)) (fun x => (hm1 x).symm)]
  have hc : ∀ d, C06.corrected s' o' ls lo d = C06.corrected s o ls lo d := by
    intro d
    unfold C06.corrected
    rw [h1.rooted, h2.rooted, sameSet_congr (rootSides ls s') (rootSides ls s) (rootSides lo o') (rootSides lo o)
      (fun x => (h1.roots ls x).symm) (fun x => (h2.roots lo x).symm)]
  rw [hd, hc]

theorem rfNorm_congr {s s' o o' : Rose} (h1 : RFSame s s') (h2 : RFSame o o') : rfNorm s' o' = rfNorm s o := by
  unfold rfNorm
  rw [rf_congr h1 h2]
  rcases partitions_cases s with ⟨e, hls, hps⟩ | ⟨ls, ps, hls, hps⟩
  · have hps' : partitions s' = .err e := by rw [partitions_err_iff, h1.idx, hls]
    simp [rf, hps, hps']
  obtain ⟨ps', hps', hm1⟩ := h1.parts ps hps
  rcases partitions_cases o with ⟨e, hlo, hpo⟩ | ⟨lo, po, hlo, hpo⟩
  · have hpo' : partitions o' = .err e := by rw [partitions_err_iff, h2.idx, hlo]
    simp [rf, hps, hps', hpo, hpo']
  obtain ⟨po', hpo', hm2⟩ := h2.parts po hpo
  simp [hps, hps', hpo, hpo', length_eq_of_same_sides s s' ps ps' hps hps' hm1,
    length_eq_of_same_sides o o' po po' hpo hpo' hm2]

theorem RFSame.refl (s : Rose) : RFSame s s :=
  ⟨rfl, rfl, fun _ _ => Iff.rfl, fun ps h => ⟨ps, h, fun _ => Iff.rfl⟩⟩

theorem rfSame_of_reorder {s s' : Rose} (h : ReorderR s s') : RFSame s s' := by
  have he := reorder_reqv h
  refine ⟨leafIndex_reorder h, ?_, ?_, ?_⟩
  · unfold isRootedR
    have := (he.rs []).length_eq
    simp only [List.length_map] at this
    rw [this]
  · intro all x
    rw [mem_rootSides, mem_rootSides]
    exact (he.rs all).mem_iff
  · intro ps hps
    obtain ⟨ps', h1, h2⟩ := partitions_reorder h ps hps
    exact ⟨ps', h1, h2.mem⟩

theorem rfSame_of_unary {s s' : Rose} (h : UnaryEq s s') : RFSame s s' := by
  have he := unaryEq_ueqv h
  refine ⟨leafIndex_unary h, ?_, ?_, partitions_unary h⟩
  · unfold isRootedR; rw [he.rootLen]
  · intro all x
    rw [mem_rootSides, mem_rootSides, he.rs all]

/-- **RF does not see child order**: reordering either tree (or both) leaves `rf` unchanged -/
theorem rf_reorder {s s' o o' : Rose} (h1 : ReorderR s s') (h2 : ReorderR o o') : rf s' o' = rf s o :=
  rf_congr (rfSame_of_reorder h1) (rfSame_of_reorder h2)

theorem rfNorm_reorder {s s' o o' : Rose} (h1 : ReorderR s s') (h2 : ReorderR o o') : rfNorm s' o' = rfNorm s o :=
  rfNorm_congr (rfSame_of_reorder h1) (rfSame_of_reorder h2)

/-- **RF does not see unary nodes**: inserting/removing unary nodes in either tree leaves `rf` unchanged -/
theorem rf_unary {s s' o o' : Rose} (h1 : UnaryEq s s') (h2 : UnaryEq o o') : rf s' o' = rf s o :=
  rf_congr (rfSame_of_unary h1) (rfSame_of_unary h2)

end SPM
