import PhyloModel.Split.Rescale
import PhyloModel.Arena.Ops
/-! Bridge from the arena operation `rescale` to the rose-level `scaleR`: the abstraction of the rescaled arena
    is the rescaled abstraction; hence `rescale k` on both trees multiplies weighted RF by `|k|`, the squared
    branch score by `k²`, and leaves RF and the bipartition set unchanged. -/
namespace SPM
open AR

theorem nd_rescale (a : Arena) (k : Int) (i : Nat) : nd (rescale a k) i = scaleNode k (nd a i) ∨
    (a.size ≤ i ∧ nd (rescale a k) i = dead ∧ nd a i = dead) := by
  unfold rescale nd
  by_cases h : i < a.size
  · left; simp [Array.getD_eq_getD_getElem?, h]
  · right; exact ⟨by omega, by simp [Array.getD_eq_getD_getElem?, h], by simp [Array.getD_eq_getD_getElem?, h]⟩

theorem isLive_rescale (a : Arena) (k : Int) (i : Nat) : isLive (rescale a k) i = isLive a i := by
  unfold isLive
  have hs : (rescale a k).size = a.size := by simp [rescale]
  rcases nd_rescale a k i with h | ⟨_, h1, h2⟩
  · rw [hs, h]; rfl
  · rw [hs, h1, h2]

theorem fields_rescale (a : Arena) (k : Int) (i : Nat) (hl : isLive a i = true) :
    (nd (rescale a k) i).children = (nd a i).children ∧ (nd (rescale a k) i).name = (nd a i).name ∧
    (nd (rescale a k) i).depth = (nd a i).depth ∧ (nd (rescale a k) i).parent = (nd a i).parent ∧
    (nd (rescale a k) i).pedge = (nd a i).pedge.map (fun x => k * x) := by
  rcases nd_rescale a k i with h | ⟨h0, _, _⟩
  · rw [h]
    refine ⟨rfl, rfl, rfl, rfl, ?_⟩
    simp only [scaleNode]
    cases (nd a i).pedge with
    | none => rfl
    | some x => simp [Int.mul_comm]
  · simp [isLive] at hl; omega

theorem mapM_map_option {α β γ : Type} (g : α → Option β) (h : β → γ) :
    ∀ l : List α, l.mapM (fun c => (g c).map h) = (l.mapM g).map (List.map h)
  | [] => by simp
  | x :: l => by
    simp only [List.mapM_cons, mapM_map_option g h l]
    cases g x with
    | none => rfl
    | some y =>
      cases l.mapM g with
      | none => rfl
      | some ys => rfl

theorem absF_rescale (a : Arena) (k : Int) : ∀ (f x : Nat), absF f (rescale a k) x = (absF f a x).map (scaleR k)
  | 0, x => by simp [absF]
  | f + 1, x => by
    unfold absF
    rw [isLive_rescale]
    by_cases hl : isLive a x = true
    · obtain ⟨h1, h2, h3, _, h5⟩ := fields_rescale a k x hl
      rw [if_pos hl, if_pos hl, h1, h2, h3, h5]
      have : (fun c => absF f (rescale a k) c) = (fun c => (absF f a c).map (scaleR k)) := by
        funext c; exact absF_rescale a k f c
      rw [this, mapM_map_option]
      cases (nd a x).children.mapM (fun c => absF f a c) with
      | none => rfl
      | some ks =>
        simp only [Option.map_some, scaleR_node, scaleL_eq_map]
    · rw [if_neg hl, if_neg hl]; rfl

theorem getRoot_rescale (a : Arena) (k : Int) : getRoot (rescale a k) = getRoot a := by
  unfold getRoot
  have hs : (rescale a k).size = a.size := by simp [rescale]
  rw [hs]
  apply find?_congr'
  intro i _
  rw [isLive_rescale]
  by_cases hl : isLive a i = true
  · rw [(fields_rescale a k i hl).2.2.2.1]
  · have : isLive a i = false := by simpa using hl
    simp [this]

/-- **arena bridge**: the abstraction of the rescaled arena is the rescaled abstraction -/
theorem absRoot_rescale (a : Arena) (k : Int) (t : Rose) (ht : absRoot a = .ok t) :
    absRoot (rescale a k) = .ok (scaleR k t) := by
  unfold absRoot root at ht ⊢
  rw [getRoot_rescale]
  cases hr : getRoot a with
  | none => rw [hr] at ht; simp [QR.ofOpt] at ht
  | some r =>
    rw [hr] at ht
    simp only [QR.ofOpt, QR.bind_ok] at ht ⊢
    have hfuel : fuelOf (rescale a k) = fuelOf a := by unfold fuelOf; simp [rescale]
    rw [hfuel, absF_rescale]
    cases hf : absF (fuelOf a) a r with
    | none => rw [hf] at ht; cases ht
    | some t0 =>
      rw [hf] at ht
      simp only [QR.ok.injEq] at ht
      subst ht
      rfl

/-- `rescale k` applied to both arenas: weighted RF times `|k|`, squared branch score times `k²`, RF unchanged -/
theorem rescale_distances (a b : Arena) (k : Int) (s o : Rose) (hs : absRoot a = .ok s) (ho : absRoot b = .ok o) :
    ∃ s' o', absRoot (rescale a k) = .ok s' ∧ absRoot (rescale b k) = .ok o' ∧
      rf s' o' = rf s o ∧
      (∀ v, wrf s o = .ok v → wrf s' o' = .ok (iabs k * v)) ∧
      (∀ v, kf2 s o = .ok v → kf2 s' o' = .ok (k * k * v)) := by
  refine ⟨scaleR k s, scaleR k o, absRoot_rescale a k s hs, absRoot_rescale b k o ho, rf_scaleR k k s o, ?_, ?_⟩
  · intro v hv
    have := (weighted_scaleR k s o).1
    rw [hv] at this; exact this
  · intro v hv
    have := (weighted_scaleR k s o).2
    rw [hv] at this; exact this

end SPM
