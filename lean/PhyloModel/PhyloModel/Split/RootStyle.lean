import PhyloModel.Split.PartSpec
/-! The same unrooted tree drawn with a two-child root `[X, Y]` (X internal) or with `X` dissolved into the
    root (`kx ++ [Y]`): same leaf index, same reported set of bipartitions (executable model). -/
namespace SPM
open AR

/-! ### masks -/

theorem maskOf_congr (all A B : List String) (h : ∀ x ∈ all, (x ∈ A ↔ x ∈ B)) : maskOf all A = maskOf all B := by
  unfold maskOf
  apply List.map_congr_left
  intro x hx
  have := h x hx
  by_cases hA : x ∈ A
  · simp [hA, this.1 hA]
  · have hB : x ∉ B := fun hb => hA (this.2 hb)
    simp [hA, hB]

theorem maskOf_compl (all A B : List String) (h : ∀ x ∈ all, (x ∈ A ↔ x ∉ B)) :
    maskOf all A = flip (maskOf all B) := by
  unfold maskOf flip
  rw [List.map_map]
  apply List.map_congr_left
  intro x hx
  have := h x hx
  by_cases hA : x ∈ A
  · simp [hA, this.1 hA]
  · have hB : x ∈ B := Classical.byContradiction (fun hb => hA (this.2 hb))
    simp [hA, hB]

/-- complementary name sets (relative to the leaf index) have the same stored side -/
theorem canon_mask_compl (all A B : List String) (h : ∀ x ∈ all, (x ∈ A ↔ x ∉ B)) :
    canon (maskOf all A) = canon (maskOf all B) := by
  rw [maskOf_compl all A B h, canon_flip]

theorem ones_maskOf_nil (all : List String) : ones (maskOf all []) = 0 := by
  induction all with
  | nil => rfl
  | cons a all ih => simp only [ones, maskOf] at ih ⊢; simpa using ih

theorem ones_maskOf_single (all : List String) (y : String) (hnd : all.Nodup) : ones (maskOf all [y]) ≤ 1 := by
  have hc := (List.nodup_iff_count.1 hnd) y
  have : ones (maskOf all [y]) = all.count y := by
    clear hc hnd
    induction all with
    | nil => rfl
    | cons a all ih =>
      simp only [ones, maskOf] at ih ⊢
      simp only [List.map_cons, List.count_cons, ih]
      by_cases h : a = y
      · simp [h]
      · have : (a == y) = false := by simpa using h
        simp [h, this]
  omega

/-- the branch above a tip is never reported -/
theorem trivial_sideOf_tip (all : List String) (hnd : all.Nodup) (k : Rose) (hk : k.kids = []) :
    trivial (sideOf all k) = true := by
  cases k with
  | node i n l d kk =>
    simp only [Rose.kids] at hk
    subst hk
    rw [sideOf_eq, trivial_canon, names, tipNames_leaf]
    cases n with
    | none =>
      simp only [List.filterMap_cons, id, List.filterMap_nil]
      simp [trivial, ones_maskOf_nil]
    | some y =>
      simp only [List.filterMap_cons, id, List.filterMap_nil]
      have := ones_maskOf_single all y hnd
      simp only [trivial, Bool.or_eq_true, decide_eq_true_eq]
      left; exact this

/-! ### names below a node -/

theorem names_node_ne (i : Nat) (n : Option String) (l : Option Int) (d : Nat) (ks : List Rose) (h : ks ≠ []) :
    names (.node i n l d ks) = ks.flatMap names := by
  unfold names
  rw [tipNames_node_ne _ _ _ _ _ h, List.filterMap_flatMap]

/-! ### the two drawings -/

section
variable (i : Nat) (n : Option String) (l : Option Int) (d : Nat)
variable (ix : Nat) (nx : Option String) (lx : Option Int) (dx : Nat) (kx : List Rose) (Y : Rose)
variable (i' : Nat) (n' : Option String) (l' : Option Int) (d' : Nat)

theorem tipNames_root_style (hkx : kx ≠ []) :
    tipNames (.node i' n' l' d' (kx ++ [Y])) = tipNames (.node i n l d [.node ix nx lx dx kx, Y]) := by
  rw [tipNames_node_ne _ _ _ _ _ (by simp), tipNames_node_ne _ _ _ _ _ (by simp)]
  simp only [List.flatMap_append, List.flatMap_cons, List.flatMap_nil, List.append_nil]
  rw [tipNames_node_ne _ _ _ _ _ hkx]

/-- both drawings have the same leaf index (or the same error) -/
theorem leafIndex_root_style (hkx : kx ≠ []) :
    leafIndex (.node i' n' l' d' (kx ++ [Y])) = leafIndex (.node i n l d [.node ix nx lx dx kx, Y]) := by
  unfold leafIndex
  rw [tipNames_root_style i n l d ix nx lx dx kx Y i' n' l' d' hkx]

/-- the two-child drawing has exactly one more branch entry: the one above `X` -/
theorem branches_root_style (all : List String) (hkx : kx ≠ []) :
    branches all (.node i n l d [.node ix nx lx dx kx, Y]) =
      (sideOf all (.node ix nx lx dx kx), dx, lx) :: branches all (.node i' n' l' d' (kx ++ [Y])) := by
  rw [branches_node, branches_node, branchesL_append, branchesL_cons, branchesL_cons, branchesL_nil,
    branches_node]
  simp [headB, Rose.kids, hkx, Rose.depth, Rose.len]

/-- in the two-child drawing the two root branches induce the same split -/
theorem sideOf_root_children (all : List String)
    (hall : leafIndex (.node i n l d [.node ix nx lx dx kx, Y]) = .ok all) :
    sideOf all (.node ix nx lx dx kx) = sideOf all Y := by
  obtain ⟨_, hnd, _⟩ := (leafIndex_ok_iff _ all).1 hall
  have hmem := mem_leafIndex _ all hall
  rw [names_node_ne _ _ _ _ _ (by simp)] at hnd hmem
  simp only [List.flatMap_cons, List.flatMap_nil, List.append_nil] at hnd hmem
  rw [sideOf_eq, sideOf_eq]
  apply canon_mask_compl
  intro x hx
  have hx' := (hmem x).1 hx
  rw [List.nodup_append] at hnd
  rw [List.mem_append] at hx'
  constructor
  · intro h1 h2; exact hnd.2.2 x h1 x h2 rfl
  · intro h2
    rcases hx' with h | h
    · exact h
    · exact absurd h h2

/-- **root style**: the two drawings report the same set of bipartitions -/
theorem partitions_root_style (hkx : kx ≠ []) (ps : List Part)
    (hps : partitions (.node i n l d [.node ix nx lx dx kx, Y]) = .ok ps) :
    ∃ ps', partitions (.node i' n' l' d' (kx ++ [Y])) = .ok ps' ∧ ∀ x, x ∈ sides ps ↔ x ∈ sides ps' := by
  obtain ⟨all, hall⟩ := leafIndex_ok_of_partitions _ ps hps
  have hall' : leafIndex (.node i' n' l' d' (kx ++ [Y])) = .ok all := by
    rw [leafIndex_root_style i n l d ix nx lx dx kx Y i' n' l' d' hkx, hall]
  obtain ⟨ps', hps'⟩ := partitions_ok_of_leafIndex _ all hall'
  refine ⟨ps', hps', ?_⟩
  intro x
  rw [(partitions_spec _ all ps hall hps).mem, (partitions_spec _ all ps' hall' hps').mem]
  unfold nbranches
  rw [branches_root_style i n l d ix nx lx dx kx Y i' n' l' d' all hkx]
  simp only [List.filter_cons]
  split
  · next hnt =>
    simp only [List.map_cons, List.mem_cons]
    constructor
    · rintro (rfl | h)
      · -- the branch above X: the same side as the branch above Y, which is internal (else trivial)
        rw [sideOf_root_children i n l d ix nx lx dx kx Y all hall] at hnt ⊢
        have hY : Y.kids ≠ [] := by
          intro hk
          have := trivial_sideOf_tip all (leafIndex_nodup _ all hall) Y hk
          simp [this] at hnt
        rw [List.mem_map]
        refine ⟨(sideOf all Y, Y.depth, Y.len), ?_, rfl⟩
        rw [List.mem_filter]
        refine ⟨?_, hnt⟩
        rw [branches_node, branchesL_append, branchesL_cons, List.mem_append, List.mem_append, List.mem_append]
        right; left; left
        simp [headB, hY]
      · exact h
    · intro h; right; exact h
  · exact Iff.rfl

theorem partitions_root_style_err (hkx : kx ≠ []) (e : String)
    (hps : partitions (.node i n l d [.node ix nx lx dx kx, Y]) = .err e) :
    partitions (.node i' n' l' d' (kx ++ [Y])) = .err e := by
  rw [partitions_err_iff] at hps ⊢
  rw [leafIndex_root_style i n l d ix nx lx dx kx Y i' n' l' d' hkx, hps]

/-- hence the RF distance between the two drawings is zero -/
theorem rf_root_style_zero (hkx : kx ≠ []) (ps : List Part)
    (hps : partitions (.node i n l d [.node ix nx lx dx kx, Y]) = .ok ps) :
    rf (.node i n l d [.node ix nx lx dx kx, Y]) (.node i' n' l' d' (kx ++ [Y])) = .ok 0 := by
  obtain ⟨all, hall⟩ := leafIndex_ok_of_partitions _ ps hps
  have hall' : leafIndex (.node i' n' l' d' (kx ++ [Y])) = .ok all := by
    rw [leafIndex_root_style i n l d ix nx lx dx kx Y i' n' l' d' hkx, hall]
  obtain ⟨ps', hps', he⟩ := partitions_root_style i n l d ix nx lx dx kx Y i' n' l' d' hkx ps hps
  exact C06.rf_zero_of_same_splits _ _ ps ps' all hps hps' hall hall' he

end

end SPM
