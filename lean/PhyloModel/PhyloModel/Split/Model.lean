import PhyloModel.Arena.Abs
/-! Executable model of the bipartition machinery of `Tree` (repaired semantics): leaf index,
    `get_partition`, `init_partitions` with length accumulation, Robinson–Foulds, weighted RF, the squared
    branch score, `compare_topologies`, `compare_branch_lengths`.

    A split is represented by the sorted list of leaf names on the side that does NOT contain the smallest
    leaf name (the crate stores `min(S, ¬S)` of a bitset over the sorted names; which side that is cannot be
    observed once splits are compared as unordered pairs). -/
namespace SPM
open AR

/-- a split as the crate stores it: one bit per entry of the sorted leaf index -/
abbrev Side := List Bool

mutual
def tipNames : Rose → List (Option String)
  | .node _ n _ _ [] => [n]
  | .node _ _ _ _ (k :: ks) => tipNamesL (k :: ks)
def tipNamesL : List Rose → List (Option String)
  | [] => []
  | k :: ks => tipNames k ++ tipNamesL ks
end

def sortS (l : List String) : List String := l.mergeSort (fun x y => decide (x ≤ y))

/-- `init_leaf_index`: sorted leaf names, or the error the crate reports -/
def leafIndex (t : Rose) : QR (List String) :=
  let names := tipNames t
  if names.any Option.isNone then .err "UnnamedLeaves" else
  let ns := sortS (names.filterMap id)
  if ns.eraseDups.length != ns.length then .err "DuplicateLeafNames" else .ok ns

/-- bitset of the leaves named in `names` -/
def maskOf (all : List String) (names : List String) : Side := all.map (fun x => names.contains x)

/-- `toggle_range(..)` -/
def flip (m : Side) : Side := m.map not

/-- canonical representative of `{S, ¬S}`: the side without the first (smallest) leaf name.  The crate
    takes `min(S, ¬S)` in `FixedBitSet`'s order; which of the two that is cannot be observed once splits are
    compared as unordered pairs, so the model fixes one. -/
def canon (m : Side) : Side :=
  match m with
  | true :: _ => flip m
  | _ => m

def ones (m : Side) : Nat := m.count true

/-- the repaired trivial-split test: `ones <= 1 || ones + 1 >= len` -/
def trivial (m : Side) : Bool := ones m ≤ 1 || ones m + 1 ≥ m.length

/-- `get_partition` of the branch above `t` -/
def sideOf (all : List String) (t : Rose) : Side :=
  canon (maskOf all ((tipNames t).filterMap id))

/-- names on the stored side (what `partition_to_leaves` lists) -/
def namesOf (all : List String) (m : Side) : List String :=
  (all.zip m).filterMap (fun p => if p.2 then some p.1 else none)

mutual
/-- (canonical side, depth, length) for every non-root internal node, pre-order -/
def branches (all : List String) : Rose → List (Side × Nat × Option Int)
  | .node _ _ _ _ ks => branchesL all ks
def branchesL (all : List String) : List Rose → List (Side × Nat × Option Int)
  | [] => []
  | k :: ks =>
    (match k with
     | .node _ _ _ _ [] => []
     | .node _ _ l d (_ :: _) => [(sideOf all k, d, l)]) ++ branches all k ++ branchesL all ks
end

structure Part where
  side : Side
  depth : Nat
  len : Option Int
deriving Repr

/-- accumulation arm of `init_partitions` (repaired: a missing length poisons the sum) -/
def accLen (new old : Option Int) : Option Int :=
  match new, old with
  | some n, some o => some (o + n)
  | _, _ => none

def insertPart (m : List Part) (s : Side) (d : Nat) (l : Option Int) : List Part :=
  match m.find? (fun p => p.side == s) with
  | some p => (m.filter (fun q => q.side != s)) ++ [{ side := s, depth := d, len := accLen l p.len }]
  | none => m ++ [{ side := s, depth := d, len := l }]

/-- `init_partitions`: the partition map -/
def partitions (t : Rose) : QR (List Part) := do
  let all ← leafIndex t
  let bs := (branches all t).filter (fun b => !trivial b.1)
  pure (bs.foldl (fun m b => insertPart m b.1 b.2.1 b.2.2) [])

def sides (ps : List Part) : List Side := ps.map (·.side)

/-- `get_partitions` on an arena: the crate only needs live nodes, not a root; an arena whose nodes were all
    removed has an empty leaf index and no bipartition (an arena without any slot is `IsEmpty`) -/
def partitionsArena (a : Arena) : QR (List String × List Part) :=
  match getRoot a with
  | none => if a.size = 0 then .err "IsEmpty" else .ok ([], [])
  | some _ => do
    let t ← absRoot a
    let all ← leafIndex t
    let ps ← partitions t
    pure (all, ps)

def inter (a b : List Side) : Nat := (a.filter (fun s => b.contains s)).length

/-- partitions of the root's child branches (as a set), used by the root-placement correction -/
def rootSides (all : List String) (t : Rose) : List Side := (t.kids.map (sideOf all)).eraseDups

def sameSet (a b : List Side) : Bool := a.all (fun s => b.contains s) && b.all (fun s => a.contains s)

def isRootedR (t : Rose) : Bool := t.kids.length == 2

/-- `robinson_foulds` -/
def rf (s o : Rose) : QR Nat := do
  let ps ← partitions s
  let po ← partitions o
  let ls ← leafIndex s
  let lo ← leafIndex o
  if ls != lo then .err "DifferentTipIndices" else
  let sameRoot := sameSet (rootSides ls s) (rootSides lo o)
  let i := inter (sides po) (sides ps)
  let d := po.length + ps.length - 2 * i
  if isRootedR s && isRootedR o && d != 0 && !sameRoot then pure (d + 2) else pure d

/-- `robinson_foulds_norm` as the exact pair (rf, total number of splits) -/
def rfNorm (s o : Rose) : QR (Nat × Nat) := do
  let d ← rf s o
  let ps ← partitions s
  let po ← partitions o
  pure (d, po.length + ps.length)

def withLengths (ps : List Part) : QR (List (Side × Nat × Int)) :=
  if ps.any (fun p => p.len.isNone) then .err "MissingBranchLengths"
  else .ok (ps.map (fun p => (p.side, p.depth, p.len.getD 0)))

def lookup (m : List (Side × Nat × Int)) (s : Side) : Option (Nat × Int) :=
  (m.find? (fun p => p.1 == s)).map (·.2)

/-- Σ over the union of splits of `f (ℓ_s − ℓ_o)` with 0 for an absent split -/
def sumOver (f : Int → Int) (ms mo : List (Side × Nat × Int)) : Int :=
  (ms.map (fun p => match lookup mo p.1 with | some (_, lo) => f (p.2.2 - lo) | none => f p.2.2)).sum
  + ((mo.filter (fun p => (lookup ms p.1).isNone)).map (fun p => f p.2.2)).sum

def iabs (x : Int) : Int := if x < 0 then -x else x

/-- `weighted_robinson_foulds` -/
def wrf (s o : Rose) : QR Int := do
  let ms ← (partitions s) >>= withLengths
  let mo ← (partitions o) >>= withLengths
  pure (sumOver iabs ms mo)

/-- square of `khuner_felsenstein` -/
def kf2 (s o : Rose) : QR Int := do
  let ms ← (partitions s) >>= withLengths
  let mo ← (partitions o) >>= withLengths
  pure (sumOver (fun x => x * x) ms mo)

/-- `compare_topologies`: (rf, total, weighted rf, squared branch score) -/
def compareTopologies (s o : Rose) : QR (Nat × Nat × Int × Int) := do
  let ms ← (partitions s) >>= withLengths
  let mo ← (partitions o) >>= withLengths
  let ls ← leafIndex s
  let lo ← leafIndex o
  if ls != lo then .err "DifferentTipIndices" else
  let tot := mo.length + ms.length
  let i := inter (mo.map (·.1)) (ms.map (·.1))
  let d := tot - 2 * i
  let sameRoot := sameSet (rootSides ls s) (rootSides lo o)
  let d' := if isRootedR s && isRootedR o && d != 0 && !sameRoot then d + 2 else d
  pure (d', tot, sumOver iabs ms mo, sumOver (fun x => x * x) ms mo)

mutual
def tipBranches : Rose → List (Option String × Nat × Option Int)
  | .node _ n l d [] => [(n, d, l)]
  | .node _ _ _ _ (k :: ks) => tipBranchesL (k :: ks)
def tipBranchesL : List Rose → List (Option String × Nat × Option Int)
  | [] => []
  | k :: ks => tipBranches k ++ tipBranchesL ks
end

/-- `compare_branch_lengths`: (only in self, only in other, common) as lists of lengths keyed by split
    (or by tip name when `tips`); depths are carried by the crate but are not part of the claim -/
def compareBranches (s o : Rose) (tips : Bool) :
    QR (List (String × Int) × List (String × Int) × List (String × Int × Int)) := do
  let ms ← (partitions s) >>= withLengths
  let mo ← (partitions o) >>= withLengths
  let all ← leafIndex s
  let key (sd : Side) : String := "\x01".intercalate (namesOf all sd)
  let only1 := (ms.filter (fun p => (lookup mo p.1).isNone)).map (fun p => (key p.1, p.2.2))
  let only2 := (mo.filter (fun p => (lookup ms p.1).isNone)).map (fun p => (key p.1, p.2.2))
  let common := ms.filterMap (fun p => (lookup mo p.1).map (fun q => (key p.1, p.2.2, q.2)))
  if !tips then pure (only1, only2, common) else
  let _ ← leafIndex s      -- `has_unique_tip_names` of both trees
  let _ ← leafIndex o
  let ts := tipBranches s
  let to := tipBranches o
  let find (l : List (Option String × Nat × Option Int)) (n : Option String) := l.find? (fun x => x.1 == n)
  if ts.any (fun x => x.2.2.isNone) then .err "MissingBranchLengths" else
  if to.any (fun x => x.2.2.isNone) then .err "MissingBranchLengths" else
  let nm (n : Option String) : String := "tip:" ++ n.getD ""
  let t1 := (ts.filter (fun x => (find to x.1).isNone)).map (fun x => (nm x.1, x.2.2.getD 0))
  let t2 := (to.filter (fun x => (find ts x.1).isNone)).map (fun x => (nm x.1, x.2.2.getD 0))
  let tc := ts.filterMap (fun x => (find to x.1).map (fun y => (nm x.1, x.2.2.getD 0, y.2.2.getD 0)))
  pure (only1 ++ t1, only2 ++ t2, common ++ tc)

end SPM
