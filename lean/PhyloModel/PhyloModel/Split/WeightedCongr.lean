import PhyloModel.Split.RFCongr
/-! Weighted RF and the squared branch score as functions of the partition maps up to `PartEq` (same sides,
    same accumulated lengths; order and depths free).  Instance: child reordering of either tree or both. -/
namespace SPM
open AR

theorem perm_sum_int {l1 l2 : List Int} (h : l1.Perm l2) : l1.sum = l2.sum := by
  induction h with
  | nil => rfl
  | cons x _ ih => simp only [List.sum_cons, ih]
  | swap x y l => simp only [List.sum_cons]; omega
  | trans _ _ ih1 ih2 => exact ih1.trans ih2

theorem nodup_of_map {α β : Type} (f : α → β) (l : List α) (h : (l.map f).Nodup) : l.Nodup :=
  List.Pairwise.of_map f (fun _ _ hne e => hne (congrArg f e)) h

/-- what the weighted distances read of a partition map -/
def view (ps : List Part) : List (Side × Option Int) := ps.map (fun p => (p.side, p.len))

theorem view_keys (ps : List Part) : (view ps).map (·.1) = sides ps := by
  simp [view, sides, List.map_map, Function.comp_def]

theorem PartEq.view_perm {ps ps' : List Part} (h : PartEq ps ps') : (view ps).Perm (view ps') := by
  have n1 : (view ps).Nodup := by
    have := h.nodup; rw [← view_keys] at this; exact nodup_of_map _ _ this
  have n2 : (view ps').Nodup := by
    have := h.nodup'; rw [← view_keys] at this; exact nodup_of_map _ _ this
  rw [List.perm_ext_iff_of_nodup n1 n2]
  have key : ∀ {a b : List Part}, PartEq a b → ∀ x, x ∈ view a → x ∈ view b := by
    intro a b hab x hx
    obtain ⟨p, hp, rfl⟩ := List.mem_map.mp hx
    have hm : p.side ∈ sides b := (hab.mem _).1 (List.mem_map.mpr ⟨p, hp, rfl⟩)
    obtain ⟨p', hp', hs⟩ := List.mem_map.mp hm
    refine List.mem_map.mpr ⟨p', hp', ?_⟩
    rw [hs, hab.len p hp p' hp' hs.symm]
  exact fun x => ⟨key h x, key h.symm x⟩

/-- the length stored under a side -/
def llen (m : PM) (s : Side) : Option Int := (lookup m s).map (·.2)

theorem llen_map_gLen (ps : List Part) (s : Side) :
    llen (ps.map gLen) s = (ps.find? (fun q => q.side == s)).map (fun q => q.len.getD 0) := by
  unfold llen
  rw [lookup_map_gLen, Option.map_map]
  rfl

theorem PartEq.llen_eq {ps ps' : List Part} (h : PartEq ps ps') (s : Side) :
    llen (ps'.map gLen) s = llen (ps.map gLen) s := by
  rw [llen_map_gLen, llen_map_gLen]
  by_cases hs : s ∈ sides ps
  · obtain ⟨q, hq, hqm, hqs⟩ := find_side_of_mem ps s hs
    obtain ⟨q', hq', hqm', hqs'⟩ := find_side_of_mem ps' s ((h.mem s).1 hs)
    rw [hq, hq', Option.map_some, Option.map_some, h.len q hqm q' hqm' (hqs.trans hqs'.symm)]
  · have hs' : s ∉ sides ps' := fun h' => hs ((h.mem s).2 h')
    have e1 : ps.find? (fun q => q.side == s) = none := by
      rw [List.find?_eq_none]
      intro q hq hqs
      exact hs (List.mem_map.mpr ⟨q, hq, by simpa using hqs⟩)
    have e2 : ps'.find? (fun q => q.side == s) = none := by
      rw [List.find?_eq_none]
      intro q hq hqs
      exact hs' (List.mem_map.mpr ⟨q, hq, by simpa using hqs⟩)
    rw [e1, e2]

/-- the summand of a split of the first map -/
def tA (F : Int → Int) (mo : PM) (x : Side × Option Int) : Int :=
  match llen mo x.1 with
  | some lo => F (x.2.getD 0 - lo)
  | none => F (x.2.getD 0)

theorem sumOver_view (F : Int → Int) (ps po : List Part) :
    sumOver F (ps.map gLen) (po.map gLen) =
      ((view ps).map (tA F (po.map gLen))).sum +
      (((view po).filter (fun x => (llen (ps.map gLen) x.1).isNone)).map (fun x => F (x.2.getD 0))).sum := by
  unfold sumOver
  congr 1
  · unfold view
    rw [List.map_map, List.map_map]
    congr 1
    apply List.map_congr_left
    intro p _
    simp only [Function.comp, tA, llen, gLen]
    cases lookup (po.map gLen) p.side <;> rfl
  · unfold view
    rw [List.filter_map, List.filter_map, List.map_map, List.map_map]
    congr 1
    have : po.filter ((fun p => (lookup (ps.map gLen) p.1).isNone) ∘ gLen) =
        po.filter ((fun x => (llen (ps.map gLen) x.1).isNone) ∘ fun p => (p.side, p.len)) := by
      apply List.filter_congr
      intro p _
      simp only [Function.comp, gLen, llen]
      cases lookup (ps.map gLen) p.side <;> rfl
    rw [this]
    rfl

/-- the weighted sum depends on the two partition maps only up to `PartEq` -/
theorem sumOver_partEq (F : Int → Int) {ps ps' po po' : List Part} (h1 : PartEq ps ps') (h2 : PartEq po po') :
    sumOver F (ps'.map gLen) (po'.map gLen) = sumOver F (ps.map gLen) (po.map gLen) := by
  rw [sumOver_view, sumOver_view]
  have e1 : tA F (po'.map gLen) = tA F (po.map gLen) := by
    funext x
    unfold tA
    rw [h2.llen_eq]
  have e2 : (fun x : Side × Option Int => (llen (ps'.map gLen) x.1).isNone) =
      (fun x => (llen (ps.map gLen) x.1).isNone) := by
    funext x
    rw [h1.llen_eq]
  rw [e1, e2]
  congr 1
  · exact perm_sum_int ((h1.view_perm.symm).map _)
  · exact perm_sum_int (((h2.view_perm.symm).filter _).map _)

/-- `s'` is indistinguishable from `s` for the weighted distances -/
structure WSame (s s' : Rose) : Prop where
  parts : ∀ ps, partitions s = .ok ps → ∃ ps', partitions s' = .ok ps' ∧ PartEq ps ps'
  errs : ∀ e, partitions s = .err e → partitions s' = .err e

theorem withLengths_partEq {ps ps' : List Part} (h : PartEq ps ps') :
    (withLengths ps = .err "MissingBranchLengths" ∧ withLengths ps' = .err "MissingBranchLengths") ∨
    (withLengths ps = .ok (ps.map gLen) ∧ withLengths ps' = .ok (ps'.map gLen)) := by
  rcases withLengths_cases ps with h1 | h1
  · left; exact ⟨h1, h.wl_err h1⟩
  · right; exact ⟨h1, h.wl_ok _ h1⟩

theorem weighted_congr {s s' o o' : Rose} (h1 : WSame s s') (h2 : WSame o o') :
    wrf s' o' = wrf s o ∧ kf2 s' o' = kf2 s o := by
  rcases partitions_cases s with ⟨e, _, hps⟩ | ⟨ls, ps, _, hps⟩
  · have hps' := h1.errs e hps
    simp [wrf, kf2, hps, hps']
  obtain ⟨ps', hps', he1⟩ := h1.parts ps hps
  rcases withLengths_partEq he1 with ⟨w1, w1'⟩ | ⟨w1, w1'⟩
  · simp [wrf, kf2, hps, hps', w1, w1']
  rcases partitions_cases o with ⟨e, _, hpo⟩ | ⟨lo, po, _, hpo⟩
  · have hpo' := h2.errs e hpo
    simp [wrf, kf2, hps, hps', w1, w1', hpo, hpo']
  obtain ⟨po', hpo', he2⟩ := h2.parts po hpo
  rcases withLengths_partEq he2 with ⟨w2, w2'⟩ | ⟨w2, w2'⟩
  · simp [wrf, kf2, hps, hps', w1, w1', hpo, hpo', w2, w2']
  simp only [wrf, kf2, hps, hps', w1, w1', hpo, hpo', w2, w2', QR.bind_ok, QR.pure_eq, QR.ok.injEq]
  exact ⟨sumOver_partEq _ he1 he2, sumOver_partEq _ he1 he2⟩

theorem wSame_of_reorder {s s' : Rose} (h : ReorderR s s') : WSame s s' :=
  ⟨partitions_reorder h, partitions_reorder_err h⟩

/-- **the weighted distances do not see child order**: reordering either tree (or both) leaves weighted RF and
    the squared branch score unchanged (values and errors) -/
theorem weighted_reorder {s s' o o' : Rose} (h1 : ReorderR s s') (h2 : ReorderR o o') :
    wrf s' o' = wrf s o ∧ kf2 s' o' = kf2 s o :=
  weighted_congr (wSame_of_reorder h1) (wSame_of_reorder h2)

/-! ### the combined report -/

theorem compareTopologies_eq (s o : Rose) (ps po : List Part) (ls lo : List String)
    (hps : partitions s = .ok ps) (hpo : partitions o = .ok po)
    (hls : leafIndex s = .ok ls) (hlo : leafIndex o = .ok lo)
    (hms : withLengths ps = .ok (ps.map gLen)) (hmo : withLengths po = .ok (po.map gLen)) :
    compareTopologies s o = if ls != lo then .err "DifferentTipIndices" else
      .ok (if C06.corrected s o ls lo (C06.delta ps po) then C06.delta ps po + 2 else C06.delta ps po,
        po.length + ps.length, sumOver iabs (ps.map gLen) (po.map gLen),
        sumOver (fun x => x * x) (ps.map gLen) (po.map gLen)) := by
  have k1 : (ps.map gLen).map (·.1) = sides ps := withLengths_keys ps _ hms
  have k2 : (po.map gLen).map (·.1) = sides po := withLengths_keys po _ hmo
  simp only [compareTopologies, hps, hpo, hls, hlo, hms, hmo, QR.bind_ok, QR.pure_eq, k1, k2, List.length_map,
    C06.corrected, C06.delta]
  split <;> rfl

theorem compareTopologies_congr {s s' o o' : Rose} (h1 : RFSame s s') (w1 : WSame s s')
    (h2 : RFSame o o') (w2 : WSame o o') : compareTopologies s' o' = compareTopologies s o := by
  rcases partitions_cases s with ⟨e, _, hps⟩ | ⟨ls, ps, hls, hps⟩
  · have hps' := w1.errs e hps
    simp [compareTopologies, hps, hps']
  obtain ⟨ps', hps', he1⟩ := w1.parts ps hps
  rcases withLengths_partEq he1 with ⟨m1, m1'⟩ | ⟨m1, m1'⟩
  · simp [compareTopologies, hps, hps', m1, m1']
  rcases partitions_cases o with ⟨e, _, hpo⟩ | ⟨lo, po, hlo, hpo⟩
  · have hpo' := w2.errs e hpo
    simp [compareTopologies, hps, hps', m1, m1', hpo, hpo']
  obtain ⟨po', hpo', he2⟩ := w2.parts po hpo
  rcases withLengths_partEq he2 with ⟨m2, m2'⟩ | ⟨m2, m2'⟩
  · simp [compareTopologies, hps, hps', m1, m1', hpo, hpo', m2, m2']
  have hls' : leafIndex s' = .ok ls := by rw [h1.idx, hls]
  have hlo' : leafIndex o' = .ok lo := by rw [h2.idx, hlo]
  rw [compareTopologies_eq s' o' ps' po' ls lo hps' hpo' hls' hlo' m1' m2',
    compareTopologies_eq s o ps po ls lo hps hpo hls hlo m1 m2]
  have hd : C06.delta ps' po' = C06.delta ps po := by
    unfold C06.delta
    rw [← he1.length, ← he2.length,
      inter_congr (sides po') (sides po) (sides ps') (sides ps) he2.perm.symm (fun x => (he1.mem x).symm)]
  have hc : ∀ d, C06.corrected s' o' ls lo d = C06.corrected s o ls lo d := by
    intro d
    unfold C06.corrected
    rw [h1.rooted, h2.rooted, sameSet_congr (rootSides ls s') (rootSides ls s) (rootSides lo o') (rootSides lo o)
      (fun x => (h1.roots ls x).symm) (fun x => (h2.roots lo x).symm)]
  rw [hd, hc, he1.length, he2.length, sumOver_partEq _ he1 he2, sumOver_partEq _ he1 he2]

/-- the combined report does not see child order either -/
theorem compareTopologies_reorder {s s' o o' : Rose} (h1 : ReorderR s s') (h2 : ReorderR o o') :
    compareTopologies s' o' = compareTopologies s o :=
  compareTopologies_congr (rfSame_of_reorder h1) (wSame_of_reorder h1) (rfSame_of_reorder h2) (wSame_of_reorder h2)

end SPM
