import PhyloModel.Split.ShapeEq
import PhyloModel.Arena.OpsInv
import PhyloModel.Arena.Compress3
/-! Bridge from the arena operation `compress` (every `compress_node` step: splice a one-child non-root node
    out, append its child to the END of the grandparent's child list, add the two lengths, repair depths) to
    the rose level: the abstraction of the result is `ShapeEq` (child reordering + unary nodes + decoration) to
    the abstraction of the input.  Hence `compress` changes neither the leaf index nor the reported set. -/
namespace SPM
open AR

theorem resetF_name : ∀ (f : Nat) (a a' : Arena) (x d : Nat), resetF f a x d = some a' →
    ∀ i, (nd a' i).name = (nd a i).name := by
  intro f
  induction f with
  | zero => intro a a' x d h; simp [resetF] at h
  | succ f ih =>
    intro a a' x d h
    simp only [resetF] at h
    split at h
    next hl =>
      have h0 : ∀ i, (nd (a.setIfInBounds x { nd a x with depth := d }) i).name = (nd a i).name := by
        intro i
        rw [nd_set]; split <;> simp_all
      have loop : ∀ (cs : List Nat) (b b' : Arena),
          cs.foldlM (fun acc c => resetF f acc c (d + 1)) b = some b' → ∀ i, (nd b' i).name = (nd b i).name := by
        intro cs
        induction cs with
        | nil => intro b b' hb; simp [List.foldlM] at hb; subst hb; intro i; rfl
        | cons c cs ihc =>
          intro b b' hb
          simp only [List.foldlM_cons] at hb
          cases hc : resetF f b c (d + 1) with
          | none => simp [hc] at hb
          | some b1 =>
            simp only [hc, Option.bind_eq_bind, Option.bind_some] at hb
            intro i
            rw [ihc b1 b' hb i, ih b b1 c (d + 1) hc i]
      intro i
      rw [loop _ _ _ h i, h0 i]
    · cases h

/-- what one successful `compress_node v` does to the fields the abstraction reads -/
structure CFrame (a a' : Arena) (v p c : Nat) : Prop where
  size : a'.size = a.size
  vp : v ≠ p
  vc : v ≠ c
  pc : p ≠ c
  kidsv : (nd a v).children = [c]
  vmem : v ∈ (nd a p).children
  vonly : ∀ i, isLive a i = true → v ∈ (nd a i).children → i = p
  nodupp : (nd a p).children.Nodup
  name : ∀ i, i ≠ v → (nd a' i).name = (nd a i).name
  deadv : isLive a' v = false
  livev : isLive a v = true
  liveo : ∀ i, i ≠ v → isLive a' i = isLive a i
  kidso : ∀ i, i ≠ v → i ≠ p → (nd a' i).children = (nd a i).children
  kidsp : (nd a' p).children = ((nd a p).children ++ [c]).erase v
  paro : ∀ i, i ≠ v → i ≠ c → (nd a' i).parent = (nd a i).parent
  parc' : (nd a' c).parent = some p
  parc : (nd a c).parent = some v
  parv : (nd a v).parent = some p

theorem cframe_of_splice {a a' : Arena} {v p c : Nat} (e : Option Int) (g : Good a) (hlv : live a v)
    (hpar : (nd a v).parent = some p) (hch : (nd a v).children = [c])
    (h2 : resetF (fuelOf a) (splice a v p c e) c ((nd (splice a v p c e) p).depth + 1) = some a') :
    CFrame a a' v p c := by
  have hinv := g.1
  have hc := hinv.child_ok; have hpo := hinv.parent_ok
  obtain ⟨hlp, hvmem⟩ := hpo v p hlv hpar
  obtain ⟨hlc, hcpar, hcdep, _⟩ := hc v c hlv (by simp [hch])
  have hvdep := (hc p v hlp hvmem).2.2.1
  have hvc : v ≠ c := by intro h; subst h; omega
  have hvp : v ≠ p := by intro h; subst h; omega
  have hpc : p ≠ c := by intro h; subst h; omega
  have hsame := resetF_same _ _ _ _ _ h2
  have hname := resetF_name _ _ _ _ _ h2
  have hns := nd_splice a v p c e hlv.1 hlp.1 hlc.1 hpc hvc hvp
  have hsz : (splice a v p c e).size = a.size := by simp [splice]
  have hlive' : ∀ i, isLive a' i = (decide (i < a.size) && !(nd (splice a v p c e) i).deleted) := by
    intro i
    simp only [isLive, hsame.1, hsz, (hsame.2 i).2.2.2.2]
  refine ⟨by rw [hsame.1, hsz], hvp, hvc, hpc, hch, hvmem, ?_, hinv.nodup p, ?_, ?_, (isLive_iff a v).2 hlv, ?_, ?_, ?_,
    ?_, ?_, hcpar, hpar⟩
  · intro i hli hvi
    have := (hc i v ((isLive_iff a i).1 hli) hvi).2.1
    rw [hpar] at this
    exact (Option.some.inj this).symm
  · intro i hi
    rw [hname, hns]
    simp only [hi, ↓reduceIte]
    by_cases h2' : i = p
    · subst h2'; cases e <;> simp [removeChild, setCedge]
    · by_cases h3 : i = c
      · subst h3; simp [h2']
      · simp [h2', h3]
  · rw [hlive', hns]; simp [dead]
  · intro i hi
    rw [hlive', hns]
    simp only [hi, ↓reduceIte, isLive]
    by_cases h2' : i = p
    · subst h2'; cases e <;> simp [removeChild, setCedge]
    · by_cases h3 : i = c
      · subst h3; simp [h2']
      · simp [h2', h3]
  · intro i h1 h2'
    rw [(hsame.2 i).2.1, hns]
    simp only [h1, h2', ↓reduceIte]
    by_cases h3 : i = c
    · subst h3; simp
    · simp [h3]
  · rw [(hsame.2 p).2.1, hns]
    simp only [Ne.symm hvp, ↓reduceIte]
    cases e <;> simp [removeChild, setCedge]
  · intro i h1 h3
    rw [(hsame.2 i).1, hns]
    by_cases h2' : i = p
    · subst h2'; cases e <;> simp [h1, removeChild, setCedge]
    · simp [h1, h2', h3]
  · rw [(hsame.2 c).1, hns]; simp [Ne.symm hvc, Ne.symm hpc]

theorem erase_mid (L1 L2 : List Nat) (v c : Nat) (h : v ∉ L1) :
    ((L1 ++ v :: L2) ++ [c]).erase v = L1 ++ (L2 ++ [c]) := by
  rw [List.append_assoc, List.erase_append_right _ h, List.cons_append, List.erase_cons_head]

/-- the abstraction below any slot other than the spliced one, before and after -/
theorem absF_cframe {a a' : Arena} {v p c : Nat} (F : CFrame a a' v p c) :
    ∀ (f x : Nat) (t : Rose), x ≠ v → absF f a x = some t → ∃ t', absF f a' x = some t' ∧ ShapeEq t t' := by
  intro f
  induction f with
  | zero => intro x t _ h; simp [absF] at h
  | succ f ih =>
    intro x t hxv h
    obtain ⟨hl, ks, hm, rfl⟩ := (absF_some_iff a f x t).1 h
    have hl' : isLive a' x = true := by rw [F.liveo x hxv]; exact hl
    by_cases hxp : x = p
    · subst hxp
      obtain ⟨L1, L2, hcs⟩ := List.append_of_mem F.vmem
      have hnd := F.nodupp
      rw [hcs] at hnd hm
      have hv1 : v ∉ L1 := by
        intro hv
        have := (List.nodup_append.1 hnd).2.2 v hv v List.mem_cons_self
        exact this rfl
      have hv2 : v ∉ L2 := by
        have := (List.nodup_append.1 hnd).2.1
        exact (List.nodup_cons.1 this).1
      obtain ⟨r1, r2, hm1, hm2, rfl⟩ := (mapM_append_some _ L1 (v :: L2) ks).1 hm
      obtain ⟨tv, r2', hmv, hm3, rfl⟩ := (mapM_cons_some _ v L2 r2).1 hm2
      -- the spliced node: a unary node above the abstraction of `c`
      cases f with
      | zero => simp [absF] at hmv
      | succ f0 =>
        obtain ⟨_, kv, hkv, rfl⟩ := (absF_some_iff a f0 v tv).1 hmv
        rw [F.kidsv] at hkv
        obtain ⟨tc, htc, rfl⟩ := (mapM_single_some _ c kv).1 hkv
        have htc1 : absF (f0 + 1) a c = some tc := absF_mono a f0 c tc htc
        obtain ⟨tc', htc', hSc⟩ := ih c tc (Ne.symm F.vc) htc1
        obtain ⟨r1', hm1', hF1⟩ := mapM_forall2 (fun c => absF (f0 + 1) a c) (fun c => absF (f0 + 1) a' c) ShapeEq L1 r1 hm1
          (fun ch hch y hy => ih ch y (fun e => hv1 (e ▸ hch)) hy)
        obtain ⟨r2'', hm3', hF2⟩ := mapM_forall2 (fun c => absF (f0 + 1) a c) (fun c => absF (f0 + 1) a' c) ShapeEq L2 r2' hm3
          (fun ch hch y hy => ih ch y (fun e => hv2 (e ▸ hch)) hy)
        have hk' : (nd a' x).children = L1 ++ (L2 ++ [c]) := by
          rw [F.kidsp, hcs]; exact erase_mid L1 L2 v c hv1
        have hm' : (nd a' x).children.mapM (fun c => absF (f0 + 1) a' c) = some (r1' ++ (r2'' ++ [tc'])) := by
          rw [hk']
          exact (mapM_append_some _ L1 (L2 ++ [c]) _).2 ⟨r1', r2'' ++ [tc'], hm1',
            (mapM_append_some _ L2 [c] _).2 ⟨r2'', [tc'], hm3', (mapM_single_some _ c _).2 ⟨tc', htc', rfl⟩, rfl⟩, rfl⟩
        refine ⟨.node x (nd a' x).name (nd a' x).pedge (nd a' x).depth (r1' ++ (r2'' ++ [tc'])),
          (absF_some_iff a' (f0 + 1) x _).2 ⟨hl', _, hm', rfl⟩, ?_⟩
        rw [F.name x hxv]
        -- 1. inside the children left of `v`
        have s1 := ShapeEq.kids_pointwise x (nd a x).name (nd a x).pedge (nd a x).depth r1 r1' hF1 []
          (.node v (nd a v).name (nd a v).pedge (nd a v).depth [tc] :: r2')
        -- 2. inside the unary node
        have s2 : ShapeEq (.node x (nd a x).name (nd a x).pedge (nd a x).depth
              (r1' ++ .node v (nd a v).name (nd a v).pedge (nd a v).depth [tc] :: r2'))
            (.node x (nd a x).name (nd a x).pedge (nd a x).depth
              (r1' ++ .node v (nd a v).name (nd a v).pedge (nd a v).depth [tc'] :: r2')) :=
          ShapeEq.inside (ShapeEq.inside (l1 := []) (l2 := []) hSc)
        -- 3. inside the children right of `v`
        have s3 := ShapeEq.kids_pointwise x (nd a x).name (nd a x).pedge (nd a x).depth r2' r2'' hF2
          (r1' ++ [.node v (nd a v).name (nd a v).pedge (nd a v).depth [tc']]) []
        -- 4. remove the unary node
        have s4 : ShapeEq (.node x (nd a x).name (nd a x).pedge (nd a x).depth
              (r1' ++ .node v (nd a v).name (nd a v).pedge (nd a v).depth [tc'] :: r2''))
            (.node x (nd a x).name (nd a x).pedge (nd a x).depth (r1' ++ tc' :: r2'')) :=
          .unary (.symm (.step .here))
        -- 5. move the child to the end
        have s5 : ShapeEq (.node x (nd a x).name (nd a x).pedge (nd a x).depth (r1' ++ tc' :: r2''))
            (.node x (nd a x).name (nd a x).pedge (nd a x).depth (r1' ++ (r2'' ++ [tc']))) :=
          .reorder (.here ((List.perm_append_comm (l₁ := [tc']) (l₂ := r2'')).append_left r1'))
        -- 6. decoration of the node itself
        have s6 := ShapeEq.relabel x (nd a x).name (nd a x).pedge (nd a x).depth (r1' ++ (r2'' ++ [tc']))
          x (nd a' x).pedge (nd a' x).depth
        simp only [List.nil_append, List.append_nil, List.append_assoc, List.cons_append] at s1 s3
        exact .trans s1 (.trans s2 (.trans s3 (.trans s4 (.trans s5 s6))))
    · have hk : (nd a' x).children = (nd a x).children := F.kidso x hxv hxp
      have hvn : ∀ ch ∈ (nd a x).children, ch ≠ v := fun ch hch e => hxp (F.vonly x hl (e ▸ hch))
      obtain ⟨ks', hm', hF⟩ := mapM_forall2 (fun c => absF f a c) (fun c => absF f a' c) ShapeEq _ ks hm
        (fun ch hch y hy => ih ch y (hvn ch hch) hy)
      refine ⟨.node x (nd a' x).name (nd a' x).pedge (nd a' x).depth ks',
        (absF_some_iff a' f x _).2 ⟨hl', ks', by rw [hk]; exact hm', rfl⟩, ?_⟩
      rw [F.name x hxv]
      have h1 := ShapeEq.kids_pointwise x (nd a x).name (nd a x).pedge (nd a x).depth ks ks' hF [] []
      simp only [List.nil_append, List.append_nil] at h1
      exact .trans h1 (ShapeEq.relabel _ _ _ _ _ _ _ _)

theorem getRoot_cframe {a a' : Arena} {v p c : Nat} (F : CFrame a a' v p c) : getRoot a' = getRoot a := by
  unfold getRoot
  rw [F.size]
  apply find?_congr'
  intro i _
  by_cases hiv : i = v
  · subst hiv
    rw [F.deadv, F.parv]; simp
  · rw [F.liveo i hiv]
    by_cases hic : i = c
    · subst hic
      rw [F.parc', F.parc]; rfl
    · rw [F.paro i hiv hic]

theorem absRoot_cframe {a a' : Arena} {v p c : Nat} (F : CFrame a a' v p c) (t : Rose) (ht : absRoot a = .ok t) :
    ∃ t', absRoot a' = .ok t' ∧ ShapeEq t t' := by
  unfold absRoot root at ht ⊢
  rw [getRoot_cframe F]
  cases hr : getRoot a with
  | none => rw [hr] at ht; simp [QR.ofOpt] at ht
  | some r =>
    rw [hr] at ht
    simp only [QR.ofOpt, QR.bind_ok] at ht ⊢
    have hfuel : fuelOf a' = fuelOf a := by unfold fuelOf; rw [F.size]
    rw [hfuel]
    have hrv : r ≠ v := by
      intro e
      subst e
      have := List.find?_some hr
      rw [F.parv] at this
      simp at this
    cases hf : absF (fuelOf a) a r with
    | none => rw [hf] at ht; cases ht
    | some t0 =>
      rw [hf] at ht
      simp only [QR.ok.injEq] at ht
      subst ht
      obtain ⟨t', h1, h2⟩ := absF_cframe F (fuelOf a) r t0 hrv hf
      exact ⟨t', by rw [h1], h2⟩

/-- one `compress_node` call, whatever its outcome: the arena stays good and the abstraction stays in the same
    `ShapeEq` class -/
theorem compressNode_shape {a a' : Arena} {v : Nat} {out : Out} (g : Good a) (h : compressNode a v = (a', out))
    (t : Rose) (ht : absRoot a = .ok t) : Good a' ∧ ∃ t', absRoot a' = .ok t' ∧ ShapeEq t t' := by
  have same : ∀ {o : Out}, (a, o) = (a', out) → Good a' ∧ ∃ t', absRoot a' = .ok t' ∧ ShapeEq t t' := by
    intro o he
    have : a = a' := by injection he
    subst this
    exact ⟨g, t, ht, ShapeEq.refl t⟩
  unfold compressNode at h
  split at h
  · exact same h
  next hv =>
    have hlv : live a v := (isLive_iff a v).1 (by simpa using hv)
    split at h
    next p c hpar hch =>
      split at h
      · exact same h
      next e he =>
        split at h
        · exact same h
        · obtain ⟨a2, h2, g2⟩ := compress_core v p c e g hlv hpar hch
          simp only [h2] at h
          have ha : a2 = a' := by injection h
          subst ha
          exact ⟨g2, absRoot_cframe (cframe_of_splice e g hlv hpar hch h2) t ht⟩
    · exact same h

theorem compressLoop_shape : ∀ (vs : List Nat) {a a' : Arena} {out : Out}, Good a → compressLoop vs a = (a', out) →
    ∀ t, absRoot a = .ok t → Good a' ∧ ∃ t', absRoot a' = .ok t' ∧ ShapeEq t t'
  | [], a, a', out, g, h, t, ht => by
    simp only [compressLoop] at h
    have : a = a' := by injection h
    subst this
    exact ⟨g, t, ht, ShapeEq.refl t⟩
  | v :: vs, a, a', out, g, h, t, ht => by
    rw [compressLoop] at h
    cases hc : compressNode a v with
    | mk a1 o1 =>
      obtain ⟨g1, t1, ht1, hs1⟩ := compressNode_shape g hc t ht
      rw [hc] at h
      cases o1 with
      | ok x =>
        simp only at h
        obtain ⟨g2, t2, ht2, hs2⟩ := compressLoop_shape vs g1 h t1 ht1
        exact ⟨g2, t2, ht2, .trans hs1 hs2⟩
      | err k =>
        simp only at h
        have : a1 = a' := by injection h
        subst this
        exact ⟨g1, t1, ht1, hs1⟩
      | diverge =>
        simp only at h
        have : a1 = a' := by injection h
        subst this
        exact ⟨g1, t1, ht1, hs1⟩
      | panic =>
        simp only at h
        have : a1 = a' := by injection h
        subst this
        exact ⟨g1, t1, ht1, hs1⟩

/-- **`compress` keeps the unrooted leaf-labelled tree**: whatever its outcome, the abstraction of the resulting
    arena is related to the abstraction of the input by child reordering and unary-node removal (plus
    decoration: the summed lengths, the repaired depths) -/
theorem compress_shape {a : Arena} (g : Good a) (t : Rose) (ht : absRoot a = .ok t) :
    ∃ t', absRoot (compress a).1 = .ok t' ∧ ShapeEq t t' := by
  unfold compress
  cases h : compressLoop (toCompress a) a with
  | mk a' out => exact (compressLoop_shape _ g h t ht).2

/-- hence `compress` changes neither the leaf index nor the reported bipartition set, and the compressed tree
    is at RF distance zero from the original -/
theorem compress_keeps_splits {a : Arena} (g : Good a) (t : Rose) (ht : absRoot a = .ok t) :
    ∃ t', absRoot (compress a).1 = .ok t' ∧ leafIndex t' = leafIndex t ∧
      (∀ ps, partitions t = .ok ps → ∃ ps', partitions t' = .ok ps' ∧ (∀ x, x ∈ sides ps ↔ x ∈ sides ps') ∧
        rf t t' = .ok 0) := by
  obtain ⟨t', h1, h2⟩ := compress_shape g t ht
  have hr := sameUnrooted_report h2.sameUnrooted
  refine ⟨t', h1, hr.1, ?_⟩
  intro ps hps
  obtain ⟨ps', h3, h4⟩ := hr.2 ps hps
  exact ⟨ps', h3, h4, rf_sameUnrooted_zero h2.sameUnrooted ps hps⟩

end SPM
