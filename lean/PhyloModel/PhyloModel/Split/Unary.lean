import PhyloModel.Split.RootStyle
/-! Unary nodes on the executable rose trees: inserting or removing a node with exactly one child (at any
    child position, any depth; also above the root) changes neither the leaf index nor the reported set. -/
namespace SPM
open AR

/-- one insertion of a unary node above the subtree `k` at some child position, anywhere in the tree -/
inductive UnaryStep : Rose → Rose → Prop where
  | here {i n l d l1 l2 k iu nu lu du} :
      UnaryStep (.node i n l d (l1 ++ k :: l2)) (.node i n l d (l1 ++ (.node iu nu lu du [k]) :: l2))
  | inside {i n l d l1 l2 k k'} : UnaryStep k k' →
      UnaryStep (.node i n l d (l1 ++ k :: l2)) (.node i n l d (l1 ++ k' :: l2))
  /-- decoration the split machinery's SET result never reads: the id, length and depth of any node and the
      name of an internal node may change too (e.g. the crate's `compress` adds the removed node's length to
      its child) -/
  | relabel {i n l d ks i' n' l' d'} : (ks ≠ [] ∨ n = n') →
      UnaryStep (.node i n l d ks) (.node i' n' l' d' ks)

/-- insertions and removals of unary nodes, composed -/
inductive UnaryEq : Rose → Rose → Prop where
  | step {t t'} : UnaryStep t t' → UnaryEq t t'
  | refl {t} : UnaryEq t t
  | symm {t t'} : UnaryEq t t' → UnaryEq t' t
  | trans {a b c} : UnaryEq a b → UnaryEq b c → UnaryEq a c

/-- what unary insertions preserve -/
structure UEqv (t t' : Rose) : Prop where
  tips : tipNames t = tipNames t'
  leafy : t.kids = [] ↔ t'.kids = []
  rootLen : t.kids.length = t'.kids.length
  rs : ∀ all, t.kids.map (sideOf all) = t'.kids.map (sideOf all)
  sides : ∀ all : List String, all.Nodup → ∀ x, trivial x = false →
    (x ∈ (branches all t).map (·.1) ↔ x ∈ (branches all t').map (·.1))

theorem sideOf_of_tips_eq (all : List String) (t t' : Rose) (h : tipNames t = tipNames t') :
    sideOf all t = sideOf all t' := by
  unfold sideOf; rw [h]

theorem UEqv.headB {t t' : Rose} (h : UEqv t t') (all : List String) :
    (headB all t).map (·.1) = (headB all t').map (·.1) := by
  unfold SPM.headB
  by_cases hk : t.kids = []
  · rw [if_pos hk, if_pos (h.leafy.1 hk)]
  · rw [if_neg hk, if_neg (fun h' => hk (h.leafy.2 h')), sideOf_of_tips_eq all t t' h.tips]
    rfl

theorem UEqv.refl (t : Rose) : UEqv t t :=
  ⟨rfl, Iff.rfl, rfl, fun _ => rfl, fun _ _ _ _ => Iff.rfl⟩

theorem UEqv.symm {t t' : Rose} (h : UEqv t t') : UEqv t' t :=
  ⟨h.tips.symm, h.leafy.symm, h.rootLen.symm, fun all => (h.rs all).symm,
   fun all hnd x hx => (h.sides all hnd x hx).symm⟩

theorem UEqv.trans {a b c : Rose} (h1 : UEqv a b) (h2 : UEqv b c) : UEqv a c :=
  ⟨h1.tips.trans h2.tips, h1.leafy.trans h2.leafy,
   h1.rootLen.trans h2.rootLen, fun all => (h1.rs all).trans (h2.rs all),
   fun all hnd x hx => (h1.sides all hnd x hx).trans (h2.sides all hnd x hx)⟩

theorem tipNames_unary (iu : Nat) (nu : Option String) (lu : Option Int) (du : Nat) (k : Rose) :
    tipNames (.node iu nu lu du [k]) = tipNames k := by
  rw [tipNames_cons, tipNamesL_cons, tipNamesL_nil, List.append_nil]

theorem branches_mid (all : List String) (i : Nat) (n : Option String) (l : Option Int) (d : Nat)
    (l1 l2 : List Rose) (k : Rose) :
    branches all (.node i n l d (l1 ++ k :: l2)) =
      branchesL all l1 ++ (headB all k ++ branches all k ++ branchesL all l2) := by
  rw [branches_node, branchesL_append, branchesL_cons]

theorem tipNames_mid (i : Nat) (n : Option String) (l : Option Int) (d : Nat) (l1 l2 : List Rose) (k : Rose) :
    tipNames (.node i n l d (l1 ++ k :: l2)) = l1.flatMap tipNames ++ (tipNames k ++ l2.flatMap tipNames) := by
  rw [tipNames_node_ne _ _ _ _ _ (by simp)]
  simp only [List.flatMap_append, List.flatMap_cons]

theorem unaryStep_ueqv {t t' : Rose} (h : UnaryStep t t') : UEqv t t' := by
  induction h with
  | @here i n l d l1 l2 k iu nu lu du =>
    refine ⟨?_, by simp [Rose.kids], by simp [Rose.kids], ?_, ?_⟩
    · rw [tipNames_mid, tipNames_mid, tipNames_unary]
    · intro all
      simp only [Rose.kids, List.map_append, List.map_cons]
      rw [sideOf_of_tips_eq all _ k (tipNames_unary iu nu lu du k)]
    · intro all hnd x hx
      rw [branches_mid, branches_mid, branches_node, branchesL_cons, branchesL_nil]
      have hs : sideOf all (.node iu nu lu du [k]) = sideOf all k :=
        sideOf_of_tips_eq all _ k (tipNames_unary iu nu lu du k)
      have hh : headB all (.node iu nu lu du [k]) = [(sideOf all k, du, lu)] := by
        simp [headB, Rose.kids, Rose.depth, Rose.len, hs]
      rw [hh]
      simp only [List.map_append, List.mem_append, List.map_cons, List.map_nil,
        List.append_nil, List.mem_cons, List.not_mem_nil, or_false]
      constructor
      · rintro (h | (h | h) | h)
        · exact Or.inl h
        · exact Or.inr (Or.inl (Or.inr (Or.inl h)))
        · exact Or.inr (Or.inl (Or.inr (Or.inr h)))
        · exact Or.inr (Or.inr h)
      · rintro (h | (h | h | h) | h)
        · exact Or.inl h
        · -- the new entry: `k` is internal (else its side is trivial) and already contributes that side
          have hk : k.kids ≠ [] := by
            intro hk
            have := trivial_sideOf_tip all hnd k hk
            rw [← h, hx] at this
            cases this
          refine Or.inr (Or.inl (Or.inl ?_))
          simp [headB, hk, h]
        · exact Or.inr (Or.inl (Or.inl h))
        · exact Or.inr (Or.inl (Or.inr h))
        · exact Or.inr (Or.inr h)
  | @inside i n l d l1 l2 k k' _ ih =>
    refine ⟨?_, by simp [Rose.kids], by simp [Rose.kids], ?_, ?_⟩
    · rw [tipNames_mid, tipNames_mid, ih.tips]
    · intro all
      simp only [Rose.kids, List.map_append, List.map_cons]
      rw [sideOf_of_tips_eq all k k' ih.tips]
    · intro all hnd x hx
      rw [branches_mid, branches_mid]
      have := ih.sides all hnd x hx
      simp only [List.map_append, List.mem_append, this, ih.headB all]
  | @relabel i n l d ks i' n' l' d' hn =>
    have ht : tipNames (.node i n l d ks) = tipNames (.node i' n' l' d' ks) := by
      cases ks with
      | nil =>
        rcases hn with h | h
        · exact absurd rfl h
        · rw [tipNames_leaf, tipNames_leaf, h]
      | cons k ks => rw [tipNames_cons, tipNames_cons]
    refine ⟨ht, by simp [Rose.kids], by simp [Rose.kids], fun _ => rfl, ?_⟩
    intro all _ x _
    rw [branches_node, branches_node]

theorem unaryEq_ueqv {t t' : Rose} (h : UnaryEq t t') : UEqv t t' := by
  induction h with
  | step h => exact unaryStep_ueqv h
  | refl => exact UEqv.refl _
  | symm _ ih => exact ih.symm
  | trans _ _ ih1 ih2 => exact ih1.trans ih2

theorem leafIndex_of_tips_eq (t t' : Rose) (h : tipNames t = tipNames t') : leafIndex t' = leafIndex t := by
  unfold leafIndex; rw [h]

theorem mem_nbranches (all : List String) (t : Rose) (x : Side) :
    x ∈ (nbranches all t).map (·.1) ↔ (x ∈ (branches all t).map (·.1) ∧ trivial x = false) := by
  unfold nbranches
  simp only [List.mem_map, List.mem_filter]
  constructor
  · rintro ⟨b, ⟨hb, ht⟩, rfl⟩
    exact ⟨⟨b, hb, rfl⟩, by simpa using ht⟩
  · rintro ⟨⟨b, hb, rfl⟩, ht⟩
    exact ⟨b, ⟨hb, by simpa using ht⟩, rfl⟩

/-- generic transfer: same leaf index and same non-trivial branch sides give the same reported set -/
theorem partitions_same_set (t t' : Rose) (hidx : leafIndex t' = leafIndex t)
    (hs : ∀ all : List String, all.Nodup → ∀ x, trivial x = false →
      (x ∈ (branches all t).map (·.1) ↔ x ∈ (branches all t').map (·.1)))
    (ps : List Part) (hps : partitions t = .ok ps) :
    ∃ ps', partitions t' = .ok ps' ∧ ∀ x, x ∈ sides ps ↔ x ∈ sides ps' := by
  obtain ⟨all, hall⟩ := leafIndex_ok_of_partitions t ps hps
  have hall' : leafIndex t' = .ok all := by rw [hidx, hall]
  obtain ⟨ps', hps'⟩ := partitions_ok_of_leafIndex t' all hall'
  refine ⟨ps', hps', ?_⟩
  intro x
  rw [(partitions_spec t all ps hall hps).mem, (partitions_spec t' all ps' hall' hps').mem,
    mem_nbranches, mem_nbranches]
  constructor
  · rintro ⟨h1, h2⟩; exact ⟨(hs all (leafIndex_nodup t all hall) x h2).1 h1, h2⟩
  · rintro ⟨h1, h2⟩; exact ⟨(hs all (leafIndex_nodup t all hall) x h2).2 h1, h2⟩

/-- **unary nodes**: same leaf index (or the same error) -/
theorem leafIndex_unary {t t' : Rose} (h : UnaryEq t t') : leafIndex t' = leafIndex t :=
  leafIndex_of_tips_eq t t' (unaryEq_ueqv h).tips

/-- **unary nodes**: the reported set is unchanged -/
theorem partitions_unary {t t' : Rose} (h : UnaryEq t t') (ps : List Part) (hps : partitions t = .ok ps) :
    ∃ ps', partitions t' = .ok ps' ∧ ∀ x, x ∈ sides ps ↔ x ∈ sides ps' :=
  partitions_same_set t t' (leafIndex_unary h) (unaryEq_ueqv h).sides ps hps

theorem partitions_unary_err {t t' : Rose} (h : UnaryEq t t') (e : String) (hps : partitions t = .err e) :
    partitions t' = .err e := by
  rw [partitions_err_iff] at hps ⊢
  rw [leafIndex_unary h, hps]

/-- RF ignores unary nodes -/
theorem rf_unary_zero {t t' : Rose} (h : UnaryEq t t') (ps : List Part) (hps : partitions t = .ok ps) :
    rf t t' = .ok 0 := by
  obtain ⟨all, hall⟩ := leafIndex_ok_of_partitions t ps hps
  have hall' : leafIndex t' = .ok all := by rw [leafIndex_unary h, hall]
  obtain ⟨ps', hps', he⟩ := partitions_unary h ps hps
  exact C06.rf_zero_of_same_splits t t' ps ps' all hps hps' hall hall' he

/-! ### a unary node above the root -/

theorem ones_maskOf_full (all A : List String) (h : ∀ x ∈ all, x ∈ A) : ones (maskOf all A) = all.length := by
  induction all with
  | nil => rfl
  | cons a all ih =>
    have ih' := ih (fun x hx => h x (List.mem_cons_of_mem _ hx))
    have ha := h a List.mem_cons_self
    simp only [ones, maskOf] at ih' ⊢
    simp only [List.map_cons, List.contains_eq_mem, ha, decide_true, List.count_cons_self, List.length_cons,
      Nat.add_right_cancel_iff]
    simpa using ih'

/-- the branch above a subtree holding every leaf is never reported -/
theorem trivial_sideOf_full (all : List String) (t : Rose) (h : ∀ x ∈ all, x ∈ names t) :
    trivial (sideOf all t) = true := by
  rw [sideOf_eq, trivial_canon]
  have h1 := ones_maskOf_full all (names t) h
  have h2 : (maskOf all (names t)).length = all.length := by simp [maskOf]
  simp only [trivial, Bool.or_eq_true, decide_eq_true_eq]
  right; omega

/-- putting a unary node above the ROOT (the old root becomes a non-root internal node whose branch has every
    leaf on one side) does not change the reported set either -/
theorem partitions_unary_root (iu : Nat) (nu : Option String) (lu : Option Int) (du : Nat) (t : Rose)
    (ps : List Part) (hps : partitions t = .ok ps) :
    ∃ ps', partitions (.node iu nu lu du [t]) = .ok ps' ∧ ∀ x, x ∈ sides ps ↔ x ∈ sides ps' := by
  obtain ⟨all0, hall0⟩ := leafIndex_ok_of_partitions t ps hps
  have hidx : leafIndex (.node iu nu lu du [t]) = leafIndex t :=
    leafIndex_of_tips_eq _ _ (tipNames_unary iu nu lu du t).symm
  obtain ⟨ps', hps'⟩ := partitions_ok_of_leafIndex (.node iu nu lu du [t]) all0 (by rw [hidx, hall0])
  refine ⟨ps', hps', ?_⟩
  intro x
  rw [(partitions_spec t all0 ps hall0 hps).mem, (partitions_spec _ all0 ps' (by rw [hidx, hall0]) hps').mem,
    mem_nbranches, mem_nbranches, branches_node, branchesL_cons, branchesL_nil, List.append_nil]
  simp only [List.map_append, List.mem_append]
  constructor
  · rintro ⟨h1, h2⟩; exact ⟨Or.inr h1, h2⟩
  · rintro ⟨h1 | h1, h2⟩
    · exfalso
      unfold headB at h1
      split at h1
      · simp at h1
      · simp only [List.map_cons, List.map_nil, List.mem_singleton] at h1
        have := trivial_sideOf_full all0 t (fun y hy => (mem_leafIndex t all0 hall0 y).1 hy)
        rw [← h1, h2] at this
        cases this
    · exact ⟨h1, h2⟩

end SPM
