import PhyloModel.Split.RenameTree
import PhyloModel.Split.ReorderDist
/-! Distances under a consistent injective renaming of the taxa of both trees: RF (value, root correction and
    the different-leaf-set rejection), the normalised pair, weighted RF, the squared branch score and the
    combined report are unchanged. -/
namespace SPM
open AR

theorem partitions_cases (t : Rose) :
    (∃ e, leafIndex t = .err e ∧ partitions t = .err e) ∨
    (∃ all ps, leafIndex t = .ok all ∧ partitions t = .ok ps) := by
  rcases leafIndex_cases t with ⟨_, h⟩ | ⟨_, _, h⟩ | ⟨_, _, h⟩
  · left; exact ⟨_, h, (partitions_err_iff t _).2 h⟩
  · left; exact ⟨_, h, (partitions_err_iff t _).2 h⟩
  · right
    obtain ⟨ps, hps⟩ := partitions_ok_of_leafIndex t _ h
    exact ⟨_, ps, h, hps⟩

theorem isSide_of_mem_sides (t : Rose) (all : List String) (ps : List Part)
    (hall : leafIndex t = .ok all) (hps : partitions t = .ok ps) : ∀ x ∈ sides ps, IsSide all x := by
  intro x hx
  rw [(partitions_spec t all ps hall hps).mem] at hx
  obtain ⟨b, hb, rfl⟩ := List.mem_map.mp hx
  exact isSide_of_mem_branches all t b (List.mem_filter.1 hb).1

section
variable {f : String → String} (hf : Function.Injective f)
include hf

theorem mem_map_phi (all : List String) (B : List Side) (hB : ∀ b ∈ B, IsSide all b) (s : Side)
    (hs : IsSide all s) : phi f all s ∈ B.map (phi f all) ↔ s ∈ B := by
  rw [List.mem_map]
  constructor
  · rintro ⟨b, hb, he⟩
    rw [← (phi_inj hf all b s (hB b hb) hs).1 he]; exact hb
  · intro h; exact ⟨s, h, rfl⟩

theorem inter_map_phi (all : List String) (A B : List Side) (hA : ∀ a ∈ A, IsSide all a)
    (hB : ∀ b ∈ B, IsSide all b) : inter (A.map (phi f all)) (B.map (phi f all)) = inter A B := by
  unfold inter
  rw [List.filter_map, List.length_map]
  congr 1
  apply List.filter_congr
  intro a ha
  simp only [Function.comp, List.contains_eq_mem]
  rw [decide_eq_decide]
  exact mem_map_phi hf all B hB a (hA a ha)

omit hf in
theorem sameSet_iff (a b : List Side) : sameSet a b = true ↔ ∀ x, x ∈ a ↔ x ∈ b := by
  unfold sameSet
  simp only [Bool.and_eq_true, List.all_eq_true, List.contains_eq_mem, decide_eq_true_eq]
  constructor
  · rintro ⟨h1, h2⟩ x; exact ⟨h1 x, h2 x⟩
  · intro h; exact ⟨fun x => (h x).1, fun x => (h x).2⟩

omit hf in
theorem mem_rootSides (all : List String) (t : Rose) (x : Side) :
    x ∈ rootSides all t ↔ x ∈ t.kids.map (sideOf all) := by
  unfold rootSides; exact List.mem_eraseDups

theorem kids_sides_renameR (g : Option String → Option String) (all : List String) (t : Rose) :
    (renameR f g t).kids.map (sideOf (sigma f all)) = (t.kids.map (sideOf all)).map (phi f all) := by
  rw [kids_renameR, renameL_eq_map, List.map_map, List.map_map]
  apply List.map_congr_left
  intro k _
  exact sideOf_renameR hf g all k

theorem sameSet_rootSides_renameR (g g' : Option String → Option String) (all : List String) (s o : Rose) :
    sameSet (rootSides (sigma f all) (renameR f g s)) (rootSides (sigma f all) (renameR f g' o)) =
      sameSet (rootSides all s) (rootSides all o) := by
  rw [Bool.eq_iff_iff, sameSet_iff, sameSet_iff]
  simp only [mem_rootSides, kids_sides_renameR hf]
  have hS : ∀ x ∈ s.kids.map (sideOf all), IsSide all x := by
    intro x hx; obtain ⟨k, _, rfl⟩ := List.mem_map.mp hx; exact isSide_sideOf all k
  have hO : ∀ x ∈ o.kids.map (sideOf all), IsSide all x := by
    intro x hx; obtain ⟨k, _, rfl⟩ := List.mem_map.mp hx; exact isSide_sideOf all k
  constructor
  · intro h x
    constructor
    · intro hx
      have := (h (phi f all x)).1 (List.mem_map.mpr ⟨x, hx, rfl⟩)
      exact (mem_map_phi hf all _ hO x (hS x hx)).1 this
    · intro hx
      have := (h (phi f all x)).2 (List.mem_map.mpr ⟨x, hx, rfl⟩)
      exact (mem_map_phi hf all _ hS x (hO x hx)).1 this
  · intro h y
    constructor
    · intro hy
      obtain ⟨x, hx, rfl⟩ := List.mem_map.mp hy
      exact List.mem_map.mpr ⟨x, (h x).1 hx, rfl⟩
    · intro hy
      obtain ⟨x, hx, rfl⟩ := List.mem_map.mp hy
      exact List.mem_map.mpr ⟨x, (h x).2 hx, rfl⟩

omit hf in
theorem isRootedR_renameR (g : Option String → Option String) (t : Rose) :
    isRootedR (renameR f g t) = isRootedR t := by
  unfold isRootedR
  rw [kids_renameR, renameL_eq_map, List.length_map]

omit hf in
theorem leafIndex_sorted (t : Rose) (all : List String) (h : leafIndex t = .ok all) :
    all.Pairwise (fun x y => x ≤ y) := by
  obtain ⟨_, _, h3⟩ := (leafIndex_ok_iff t all).1 h
  rw [h3]; exact sortS_sorted _

/-- two leaf indices are equal iff their renamed indices are -/
theorem sigma_eq_iff (s o : Rose) (ls lo : List String) (hls : leafIndex s = .ok ls) (hlo : leafIndex o = .ok lo) :
    sigma f ls = sigma f lo ↔ ls = lo := by
  constructor
  · intro h
    apply sorted_perm_eq _ _ (leafIndex_sorted s ls hls) (leafIndex_sorted o lo hlo)
    rw [List.perm_ext_iff_of_nodup (leafIndex_nodup s ls hls) (leafIndex_nodup o lo hlo)]
    intro x
    have h1 := mem_sigma f ls (f x)
    have h2 := mem_sigma f lo (f x)
    rw [h] at h1
    constructor
    · intro hx
      obtain ⟨y, hy, he⟩ := h2.1 (h1.2 ⟨x, hx, rfl⟩)
      rw [← hf he]; exact hy
    · intro hx
      obtain ⟨y, hy, he⟩ := h1.1 (h2.2 ⟨x, hx, rfl⟩)
      rw [← hf he]; exact hy
  · intro h; rw [h]

/-- **RF is unchanged by a consistent renaming** of both trees: the value, the root correction, the rejection
    of different leaf sets, and every error -/
theorem rf_renameR (g g' : Option String → Option String) (s o : Rose) :
    rf (renameR f g s) (renameR f g' o) = rf s o := by
  rcases partitions_cases s with ⟨e, hls, hps⟩ | ⟨ls, ps, hls, hps⟩
  · have hps' := partitions_renameR_err hf g s e hps
    simp [rf, hps, hps']
  rcases partitions_cases o with ⟨e, hlo, hpo⟩ | ⟨lo, po, hlo, hpo⟩
  · have hps' := partitions_renameR hf g s ls ps hls hps
    have hpo' := partitions_renameR_err hf g' o e hpo
    simp [rf, hps, hps', hpo, hpo']
  have hps' := partitions_renameR hf g s ls ps hls hps
  have hpo' := partitions_renameR hf g' o lo po hlo hpo
  have hls' := leafIndex_renameR_ok hf g s ls hls
  have hlo' := leafIndex_renameR_ok hf g' o lo hlo
  rw [C06.rf_eq _ _ _ _ _ _ hps' hpo' hls' hlo', C06.rf_eq s o ps po ls lo hps hpo hls hlo]
  by_cases hne : ls = lo
  · subst hne
    simp only [bne_self_eq_false, Bool.false_eq_true, ↓reduceIte]
    have hd : C06.delta (ps.map (mapP f ls)) (po.map (mapP f ls)) = C06.delta ps po := by
      unfold C06.delta
      rw [sides_mapP, sides_mapP, inter_map_phi hf ls _ _ (isSide_of_mem_sides o ls po hlo hpo)
        (isSide_of_mem_sides s ls ps hls hps), List.length_map, List.length_map]
    have hc : C06.corrected (renameR f g s) (renameR f g' o) (sigma f ls) (sigma f ls)
        (C06.delta ps po) = C06.corrected s o ls ls (C06.delta ps po) := by
      unfold C06.corrected
      rw [isRootedR_renameR, isRootedR_renameR, sameSet_rootSides_renameR hf]
    rw [hd, hc]
  · have h1 : (ls != lo) = true := by simpa using hne
    have h2 : (sigma f ls != sigma f lo) = true := by
      simp only [bne_iff_ne, ne_eq]
      intro h; exact hne ((sigma_eq_iff hf s o ls lo hls hlo).1 h)
    simp [h1, h2]

/-- the normalised pair is unchanged as well -/
theorem rfNorm_renameR (g g' : Option String → Option String) (s o : Rose) :
    rfNorm (renameR f g s) (renameR f g' o) = rfNorm s o := by
  unfold rfNorm
  rw [rf_renameR hf]
  rcases partitions_cases s with ⟨e, hls, hps⟩ | ⟨ls, ps, hls, hps⟩
  · have hps' := partitions_renameR_err hf g s e hps
    simp [rf, hps, hps']
  rcases partitions_cases o with ⟨e, hlo, hpo⟩ | ⟨lo, po, hlo, hpo⟩
  · have hps' := partitions_renameR hf g s ls ps hls hps
    have hpo' := partitions_renameR_err hf g' o e hpo
    simp [rf, hps, hps', hpo, hpo']
  have hps' := partitions_renameR hf g s ls ps hls hps
  have hpo' := partitions_renameR hf g' o lo po hlo hpo
  simp [hps, hpo, hps', hpo']

/-! ### weighted distances -/

def mapM (f : String → String) (all : List String) (p : Side × Nat × Int) : Side × Nat × Int := (phi f all p.1, p.2)

omit hf in
theorem withLengths_mapP (all : List String) (ps : List Part) :
    withLengths (ps.map (mapP f all)) =
      (match withLengths ps with
       | .ok ms => .ok (ms.map (mapM f all))
       | .err e => .err e
       | .panic => .panic) := by
  have hany : (ps.map (mapP f all)).any (fun p => p.len.isNone) = ps.any (fun p => p.len.isNone) := by
    rw [List.any_map]; rfl
  unfold withLengths
  rw [hany]
  split
  · rfl
  · simp only [QR.ok.injEq, List.map_map]
    rfl

theorem lookup_mapM (all : List String) (m : PM) (hm : ∀ p ∈ m, IsSide all p.1) (k : Side) (hk : IsSide all k) :
    lookup (m.map (mapM f all)) (phi f all k) = lookup m k := by
  unfold lookup
  rw [List.find?_map, Option.map_map]
  have : m.find? ((fun p => p.1 == phi f all k) ∘ mapM f all) = m.find? (fun p => p.1 == k) := by
    apply find?_congr'
    intro p hp
    simp only [Function.comp, mapM]
    exact phi_beq hf all p.1 k (hm p hp) hk
  rw [this]
  rfl

theorem sumOver_mapM (F : Int → Int) (all : List String) (ms mo : PM)
    (hms : ∀ p ∈ ms, IsSide all p.1) (hmo : ∀ p ∈ mo, IsSide all p.1) :
    sumOver F (ms.map (mapM f all)) (mo.map (mapM f all)) = sumOver F ms mo := by
  unfold sumOver
  congr 1
  · rw [List.map_map]
    congr 1
    apply List.map_congr_left
    intro p hp
    simp only [Function.comp]
    have : (mapM f all p).1 = phi f all p.1 := rfl
    rw [this, lookup_mapM hf all mo hmo p.1 (hms p hp)]
    rfl
  · rw [List.filter_map, List.map_map]
    have hfil : mo.filter ((fun p => (lookup (ms.map (mapM f all)) p.1).isNone) ∘ mapM f all) =
        mo.filter (fun p => (lookup ms p.1).isNone) := by
      apply List.filter_congr
      intro p hp
      simp only [Function.comp]
      have : (mapM f all p).1 = phi f all p.1 := rfl
      rw [this, lookup_mapM hf all ms hms p.1 (hmo p hp)]
    rw [hfil]
    rfl

omit hf in
theorem isSide_withLengths (all : List String) (ps : List Part) (ms : PM) (h : withLengths ps = .ok ms)
    (hps : ∀ x ∈ sides ps, IsSide all x) : ∀ p ∈ ms, IsSide all p.1 := by
  intro p hp
  apply hps
  rw [← withLengths_keys ps ms h]
  exact List.mem_map.mpr ⟨p, hp, rfl⟩

/-- **weighted RF and the squared branch score are unchanged by a consistent renaming** of two trees over the
    same leaf set (or with the same leaf-index error) -/
theorem weighted_renameR (g g' : Option String → Option String) (s o : Rose) (hidx : leafIndex s = leafIndex o) :
    wrf (renameR f g s) (renameR f g' o) = wrf s o ∧ kf2 (renameR f g s) (renameR f g' o) = kf2 s o := by
  rcases partitions_cases s with ⟨e, hls, hps⟩ | ⟨ls, ps, hls, hps⟩
  · have hps' := partitions_renameR_err hf g s e hps
    simp [wrf, kf2, hps, hps']
  rcases partitions_cases o with ⟨e, hlo, hpo⟩ | ⟨lo, po, hlo, hpo⟩
  · rw [hls, hlo] at hidx; cases hidx
  have hll : ls = lo := by rw [hls, hlo] at hidx; exact QR.ok.inj hidx
  subst hll
  have hps' := partitions_renameR hf g s ls ps hls hps
  have hpo' := partitions_renameR hf g' o ls po hlo hpo
  have hws := withLengths_mapP (f := f) ls ps
  have hwo := withLengths_mapP (f := f) ls po
  rcases withLengths_cases ps with hms | hms
  · rw [hms] at hws
    simp [wrf, kf2, hps, hps', hms, hws]
  rcases withLengths_cases po with hmo | hmo
  · rw [hms] at hws
    rw [hmo] at hwo
    simp [wrf, kf2, hps, hps', hpo, hpo', hms, hws, hmo, hwo]
  rw [hms] at hws
  rw [hmo] at hwo
  have i1 := isSide_withLengths ls ps _ hms (isSide_of_mem_sides s ls ps hls hps)
  have i2 := isSide_withLengths ls po _ hmo (isSide_of_mem_sides o ls po hlo hpo)
  simp only [wrf, kf2, hps, hps', hpo, hpo', hms, hws, hmo, hwo, QR.bind_ok, QR.pure_eq, QR.ok.injEq]
  exact ⟨sumOver_mapM hf _ ls _ _ i1 i2, sumOver_mapM hf _ ls _ _ i1 i2⟩

/-- the combined report is unchanged by a consistent renaming (no hypothesis: different leaf sets are rejected
    before and after) -/
theorem compareTopologies_renameR (g g' : Option String → Option String) (s o : Rose) :
    compareTopologies (renameR f g s) (renameR f g' o) = compareTopologies s o := by
  rcases partitions_cases s with ⟨e, hls, hps⟩ | ⟨ls, ps, hls, hps⟩
  · have hps' := partitions_renameR_err hf g s e hps
    simp [compareTopologies, hps, hps']
  have hps' := partitions_renameR hf g s ls ps hls hps
  have hls' := leafIndex_renameR_ok hf g s ls hls
  have hws := withLengths_mapP (f := f) ls ps
  rcases withLengths_cases ps with hms | hms
  · rw [hms] at hws
    simp [compareTopologies, hps, hps', hms, hws]
  rw [hms] at hws
  rcases partitions_cases o with ⟨e, hlo, hpo⟩ | ⟨lo, po, hlo, hpo⟩
  · have hpo' := partitions_renameR_err hf g' o e hpo
    simp [compareTopologies, hps, hps', hms, hws, hpo, hpo']
  have hpo' := partitions_renameR hf g' o lo po hlo hpo
  have hlo' := leafIndex_renameR_ok hf g' o lo hlo
  have hwo := withLengths_mapP (f := f) lo po
  rcases withLengths_cases po with hmo | hmo
  · rw [hmo] at hwo
    simp [compareTopologies, hps, hps', hpo, hpo', hms, hws, hmo, hwo]
  rw [hmo] at hwo
  by_cases hne : ls = lo
  · subst hne
    have i1 := isSide_withLengths ls ps _ hms (isSide_of_mem_sides s ls ps hls hps)
    have i2 := isSide_withLengths ls po _ hmo (isSide_of_mem_sides o ls po hlo hpo)
    have hk1 : ((ps.map gLen).map (mapM f ls)).map (·.1) = ((ps.map gLen).map (·.1)).map (phi f ls) := by
      simp [List.map_map, Function.comp_def, mapM]
    have hk2 : ((po.map gLen).map (mapM f ls)).map (·.1) = ((po.map gLen).map (·.1)).map (phi f ls) := by
      simp [List.map_map, Function.comp_def, mapM]
    have hi := inter_map_phi hf ls ((po.map gLen).map (·.1)) ((ps.map gLen).map (·.1))
      (fun a ha => by obtain ⟨p, hp, rfl⟩ := List.mem_map.mp ha; exact i2 p hp)
      (fun a ha => by obtain ⟨p, hp, rfl⟩ := List.mem_map.mp ha; exact i1 p hp)
    simp only [compareTopologies, hps, hps', hpo, hpo', hms, hws, hmo, hwo, hls, hlo, hls', hlo', QR.bind_ok,
      QR.pure_eq, bne_self_eq_false, Bool.false_eq_true, ↓reduceIte, hk1, hk2, hi,
      sumOver_mapM hf _ ls _ _ i1 i2, isRootedR_renameR, sameSet_rootSides_renameR hf, List.length_map]
  · have hne' : ¬ sigma f ls = sigma f lo := fun h => hne ((sigma_eq_iff hf s o ls lo hls hlo).1 h)
    simp [compareTopologies, hps, hps', hpo, hpo', hms, hws, hmo, hwo, hls, hlo, hls', hlo', hne, hne']

end

end SPM
