import PhyloModel.Misc.Generators
/-! # C17 — random tree generators return valid trees of the requested size

The generators are functions of an explicit ORACLE (the sequence of random choices): front/back bits for the
ETE3-like generator, indices into the candidate vector for Yule; the theorems quantify over every oracle, i.e.
over every outcome of the random draws.  `GInv s k` after `k` iterations: `2k+1` slots, the current tips are
`k+1` distinct slots, a slot is a current tip iff it has no children, every other slot has exactly two distinct
children.  Branch lengths are drawn from `rand_distr` samplers and attached unchanged: their supports are
checked on the drawn values, not proved.  The caterpillar generator is deterministic: compared exactly. -/
namespace C17
open GEN

/-- ETE3-like generator: for EVERY sequence of front/back choices the deque `unwrap` never fails, and after
    `n - 1` iterations there are `2n - 1` slots, exactly `n` tips and every internal node has two children -/
theorem ete3_valid (bs : List Bool) :
    ∃ s, runG init bs = some s ∧ GInv s bs.length := by
  obtain ⟨s, h1, h2⟩ := generate_tree_ok bs init 0 ginv_init
  exact ⟨s, h1, by simpa using h2⟩

theorem ginv_of_perm {s s' : St} {k : Nat} (h : GInv s k) (hs : s'.size = s.size) (hk : s'.kids = s.kids)
    (hp : s'.deq.Perm s.deq) : GInv s' k := by
  refine ⟨by rw [hs]; exact h.size, by rw [hp.length_eq]; exact h.len, hp.nodup_iff.mpr h.nodup, ?_, ?_, ?_, ?_⟩
  · intro i hi; rw [hs]; exact h.lt i (hp.mem_iff.mp hi)
  · intro i hi; rw [hs] at hi; rw [hk, hp.mem_iff]; exact h.tips i hi
  · intro i hi hn; rw [hs] at hi ⊢; rw [hk]; exact h.binary i hi (fun hm => hn (hp.mem_iff.mpr hm))
  · intro i hi; rw [hs] at hi; rw [hk]; exact h.oob i hi

theorem swapRemove_perm : ∀ (l : List Nat) (k : Nat), k < l.length → (swapRemove l k).Perm (l.eraseIdx k) := by
  intro l k hk
  rcases List.eq_nil_or_concat l with hl | ⟨ini, last, hl⟩
  · subst hl; simp at hk
  · have hl' : l = ini ++ [last] := by simpa using hl
    subst hl'
    simp only [swapRemove, List.getLast?_append, List.getLast?_singleton, Option.some_or, List.length_append,
      List.length_cons, List.length_nil]
    by_cases hlast : k + 1 = ini.length + (0 + 1)
    · have hk' : k = ini.length := by omega
      subst hk'
      simp [List.eraseIdx_append_of_length_le]
    · have hk' : k < ini.length := by simp at hk; omega
      simp only [hlast, ↓reduceIte]
      rw [List.set_append_left _ _ hk', List.dropLast_concat, List.eraseIdx_append_of_lt_length hk']
      -- ini = a ++ x :: b with a.length = k
      obtain ⟨a, x, b, rfl, rfl⟩ : ∃ a x b, ini = a ++ x :: b ∧ a.length = k := by
        refine ⟨ini.take k, ini[k], ini.drop (k + 1), ?_, by simp; omega⟩
        rw [List.getElem_cons_drop_succ_eq_drop hk', List.take_append_drop]
      simp only [List.set_append_right _ _ (Nat.le_refl _), Nat.sub_self, List.set_cons_zero,
        List.eraseIdx_append_of_length_le (Nat.le_refl _), List.eraseIdx_zero, List.tail_cons, List.append_assoc]
      apply List.Perm.append_left
      simpa using (List.perm_append_comm : ([last] ++ b).Perm (b ++ [last]))

theorem perm_cons_eraseIdx : ∀ (l : List Nat) (k : Nat) (hk : k < l.length), l.Perm (l[k] :: l.eraseIdx k)
  | [], k, hk => by simp at hk
  | x :: xs, 0, _ => by simp
  | x :: xs, k + 1, hk => by
    simp only [List.getElem_cons_succ, List.eraseIdx_cons_succ]
    have ih := perm_cons_eraseIdx xs k (by simpa using hk)
    exact (List.Perm.cons x ih).trans (List.Perm.swap _ _ _)

/-- one Yule iteration preserves the invariant, for every valid choice of the candidate -/
theorem yule_step (s : St) (k n : Nat) (h : GInv s n) (hk : k < s.deq.length) :
    ∃ s', stepY s k = some s' ∧ GInv s' (n + 1) := by
  have hget : s.deq[k]? = some s.deq[k] := List.getElem?_eq_getElem hk
  refine ⟨{ size := s.size + 2,
            kids := fun i => if i = s.deq[k] then s.kids s.deq[k] ++ [s.size, s.size + 1] else s.kids i,
            deq := swapRemove (s.deq ++ [s.size, s.size + 1]) k }, by simp only [stepY, hget], ?_⟩
  have hcore := step_core s n h s.deq[k] (s.deq.eraseIdx k) (perm_cons_eraseIdx s.deq k hk)
  refine ginv_of_perm hcore rfl rfl ?_
  simp only
  refine (swapRemove_perm _ k (by simp; omega)).trans ?_
  rw [List.eraseIdx_append_of_lt_length hk]

/-- Yule generator: for EVERY sequence of valid candidate choices the loop runs to completion and after
    `n - 1` iterations there are `2n - 1` slots, exactly `n` tips, every internal node with two children -/
theorem yule_valid : ∀ (ks : List Nat) (s : St) (n : Nat), GInv s n →
    (∀ (i : Nat) (hi : i < ks.length), ks[i] ≤ n + i) →
    ∃ s', runY s ks = some s' ∧ GInv s' (n + ks.length)
  | [], s, n, h, _ => ⟨s, rfl, by simpa using h⟩
  | k :: ks, s, n, h, hks => by
    have hk : k < s.deq.length := by
      have := hks 0 (by simp); simp at this; rw [h.len]; omega
    obtain ⟨s1, h1, g1⟩ := yule_step s k n h hk
    obtain ⟨s2, h2, g2⟩ := yule_valid ks s1 (n + 1) g1 (by
      intro i hi
      have := hks (i + 1) (by simp; omega)
      simp at this; omega)
    refine ⟨s2, by simp [runY, h1, h2], ?_⟩
    have : n + (k :: ks).length = n + 1 + ks.length := by simp; omega
    rw [this]; exact g2

/-- the number of leaves grows by exactly one per iteration: the Yule loop (`while n_leaves < n`) terminates
    after exactly `n - 1` iterations -/
theorem leaves_after_k_steps (s : St) (k : Nat) (h : GInv s k) : s.deq.length = k + 1 ∧ s.size = 2 * k + 1 :=
  ⟨h.len, h.size⟩

/-- non-vacuity: the initial state (a lone root) satisfies the invariant -/
example : GInv init 0 := ginv_init

end C17
