import PhyloModel.Props.C05Inv
import PhyloModel.Split.ReorderDist
import PhyloModel.Split.RFCongr
/-! # C06 — invariances of the Robinson–Foulds distance, for the EXECUTABLE model `SPM.rf`

RF between a tree and any child-reordering of itself is zero (also with two-child roots: no correction), RF
does not see child order or unary nodes in either argument, the two drawings of one unrooted tree are at
distance zero, and RF (value, root correction, the different-leaf-set rejection, every error), its normalised
pair and the combined report are unchanged by a consistent injective renaming of the taxa of both trees. -/
namespace C06
open AR SPM

/-- **zero against any child-reordering of itself**, in both argument orders; normalised: numerator 0; a tree
    without a bipartition set gives its own error -/
theorem rf_reorder_self {t t' : Rose} (h : ReorderR t t') :
    (∀ ps, partitions t = .ok ps →
      rf t t' = .ok 0 ∧ rf t' t = .ok 0 ∧ rfNorm t t' = .ok (0, ps.length + ps.length)) ∧
    (∀ e, partitions t = .err e → rf t t' = .err e ∧ rf t' t = .err e) :=
  ⟨fun ps hps => ⟨(rf_reorder_zero h ps hps).1, (rf_reorder_zero h ps hps).2, rfNorm_reorder_zero h ps hps⟩,
   rf_reorder_err h⟩

/-- **RF does not see child order**: reordering either tree or both changes neither `rf` nor the normalised
    pair (values, correction and errors alike) -/
theorem rf_reorder_invariant {s s' o o' : Rose} (h1 : ReorderR s s') (h2 : ReorderR o o') :
    rf s' o' = rf s o ∧ rfNorm s' o' = rfNorm s o :=
  ⟨rf_reorder h1 h2, rfNorm_reorder h1 h2⟩

/-- RF does not see unary nodes, in either argument; a tree is at distance zero from itself with unary nodes
    inserted -/
theorem rf_unary_invariant {s s' o o' : Rose} (h1 : UnaryEq s s') (h2 : UnaryEq o o') :
    rf s' o' = rf s o ∧ (∀ ps, partitions s = .ok ps → rf s s' = .ok 0) :=
  ⟨rf_unary h1 h2, rf_unary_zero h1⟩

/-- the two-child and the dissolved drawing of one unrooted tree are at RF distance zero -/
theorem rf_root_style (i : Nat) (n : Option String) (l : Option Int) (d : Nat)
    (ix : Nat) (nx : Option String) (lx : Option Int) (dx : Nat) (kx : List Rose) (Y : Rose)
    (i' : Nat) (n' : Option String) (l' : Option Int) (d' : Nat) (hkx : kx ≠ []) (ps : List Part)
    (hps : partitions (.node i n l d [.node ix nx lx dx kx, Y]) = .ok ps) :
    rf (.node i n l d [.node ix nx lx dx kx, Y]) (.node i' n' l' d' (kx ++ [Y])) = .ok 0 :=
  rf_root_style_zero i n l d ix nx lx dx kx Y i' n' l' d' hkx ps hps

/-- **consistent renaming**: for an injective `f` applied to the tips of both trees (internal names changed
    arbitrarily), `rf`, the normalised pair and the combined report are unchanged — the same value, the same
    +2 correction, the same `DifferentTipIndices` rejection, the same errors -/
theorem rf_rename_invariant {f : String → String} (hf : Function.Injective f)
    (g g' : Option String → Option String) (s o : Rose) :
    rf (renameR f g s) (renameR f g' o) = rf s o ∧
    rfNorm (renameR f g s) (renameR f g' o) = rfNorm s o ∧
    compareTopologies (renameR f g s) (renameR f g' o) = compareTopologies s o :=
  ⟨rf_renameR hf g g' s o, rfNorm_renameR hf g g' s o, compareTopologies_renameR hf g g' s o⟩

/-- non-vacuity: the reordered example pair of C05Inv is at distance 0, the value is produced (not an error) -/
example : rf C05.ex1 C05.ex2 = .ok 0 ∧ rfNorm C05.ex1 C05.ex2 = .ok (0, 4) := by
  have h := rf_reorder_self C05.ex12_reorder
  have := h.1 _ C05.ex1_partitions
  exact ⟨this.1, this.2.2⟩

/-- non-vacuity of the renaming theorem: an injective renaming that changes the sorted order, applied to two
    trees with a non-zero distance -/
example : rf (renameR C05.exF id C05.ex1) (renameR C05.exF id C05.ex3) = rf C05.ex1 C05.ex3 :=
  (rf_rename_invariant C05.exF_inj id id C05.ex1 C05.ex3).1

end C06
