import PhyloModel.Upgma.Step
import PhyloModel.Matrix.Upgma
import PhyloModel.Upgma.UltraTree
/-! # C15 — UPGMA builds the correct ultrametric clustering tree

Two layers.  `UPG.upgma` (Matrix/Upgma.lean) transcribes the loop of `DistanceMatrix::upgma` over exact
rationals — triangular vector, retired rows set to infinity, first strict minimum in cell order, cardinality-
weighted update, heights, tree assembly — and is what the driver runs against the crate (topology, child
order, names and lengths compared on every case).  `UP` (Upgma/) is the abstract agglomeration state (active
indices, distances as a function, ghost member lists, heights) on which the property's mathematical content
is proved: the code's size-weighted update IS average linkage of the merged cluster, every live cell stays the
average of the original distances between the clusters it joins, and merging a minimal pair keeps heights
monotone, which makes the two new branch lengths non-negative.

The refinement from the transcribed loop to the abstract step, the tree-side bookkeeping and the recovery of
ultrametric inputs are theorems about the EXECUTABLE `UPG.step` / `UPG.loop` / `UPG.upgma` (second half of this file;
`Upgma/RefineBase`, `RefineDm`, `Refine`, `UTree`, `LoopInv`, `Shape`, `Equidist`, `AvgLink`, `Ultra`, `UltraTree`): one
iteration refines `UP.merge` at a minimal live pair and cannot fail; for every symmetric non-negative input on two or
more taxa the result is a rooted binary tree whose leaf names are the taxa, all leaves equidistant from the root,
every branch length non-negative, whose internal nodes are exactly the merge events of a complete run of
average-linkage clustering from its definition; for ultrametric input the leaf-to-leaf path lengths are the input.
Floating-point rounding is what remains modelled: the exact-model correspondence and the oracles on the real result
(equidistant leaves, non-negative lengths, naive clustering, reproduction of ultrametric inputs) tie the crate to it. -/
namespace C15
open UP

variable (d0 : Nat → Nat → Rat)

/-- the size-weighted update of the code is average linkage of the merged cluster: if `dax` is the average of
    the original distances between `A` and `X` and `dbx` that between `B` and `X`, then
    `(|A|·dax + |B|·dbx)/(|A|+|B|)` is the average between `A ++ B` and `X` -/
theorem update_is_average_linkage (A B X : List Nat) (dax dbx : Rat) (hA : A ≠ []) (hB : B ≠ []) (hX : X ≠ [])
    (h1 : IsAvg d0 dax A X) (h2 : IsAvg d0 dbx B X) :
    IsAvg d0 (((A.length : Rat) * dax + (B.length : Rat) * dbx) / ((A.length : Rat) + (B.length : Rat))) (A ++ B) X :=
  avg_update d0 A B X dax dbx hA hB hX h1 h2

/-- one agglomeration step of the code (reuse index `a`, retire `b`, size-weighted update) keeps every live
    cell equal to the average of the ORIGINAL distances between the two clusters it joins -/
theorem step_keeps_linkage (hd : ∀ x y, d0 x y = d0 y x) (s : St) (a b : Nat) (hl : Link d0 s)
    (ha : a ∈ s.act) (hb : b ∈ s.act) (hab : a ≠ b) : Link d0 (merge s a b) :=
  merge_link d0 hd s a b hl ha hb hab

/-- merging a pair at minimal average-linkage distance keeps the merge heights monotone, and the two new
    branch lengths (merge height minus the heights of the merged clusters) are non-negative -/
theorem step_monotone_nonnegative (s : St) (a b : Nat) (hl : Link d0 s) (hm : Mono s) (ha : a ∈ s.act)
    (hb : b ∈ s.act) (hab : a ≠ b) (hmin : ∀ j k, j ∈ s.act → k ∈ s.act → j ≠ k → s.D a b ≤ s.D j k) :
    Mono (merge s a b) ∧ 0 ≤ s.D a b / 2 - s.h a ∧ 0 ≤ s.D a b / 2 - s.h b :=
  merge_mono d0 s a b hl hm ha hb hab hmin

/-- a size-weighted mean of two values that are at least `m` is at least `m` (reducibility of average linkage) -/
theorem weighted_mean_ge (ca cb x y m : Rat) (ha : 0 < ca) (hb : 0 < cb) (hx : m ≤ x) (hy : m ≤ y) :
    m ≤ (ca * x + cb * y) / (ca + cb) :=
  wavg_ge ca cb x y m ha hb hx hy

/-- the minimum search of the transcribed loop treats a retired (infinite) cell as larger than every finite
    one and never prefers a later equal cell (first minimum in cell order) -/
theorem min_search_order (x y : Rat) :
    UPG.cellLt (some x) none = true ∧ UPG.cellLt none (some y) = false ∧ UPG.cellLt (some x) (some x) = false ∧
    UPG.cellLt none none = false := by
  simp [UPG.cellLt]

/-- non-vacuity of `step_keeps_linkage`'s hypotheses: the initial state (singleton clusters, `D = d0`) is linked -/
example (hd : ∀ x y, d0 x y = d0 y x) : Link d0 { act := [0, 1, 2], D := d0, mem := fun i => [i], h := fun _ => 0 } := by
  constructor
  · simp
  · intro i _; simp
  · intro i j _ _; exact hd i j
  · intro i j _ _ _; simp [IsAvg, S, sumL]; grind


/-! ## C15 — UPGMA builds the correct ultrametric clustering tree: theorems about the EXECUTABLE model

This file completes `Props/C15.lean`: the parts listed there as PARTIAL are theorems here, and they are
about `UPG.step` / `UPG.loop` / `UPG.upgma` (Matrix/Upgma.lean), the transcription of
`DistanceMatrix::upgma` that the driver runs against the crate.

Hypotheses common to all results: `taxa : List String` with `2 ≤ taxa.length`; the row-wise lower-triangular
vector `v : Array Rat` has `v.size = T taxa.length` (symmetry is by construction of the triangular store);
every entry is non-negative.  `d0of v i j` is the input read as a symmetric function with zero diagonal.
The bookkeeping outputs (`margin`, `tie`, `dyadic`) occur only as "don't care" components.

* `step_refines`, `step_total` — one loop iteration refines `UP.merge` and cannot fail (item 1)
* `upgma_tree` — the combined statement: success, binary shape, leaves = taxa, equidistant leaves,
  non-negative lengths, internal nodes = a complete run of average-linkage clustering from its definition
* `upgma_recovers_ultrametric` — for ultrametric input the leaf-to-leaf path lengths are the input -/

open UPG MX Tri MXS

/-- one iteration of the executable loop refines the abstract agglomeration step -/
theorem step_refines {n : Nat} {st st' : UPG.St} {mem : Nat → List Nat} (h : WFSt n st mem) (hs : step st = .ok st') :
    ∃ a b, a ∈ actOf n st ∧ b ∈ actOf n st ∧ a ≠ b ∧
      (∀ j k, j ∈ actOf n st → k ∈ actOf n st → j ≠ k → Dof st a b ≤ Dof st j k) ∧
      WFSt n st' (memAfter mem a b) ∧
      Agree (absSt n st' (memAfter mem a b)) (UP.merge (absSt n st mem) a b) :=
  UPG.step_refines h hs

/-- ... and on a well-formed state with two or more live clusters it returns neither an error nor a panic -/
theorem step_total {n : Nat} {st : UPG.St} {mem : Nat → List Nat} (h : WFSt n st mem) (h2 : 2 ≤ (actOf n st).length) :
    ∃ st', step st = .ok st' :=
  UPG.step_total h h2

/-- **C15, combined.**  `UPG.upgma` succeeds, and the tree `t` it returns
    * is binary at every internal node, the root has exactly two children, every leaf is named, and the leaf
      names are a permutation of the taxa;
    * has all its leaves at one and the same distance from the root;
    * has a non-negative branch length on every non-root node;
    * has as internal nodes (leaf names below the node, height of the node above its leaves) exactly the
      merge events of a complete run of average-linkage clustering from its definition (`AvgRun`), which are
      the events the instrumented run `upgmaTr` records. -/
theorem upgma_tree (taxa : List String) (v : Array Rat) (h2 : 2 ≤ taxa.length) (hv : v.size = T taxa.length)
    (hpos : ∀ k, k < v.size → 0 ≤ v.getD k 0) :
    ∃ t m tie dy, upgma taxa v = .ok (t, m, tie, dy) ∧
      (isBin t = true ∧ t.kids.length = 2 ∧ (leafNames t).Perm (taxa.map some)) ∧
      (∃ h, ∀ d, d ∈ leafDepths t → d = h) ∧
      NonNegLens t ∧
      (∃ evs k cl, upgmaTr taxa v = .ok evs ∧
        AvgRun (d0of v) (List.range taxa.length) (fun i => [i]) evs [k] cl ∧
        (cl k).Perm (List.range taxa.length) ∧ evs.length = taxa.length - 1 ∧
        ∀ x, x ∈ nodeInfo t ↔ ∃ e, e ∈ evs ∧ x = evInfo taxa e) := by
  obtain ⟨t, m, tie, dy, evs, k, cl, hup, htr, hrun, hperm, hlen, hnodes⟩ := upgma_average_linkage taxa v h2 hv hpos
  exact ⟨t, m, tie, dy, hup, upgma_shape taxa v h2 hv hpos t m tie dy hup,
    upgma_equidistant taxa v h2 hv hpos t m tie dy hup, (upgma_ok_nonneg taxa v h2 hv hpos).2 t m tie dy hup,
    evs, k, cl, htr, hrun, hperm, hlen, hnodes⟩

/-- **C15, ultrametric input.**  If moreover the input satisfies the three-point condition, the matrix of
    leaf-to-leaf path lengths of the returned tree is the input matrix (`A` lists the taxon indices in leaf
    order). -/
theorem upgma_recovers_ultrametric (taxa : List String) (v : Array Rat) (h2 : 2 ≤ taxa.length)
    (hv : v.size = T taxa.length) (hpos : ∀ k, k < v.size → 0 ≤ v.getD k 0) (hu : Ultra (d0of v) taxa.length) :
    ∃ t m tie dy A, upgma taxa v = .ok (t, m, tie, dy) ∧ A.Perm (List.range taxa.length) ∧
      leafNames t = A.map (fun i => some (nameOf taxa i)) ∧ distM t = matOf (d0of v) A :=
  UPG.upgma_recovers_ultrametric taxa v h2 hv hpos hu

end C15
