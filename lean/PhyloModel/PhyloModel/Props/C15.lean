import PhyloModel.Upgma.Step
import PhyloModel.Matrix.Upgma
/-! # C15 — UPGMA builds the correct ultrametric clustering tree

Two layers.  `UPG.upgma` (Matrix/Upgma.lean) transcribes the loop of `DistanceMatrix::upgma` over exact
rationals — triangular vector, retired rows set to infinity, first strict minimum in cell order, cardinality-
weighted update, heights, tree assembly — and is what the driver runs against the crate (topology, child
order, names and lengths compared on every case).  `UP` (Upgma/) is the abstract agglomeration state (active
indices, distances as a function, ghost member lists, heights) on which the property's mathematical content
is proved: the code's size-weighted update IS average linkage of the merged cluster, every live cell stays the
average of the original distances between the clusters it joins, and merging a minimal pair keeps heights
monotone, which makes the two new branch lengths non-negative.

PARTIAL: the refinement from the transcribed loop to the abstract step (cells of the triangular vector =
`D` on live pairs, via C13's index lemmas), the tree-side bookkeeping (every leaf below a cluster node is at
distance `heights[i]`) and `upgma_recovers_ultrametric` are not yet theorems; they are decided on every run by
the exact-model correspondence and by the oracles on the real result (equidistant leaves, non-negative
lengths, naive average-linkage clustering from its definition, reproduction of ultrametric inputs). -/
namespace C15
open UP

variable (d0 : Nat → Nat → Rat)

/-- the size-weighted update of the code is average linkage of the merged cluster: if `dax` is the average of
    the original distances between `A` and `X` and `dbx` that between `B` and `X`, then
    `(|A|·dax + |B|·dbx)/(|A|+|B|)` is the average between `A ++ B` and `X` -/
theorem update_is_average_linkage (A B X : List Nat) (dax dbx : Rat) (hA : A ≠ []) (hB : B ≠ []) (hX : X ≠ [])
    (h1 : IsAvg d0 dax A X) (h2 : IsAvg d0 dbx B X) :
    IsAvg d0 (((A.length : Rat) * dax + (B.length : Rat) * dbx) / ((A.length : Rat) + (B.length : Rat))) (A ++ B) X :=
  avg_update d0 A B X dax dbx hA hB hX h1 h2

/-- one agglomeration step of the code (reuse index `a`, retire `b`, size-weighted update) keeps every live
    cell equal to the average of the ORIGINAL distances between the two clusters it joins -/
theorem step_keeps_linkage (hd : ∀ x y, d0 x y = d0 y x) (s : St) (a b : Nat) (hl : Link d0 s)
    (ha : a ∈ s.act) (hb : b ∈ s.act) (hab : a ≠ b) : Link d0 (merge s a b) :=
  merge_link d0 hd s a b hl ha hb hab

/-- merging a pair at minimal average-linkage distance keeps the merge heights monotone, and the two new
    branch lengths (merge height minus the heights of the merged clusters) are non-negative -/
theorem step_monotone_nonnegative (s : St) (a b : Nat) (hl : Link d0 s) (hm : Mono s) (ha : a ∈ s.act)
    (hb : b ∈ s.act) (hab : a ≠ b) (hmin : ∀ j k, j ∈ s.act → k ∈ s.act → j ≠ k → s.D a b ≤ s.D j k) :
    Mono (merge s a b) ∧ 0 ≤ s.D a b / 2 - s.h a ∧ 0 ≤ s.D a b / 2 - s.h b :=
  merge_mono d0 s a b hl hm ha hb hab hmin

/-- a size-weighted mean of two values that are at least `m` is at least `m` (reducibility of average linkage) -/
theorem weighted_mean_ge (ca cb x y m : Rat) (ha : 0 < ca) (hb : 0 < cb) (hx : m ≤ x) (hy : m ≤ y) :
    m ≤ (ca * x + cb * y) / (ca + cb) :=
  wavg_ge ca cb x y m ha hb hx hy

/-- the minimum search of the transcribed loop treats a retired (infinite) cell as larger than every finite
    one and never prefers a later equal cell (first minimum in cell order) -/
theorem min_search_order (x y : Rat) :
    UPG.cellLt (some x) none = true ∧ UPG.cellLt none (some y) = false ∧ UPG.cellLt (some x) (some x) = false ∧
    UPG.cellLt none none = false := by
  simp [UPG.cellLt]

/-- non-vacuity of `step_keeps_linkage`'s hypotheses: the initial state (singleton clusters, `D = d0`) is linked -/
example (hd : ∀ x y, d0 x y = d0 y x) : Link d0 { act := [0, 1, 2], D := d0, mem := fun i => [i], h := fun _ => 0 } := by
  constructor
  · simp
  · intro i _; simp
  · intro i j _ _; exact hd i j
  · intro i j _ _ _; simp [IsAvg, S, sumL]; grind

end C15
