import PhyloModel.Newick.BuildLayout
import PhyloModel.Newick.StructRep
import PhyloModel.Newick.LayoutSize
/-! # C01 — Newick write-then-parse round trip is lossless

The parser model `NW.parse` mirrors `Tree::from_newick` character by character and the arena writer
`NW.toNewickF` mirrors `Tree::to_newick_impl` (both are what the driver runs against the real crate).
Branch lengths are values of an arbitrary type `L` with a codec `(showLen, parseLen)`; the only facts
used about it are the three laws of `NW.Codec` (what is printed parses back to the same value, uses only
plain characters, is non-empty) — for `f64` these are properties of Rust's `Display`/`FromStr`, checked
by the harness on every run and listed in the trusted base.  `WFT t` is the domain of the property:
names are non-empty and either metacharacter-free or protected by verbatim double quotes
(`nameOKFrom`), comments are non-empty and contain no `]`. -/
namespace C01
open NW
variable {L : Type} {parseLen : Label → Option L} {showLen : L → Label}

/-- Rose level: parsing the written form of any well-formed tree — any shape and size, unary and
    multifurcating nodes, unnamed nodes, missing lengths, a single node — yields an arena that lays out
    exactly that tree: same shape and child order, names, comments and length values. -/
theorem roundtrip (hc : Codec parseLen showLen) (t : RTree L) (hwf : WFT t) :
    ∃ a, parse parseLen (write showLen t ++ [';']) = .done a ∧ Layout a 0 none t :=
  C01_roundtrip hc t hwf

/-- write_abs: whatever the arena layout (API-built in any order, with removed slots, parsed), the arena
    writer returns the rose-level text of the tree the arena represents. -/
theorem writer_refines (a : Array (PNode L)) (i : Nat) (t : RTree L) (h : RepN a i t) (fuel : Nat)
    (hf : ht t ≤ fuel) : toNewickF showLen fuel .allFields a i = some (write showLen t) := by
  rw [toNewickF_rep showLen .allFields a t fuel i h hf, writeF_all]

/-- The property on arenas: writing any arena that represents a well-formed tree `t` and parsing the text
    yields an arena representing the same `t`, and writing that arena again reproduces the same text. -/
theorem roundtrip_arena (hc : Codec parseLen showLen) (a : Array (PNode L)) (i : Nat) (t : RTree L)
    (h : RepN a i t) (hwf : WFT t) (fuel : Nat) (hf : ht t ≤ fuel) :
    ∃ txt a', toNewickF showLen fuel .allFields a i = some txt ∧
      parse parseLen (txt ++ [';']) = .done a' ∧ RepN a' 0 t ∧
      toNewickF showLen (a'.size + 1) .allFields a' 0 = some txt := by
  obtain ⟨a', hp, hl⟩ := C01_roundtrip hc t hwf
  refine ⟨write showLen t, a', writer_refines a i t h fuel hf, hp, layout_rep a' t 0 none hl, ?_⟩
  have hrep := layout_rep a' t 0 none hl
  -- the parser arena is a `Struct` arena, so the height of `t` is bounded by its size
  have hsz : 0 + sz t ≤ a'.size := layout_bound a' t 0 none hl
  exact writer_refines a' 0 t hrep _ (by have := ht_le_sz t; omega)

/-- Boundary (stated instead of silently totalised): a present-but-empty name is written exactly like an
    absent one, so it cannot survive the round trip; the property's domain excludes it. -/
theorem empty_name_is_absent (l : Option L) (c : Option Label) :
    label showLen (some []) l c = label showLen none l c := by
  simp [label]

/-- non-vacuity: a single named node with a comment is in the domain -/
example : WFT (RTree.node (some ['A']) (none : Option Nat) (some ['x']) []) := by
  simp [WFT, WFL, nameWF, commentWF, nameOKFrom, plain, classify, isWs]

end C01
