import PhyloModel.Misc.LayoutCoords
import PhyloModel.Arena.AbsRose
import PhyloModel.Props.C19
/-! # C19, coordinates — the radial layout as a drawing

`LAY.place c s total t start pos` computes the coordinates on top of the exact-angle model `LAY.layout`, for
ABSTRACT direction functions `c s : Rat → Rat` (standing for `cos`/`sin` of a fraction of a turn).  Proved here,
for all trees and all `c s`:
* `place_draws` — `place` refines `layout`: same nodes, same parents, same order, and the branch of a node
  leaves its start point in the direction of the bisector of the node's wedge, with the node's length;
* `one_branch_per_non_root_node`;
* `branches_join_positions` — with distinct node ids, every branch starts at the drawn position of the node's
  parent (the END of the parent's branch, the origin for the root) and ends at the node's own position;
* `branch_lengths` — with `c² + s² = 1` and all lengths present, the squared Euclidean length of every branch
  is the squared branch length;
* `rescale_commutes_with_place` (any rational factor, abstract lengths), `rescale_scaled_tree` (the tree with
  all lengths multiplied by an integer): rescaling the drawing = drawing the rescaled tree;
* `missing_length_refused_coords`. -/
namespace C19
open AR LAY

/-! ### pointwise relation of two lists -/

def Pointwise {α β : Type} (R : α → β → Prop) : List α → List β → Prop
  | [], [] => True
  | a :: as, b :: bs => R a b ∧ Pointwise R as bs
  | [], _ :: _ => False
  | _ :: _, [] => False

theorem Pointwise.append {α β : Type} {R : α → β → Prop} : ∀ {as : List α} {bs : List β} {as' : List α} {bs' : List β},
    Pointwise R as bs → Pointwise R as' bs' → Pointwise R (as ++ as') (bs ++ bs')
  | [], [], _, _, _, h => by simpa using h
  | a :: as, b :: bs, _, _, h, h' => by
    rw [Pointwise] at h
    simp only [List.cons_append, Pointwise]
    exact ⟨h.1, Pointwise.append h.2 h'⟩
  | [], _ :: _, _, _, h, _ => by simp [Pointwise] at h
  | _ :: _, [], _, _, h, _ => by simp [Pointwise] at h

theorem Pointwise.length_eq {α β : Type} {R : α → β → Prop} : ∀ {as : List α} {bs : List β},
    Pointwise R as bs → as.length = bs.length
  | [], [], _ => rfl
  | a :: as, b :: bs, h => by rw [Pointwise] at h; simp [Pointwise.length_eq h.2]
  | [], _ :: _, h => by simp [Pointwise] at h
  | _ :: _, [], h => by simp [Pointwise] at h

theorem Pointwise.get {α β : Type} {R : α → β → Prop} : ∀ {as : List α} {bs : List β}, Pointwise R as bs →
    ∀ (j : Nat) (h1 : j < as.length) (h2 : j < bs.length), R as[j] bs[j]
  | [], [], _, j, h1, _ => by simp at h1
  | a :: as, b :: bs, h, j, h1, h2 => by
    rw [Pointwise] at h
    cases j with
    | zero => exact h.1
    | succ j => exact Pointwise.get h.2 j (by simpa using h1) (by simpa using h2)
  | [], _ :: _, h, _, _, _ => by simp [Pointwise] at h
  | _ :: _, [], h, _, _, _ => by simp [Pointwise] at h

theorem Pointwise.map_eq {α β γ : Type} {R : α → β → Prop} (f : α → γ) (g : β → γ) (hfg : ∀ a b, R a b → f a = g b) :
    ∀ {as : List α} {bs : List β}, Pointwise R as bs → as.map f = bs.map g
  | [], [], _ => rfl
  | a :: as, b :: bs, h => by
    rw [Pointwise] at h
    simp [hfg a b h.1, Pointwise.map_eq f g hfg h.2]
  | [], _ :: _, h => by simp [Pointwise] at h
  | _ :: _, [], h => by simp [Pointwise] at h

theorem Pointwise.mono {α β : Type} {R S : α → β → Prop} : ∀ {as : List α} {bs : List β},
    (∀ a b, a ∈ as → b ∈ bs → R a b → S a b) → Pointwise R as bs → Pointwise S as bs
  | [], [], _, _ => trivial
  | a :: as, b :: bs, hrs, h => by
    rw [Pointwise] at h ⊢
    exact ⟨hrs a b (by simp) (by simp) h.1,
      Pointwise.mono (fun x y hx hy => hrs x y (by simp [hx]) (by simp [hy])) h.2⟩
  | [], _ :: _, _, h => by simp [Pointwise] at h
  | _ :: _, [], _, h => by simp [Pointwise] at h

/-! ### B1: `place` refines `layout` -/

/-- branch `b` draws segment `g`: same node, same parent, and the branch leaves its start point in the
    direction of the bisector of the wedge, with the node's branch length -/
def Draws (c s : Rat → Rat) (b : Branch) (g : Seg) : Prop :=
  b.parent = g.parent ∧ b.id = g.id ∧ b.name = g.name ∧
  b.xend = b.xstart + ((g.len.getD 0 : Int) : Rat) * c g.angle ∧
  b.yend = b.ystart + ((g.len.getD 0 : Int) : Rat) * s g.angle

mutual
/-- `place` is `layout` with coordinates: the same nodes in the same (pre-)order, each drawn along the
    bisector of its wedge -/
theorem place_draws (c s : Rat → Rat) (total : Nat) : ∀ (t : Rose) (start : Rat) (pos : Rat × Rat),
    Pointwise (Draws c s) (place c s total t start pos) (layout total t start)
  | .node i n l d ks, start, pos => by
    rw [place_node, layout]; exact placeL_draws c s total i ks start pos
theorem placeL_draws (c s : Rat → Rat) (total : Nat) (p : Nat) : ∀ (ks : List Rose) (start : Rat) (pos : Rat × Rat),
    Pointwise (Draws c s) (placeL c s total p ks start pos) (layoutL total p ks start)
  | [], start, pos => by rw [placeL_nil, layoutL]; exact trivial
  | k :: ks, start, pos => by
    rw [placeL_cons, layoutL, Pointwise]
    refine ⟨⟨rfl, rfl, rfl, rfl, rfl⟩, ?_⟩
    exact Pointwise.append (place_draws c s total k start _) (placeL_draws c s total p ks _ pos)
end

/-- the same nodes in the same order -/
theorem place_ids (c s : Rat → Rat) (total : Nat) (t : Rose) (start : Rat) (pos : Rat × Rat) :
    (place c s total t start pos).map Branch.id = (layout total t start).map Seg.id :=
  Pointwise.map_eq _ _ (fun _ _ h => h.2.1) (place_draws c s total t start pos)

/-- hanging from the same parents -/
theorem place_parents (c s : Rat → Rat) (total : Nat) (t : Rose) (start : Rat) (pos : Rat × Rat) :
    (place c s total t start pos).map Branch.parent = (layout total t start).map Seg.parent :=
  Pointwise.map_eq _ _ (fun _ _ h => h.1) (place_draws c s total t start pos)

/-- carrying the same labels -/
theorem place_names (c s : Rat → Rat) (total : Nat) (t : Rose) (start : Rat) (pos : Rat × Rat) :
    (place c s total t start pos).map Branch.name = (layout total t start).map Seg.name :=
  Pointwise.map_eq _ _ (fun _ _ h => h.2.2.1) (place_draws c s total t start pos)

/-! ### B2 (i): one branch per non-root node -/

theorem one_branch_per_non_root_node (c s : Rat → Rat) (total : Nat) (t : Rose) (start : Rat) (pos : Rat × Rat) :
    (place c s total t start pos).length + 1 = size t := by
  rw [(place_draws c s total t start pos).length_eq]; exact one_segment_per_non_root_node total t start

mutual
/-- the branches are those of the non-root nodes, in pre-order -/
theorem place_ids_preorder (c s : Rat → Rat) (total : Nat) : ∀ (t : Rose) (start : Rat) (pos : Rat × Rat),
    t.id :: (place c s total t start pos).map Branch.id = idsR t
  | .node i n l d ks, start, pos => by
    rw [place_node, idsR, nodesR, List.map_cons, placeL_ids_preorder c s total i ks start pos]
theorem placeL_ids_preorder (c s : Rat → Rat) (total : Nat) (p : Nat) : ∀ (ks : List Rose) (start : Rat) (pos : Rat × Rat),
    (placeL c s total p ks start pos).map Branch.id = (nodesRL ks).map Rose.id
  | [], start, pos => by rw [placeL_nil, nodesRL]; rfl
  | k :: ks, start, pos => by
    rw [placeL_cons, nodesRL, List.map_cons, List.map_append, List.map_append,
      placeL_ids_preorder c s total p ks _ pos]
    have := place_ids_preorder c s total k start
      (pos.1 + lenQ k * c (start + (LAY.nLeaves k : Rat) / (total : Rat) / 2),
       pos.2 + lenQ k * s (start + (LAY.nLeaves k : Rat) / (total : Rat) / 2))
    rw [idsR] at this
    rw [← this]; rfl
end

/-! ### B2 (ii): branches join the drawn positions -/

/-- every branch of `bs` either hangs from `p`, drawn at `pos`, or from a node whose branch is in `bs` and
    starts where that branch ends -/
def Linked (p : Nat) (pos : Rat × Rat) (bs : List Branch) : Prop :=
  ∀ b ∈ bs, (b.parent = p ∧ (b.xstart, b.ystart) = pos) ∨
    ∃ b' ∈ bs, b'.id = b.parent ∧ (b.xstart, b.ystart) = (b'.xend, b'.yend)

theorem Linked.weaken {p : Nat} {pos : Rat × Rat} {bs all : List Branch} (h : Linked p pos bs)
    (hsub : ∀ b ∈ bs, b ∈ all) :
    ∀ b ∈ bs, (b.parent = p ∧ (b.xstart, b.ystart) = pos) ∨
      ∃ b' ∈ all, b'.id = b.parent ∧ (b.xstart, b.ystart) = (b'.xend, b'.yend) := by
  intro b hb
  rcases h b hb with h1 | ⟨b', hb', h2⟩
  · exact Or.inl h1
  · exact Or.inr ⟨b', hsub b' hb', h2⟩

mutual
theorem place_linked (c s : Rat → Rat) (total : Nat) : ∀ (t : Rose) (start : Rat) (pos : Rat × Rat),
    Linked t.id pos (place c s total t start pos)
  | .node i n l d ks, start, pos => by
    rw [place_node]; exact placeL_linked c s total i ks start pos
theorem placeL_linked (c s : Rat → Rat) (total : Nat) (p : Nat) : ∀ (ks : List Rose) (start : Rat) (pos : Rat × Rat),
    Linked p pos (placeL c s total p ks start pos)
  | [], start, pos => by rw [placeL_nil]; intro b hb; simp at hb
  | k :: ks, start, pos => by
    rw [placeL_cons]
    have h1 := place_linked c s total k start
      (pos.1 + lenQ k * c (start + (LAY.nLeaves k : Rat) / (total : Rat) / 2),
       pos.2 + lenQ k * s (start + (LAY.nLeaves k : Rat) / (total : Rat) / 2))
    have h2 := placeL_linked c s total p ks (start + (LAY.nLeaves k : Rat) / (total : Rat)) pos
    intro b hb
    simp only [List.mem_cons, List.mem_append] at hb
    rcases hb with rfl | hb | hb
    · exact Or.inl ⟨rfl, rfl⟩
    · right
      rcases h1 b hb with ⟨e1, e2⟩ | ⟨b', hb', e⟩
      · exact ⟨_, List.mem_cons_self, e1.symm, e2⟩
      · exact ⟨b', by simp [hb'], e⟩
    · rcases h2 b hb with e | ⟨b', hb', e⟩
      · exact Or.inl e
      · exact Or.inr ⟨b', by simp [hb'], e⟩
end

/-- with distinct ids, the position recorded for the node of a branch is the end of that branch -/
theorem posOf_of_mem : ∀ (bs : List Branch), (bs.map Branch.id).Nodup → ∀ b ∈ bs, posOf bs b.id = (b.xend, b.yend)
  | [], _, b, hb => by simp at hb
  | a :: bs, hnd, b, hb => by
    simp only [List.map_cons, List.nodup_cons] at hnd
    rcases List.mem_cons.1 hb with rfl | hb'
    · simp [posOf]
    · have hne : a.id ≠ b.id := by
        intro e; exact hnd.1 (e ▸ List.mem_map.2 ⟨b, hb', rfl⟩)
      have ih := posOf_of_mem bs hnd.2 b hb'
      have hne' : (a.id == b.id) = false := by simp [hne]
      simp only [posOf, List.find?_cons, hne'] at ih ⊢
      exact ih

/-- a node without a branch (the root) is at the origin -/
theorem posOf_of_not_mem (bs : List Branch) (i : Nat) (h : i ∉ bs.map Branch.id) : posOf bs i = (0, 0) := by
  have : bs.find? (fun b => b.id == i) = none := by
    rw [List.find?_eq_none]
    intro b hb
    simp only [beq_iff_eq]
    intro e
    exact h (e ▸ List.mem_map.2 ⟨b, hb, rfl⟩)
  simp [posOf, this]

/-- C19, positions: in a tree with distinct node ids (every abstraction of a well-formed arena,
    `AR.absRoot_nodes`), drawn with the root at the origin, the root's position is the origin and every
    branch starts at the drawn position of its node's parent — the END of the parent's branch, or the origin
    when the parent is the root — and ends at the drawn position of the node itself -/
theorem branches_join_positions (c s : Rat → Rat) (total : Nat) (t : Rose) (start : Rat) (hnd : (idsR t).Nodup) :
    posOf (place c s total t start (0, 0)) t.id = (0, 0) ∧
    ∀ b ∈ place c s total t start (0, 0),
      (b.xstart, b.ystart) = posOf (place c s total t start (0, 0)) b.parent ∧
      (b.xend, b.yend) = posOf (place c s total t start (0, 0)) b.id := by
  have hids := place_ids_preorder c s total t start (0, 0)
  rw [← hids, List.nodup_cons] at hnd
  have hroot := posOf_of_not_mem _ _ hnd.1
  refine ⟨hroot, ?_⟩
  intro b hb
  refine ⟨?_, (posOf_of_mem _ hnd.2 b hb).symm⟩
  rcases place_linked c s total t start (0, 0) b hb with ⟨e1, e2⟩ | ⟨b', hb', e1, e2⟩
  · rw [e1, hroot, e2]
  · rw [← e1, posOf_of_mem _ hnd.2 b' hb', e2]

/-- for the abstraction of a well-formed arena the ids are distinct -/
theorem branches_join_positions_arena {a : Arena} (g : Good a) (h1 : AtMostOneRoot a) {t : Rose}
    (h : absRoot a = .ok t) (c s : Rat → Rat) :
    posOf (place c s (LAY.nLeaves t) t 0 (0, 0)) t.id = (0, 0) ∧
    ∀ b ∈ place c s (LAY.nLeaves t) t 0 (0, 0),
      (b.xstart, b.ystart) = posOf (place c s (LAY.nLeaves t) t 0 (0, 0)) b.parent ∧
      (b.xend, b.yend) = posOf (place c s (LAY.nLeaves t) t 0 (0, 0)) b.id :=
  branches_join_positions c s (LAY.nLeaves t) t 0 (absRoot_nodes g h1 h).1

/-! ### B2 (iii): Euclidean length = branch length -/

theorem draws_length {c s : Rat → Rat} (hcs : ∀ θ, c θ * c θ + s θ * s θ = 1) {b : Branch} {g : Seg}
    (h : Draws c s b g) {d : Int} (hd : g.len = some d) :
    (b.xend - b.xstart) * (b.xend - b.xstart) + (b.yend - b.ystart) * (b.yend - b.ystart) = (d : Rat) * (d : Rat) := by
  obtain ⟨_, _, _, hx, hy⟩ := h
  rw [hx, hy, hd]
  exact branch_has_its_length b.xstart b.ystart _ _ _ (hcs g.angle)

/-- C19, lengths: whenever the layout is produced (all lengths present), every branch, listed alongside its
    segment of the exact-angle model, has squared Euclidean length equal to the squared branch length -/
theorem branch_lengths {c s : Rat → Rat} (hcs : ∀ θ, c θ * c θ + s θ * s θ = 1) (t : Rose) (segs : List Seg)
    (h : radial t = .ok segs) :
    Pointwise (fun b g => b.id = g.id ∧ ∃ d : Int, g.len = some d ∧
        (b.xend - b.xstart) * (b.xend - b.xstart) + (b.yend - b.ystart) * (b.yend - b.ystart) = (d : Rat) * (d : Rat))
      (place c s (LAY.nLeaves t) t 0 (0, 0)) segs := by
  simp only [radial] at h
  split at h
  · cases h
  · rename_i hany
    cases h
    refine Pointwise.mono ?_ (place_draws c s (LAY.nLeaves t) t 0 (0, 0))
    intro b g _ hg hdr
    have : g.len.isNone = false := by
      have := hany
      simp only [Bool.not_eq_true, List.any_eq_false] at this
      simpa using this g hg
    cases hl : g.len with
    | none => rw [hl] at this; simp at this
    | some d => exact ⟨hdr.2.1, d, rfl, draws_length hcs hdr hl⟩

/-- the layout with coordinates is produced exactly when the exact-angle layout is -/
theorem radialCoords_ok (c s : Rat → Rat) (t : Rose) (segs : List Seg) (h : radial t = .ok segs) :
    radialCoords c s t = .ok (place c s (LAY.nLeaves t) t 0 (0, 0)) := by
  simp [radialCoords, h]

/-! ### B2 (iv): rescaling -/

theorem scale_step (x f d e : Rat) : x * f + f * d * e = (x + d * e) * f := by grind

mutual
/-- `Layout::rescale` commutes with the construction: drawing with every length multiplied by `f` (from the
    rescaled start point) = multiplying every coordinate of the drawing by `f`; any rational factor -/
theorem rescale_commutes_with_placeW (ℓ : Rose → Rat) (c s : Rat → Rat) (total : Nat) (f : Rat) :
    ∀ (t : Rose) (start : Rat) (pos : Rat × Rat),
    placeW (fun t => f * ℓ t) c s total t start (pos.1 * f, pos.2 * f) = LAY.rescale f (placeW ℓ c s total t start pos)
  | .node i n l d ks, start, pos => by
    rw [placeW, placeW]; exact rescale_commutes_with_placeWL ℓ c s total f i ks start pos
theorem rescale_commutes_with_placeWL (ℓ : Rose → Rat) (c s : Rat → Rat) (total : Nat) (f : Rat) (p : Nat) :
    ∀ (ks : List Rose) (start : Rat) (pos : Rat × Rat),
    placeWL (fun t => f * ℓ t) c s total p ks start (pos.1 * f, pos.2 * f) =
      LAY.rescale f (placeWL ℓ c s total p ks start pos)
  | [], start, pos => by rw [placeWL, placeWL]; rfl
  | k :: ks, start, pos => by
    rw [placeWL, placeWL]
    simp only [LAY.rescale, List.map_cons, List.map_append, Branch.rescale, scale_step]
    have h1 := rescale_commutes_with_placeW ℓ c s total f k start
      (pos.1 + ℓ k * c (start + (LAY.nLeaves k : Rat) / (total : Rat) / 2),
       pos.2 + ℓ k * s (start + (LAY.nLeaves k : Rat) / (total : Rat) / 2))
    have h2 := rescale_commutes_with_placeWL ℓ c s total f p ks (start + (LAY.nLeaves k : Rat) / (total : Rat)) pos
    simp only [LAY.rescale] at h1 h2
    rw [← h1, ← h2]
end

/-- the whole drawing (root at the origin) -/
theorem rescale_commutes_with_place (ℓ : Rose → Rat) (c s : Rat → Rat) (total : Nat) (f : Rat) (t : Rose) (start : Rat) :
    placeW (fun t => f * ℓ t) c s total t start (0, 0) = LAY.rescale f (placeW ℓ c s total t start (0, 0)) := by
  have := rescale_commutes_with_placeW ℓ c s total f t start (0, 0)
  simpa using this

mutual
theorem nLeaves_scaleT (f : Int) : ∀ t : Rose, LAY.nLeaves (scaleT f t) = LAY.nLeaves t
  | .node i n l d [] => by rw [scaleT, scaleTL, LAY.nLeaves, LAY.nLeaves]
  | .node i n l d (k :: ks) => by
    rw [scaleT, scaleTL, LAY.nLeaves, LAY.nLeaves, ← scaleTL, nLeavesL_scaleTL f (k :: ks)]
theorem nLeavesL_scaleTL (f : Int) : ∀ ts : List Rose, LAY.nLeavesL (scaleTL f ts) = LAY.nLeavesL ts
  | [] => by rw [scaleTL]
  | t :: ts => by rw [scaleTL, LAY.nLeavesL, LAY.nLeavesL, nLeaves_scaleT f t, nLeavesL_scaleTL f ts]
end

theorem id_scaleT (f : Int) (t : Rose) : (scaleT f t).id = t.id := by cases t; rw [scaleT]; rfl

theorem name_scaleT (f : Int) (t : Rose) : (scaleT f t).name = t.name := by cases t; rw [scaleT]; rfl

theorem lenQ_scaleT (f : Int) (t : Rose) : lenQ (scaleT f t) = (f : Rat) * lenQ t := by
  cases t with
  | node i n l d ks =>
    rw [scaleT]
    cases l with
    | none => simp [lenQ, Rose.len]
    | some v => simp [lenQ, Rose.len, Rat.intCast_mul]

mutual
/-- the tree whose lengths are all multiplied by the integer `f` is drawn as the rescaled drawing -/
theorem rescale_scaled_tree_at (c s : Rat → Rat) (total : Nat) (f : Int) :
    ∀ (t : Rose) (start : Rat) (pos : Rat × Rat),
    place c s total (scaleT f t) start (pos.1 * f, pos.2 * f) = LAY.rescale f (place c s total t start pos)
  | .node i n l d ks, start, pos => by
    rw [scaleT, place_node, place_node]; exact rescale_scaled_treeL_at c s total f i ks start pos
theorem rescale_scaled_treeL_at (c s : Rat → Rat) (total : Nat) (f : Int) (p : Nat) :
    ∀ (ks : List Rose) (start : Rat) (pos : Rat × Rat),
    placeL c s total p (scaleTL f ks) start (pos.1 * f, pos.2 * f) = LAY.rescale f (placeL c s total p ks start pos)
  | [], start, pos => by rw [scaleTL, placeL_nil, placeL_nil]; rfl
  | k :: ks, start, pos => by
    rw [scaleTL, placeL_cons, placeL_cons]
    simp only [LAY.rescale, List.map_cons, List.map_append, Branch.rescale, nLeaves_scaleT, id_scaleT, name_scaleT, lenQ_scaleT,
      scale_step]
    have h1 := rescale_scaled_tree_at c s total f k start
      (pos.1 + lenQ k * c (start + (LAY.nLeaves k : Rat) / (total : Rat) / 2),
       pos.2 + lenQ k * s (start + (LAY.nLeaves k : Rat) / (total : Rat) / 2))
    have h2 := rescale_scaled_treeL_at c s total f p ks (start + (LAY.nLeaves k : Rat) / (total : Rat)) pos
    simp only [LAY.rescale] at h1 h2
    rw [← h1, ← h2]
end

/-- C19, rescaling: drawing the tree with all lengths multiplied by `f` = multiplying every coordinate of
    the drawing by `f` -/
theorem rescale_scaled_tree (c s : Rat → Rat) (f : Int) (t : Rose) :
    place c s (LAY.nLeaves (scaleT f t)) (scaleT f t) 0 (0, 0) = LAY.rescale f (place c s (LAY.nLeaves t) t 0 (0, 0)) := by
  have := rescale_scaled_tree_at c s (LAY.nLeaves t) f t 0 (0, 0)
  rw [nLeaves_scaleT]
  simpa using this

/-! ### B2 (v): a missing length is refused -/

theorem missing_length_refused_coords (c s : Rat → Rat) (t : Rose)
    (h : (layout (LAY.nLeaves t) t 0).any (fun g => g.len.isNone) = true) :
    radialCoords c s t = .err "MissingBranchLengths" := by
  simp [radialCoords, missing_length_refused t h]

/-! ### all coordinate clauses together -/

/-- C19, coordinates: for a tree with distinct ids and all lengths present, and any direction functions on the
    unit circle, the layout is produced; it has one branch (= labelled point) per non-root node, in the order,
    with the parents and the labels of the exact-angle model; each branch has squared Euclidean length equal
    to the squared branch length; the root is at the origin and each branch joins the drawn position of the
    node's parent to the drawn position of the node -/
theorem radial_coords_summary {c s : Rat → Rat} (hcs : ∀ θ, c θ * c θ + s θ * s θ = 1) (t : Rose)
    (hnd : (idsR t).Nodup) (segs : List Seg) (h : radial t = .ok segs) :
    radialCoords c s t = .ok (place c s (LAY.nLeaves t) t 0 (0, 0)) ∧
    (place c s (LAY.nLeaves t) t 0 (0, 0)).length + 1 = size t ∧
    t.id :: (place c s (LAY.nLeaves t) t 0 (0, 0)).map Branch.id = idsR t ∧
    (place c s (LAY.nLeaves t) t 0 (0, 0)).map Branch.parent = segs.map Seg.parent ∧
    (place c s (LAY.nLeaves t) t 0 (0, 0)).map Branch.name = segs.map Seg.name ∧
    Pointwise (fun b g => b.id = g.id ∧ ∃ d : Int, g.len = some d ∧
        (b.xend - b.xstart) * (b.xend - b.xstart) + (b.yend - b.ystart) * (b.yend - b.ystart) = (d : Rat) * (d : Rat))
      (place c s (LAY.nLeaves t) t 0 (0, 0)) segs ∧
    posOf (place c s (LAY.nLeaves t) t 0 (0, 0)) t.id = (0, 0) ∧
    ∀ b ∈ place c s (LAY.nLeaves t) t 0 (0, 0),
      (b.xstart, b.ystart) = posOf (place c s (LAY.nLeaves t) t 0 (0, 0)) b.parent ∧
      (b.xend, b.yend) = posOf (place c s (LAY.nLeaves t) t 0 (0, 0)) b.id := by
  have hsegs : segs = layout (LAY.nLeaves t) t 0 := by
    simp only [radial] at h
    split at h
    · cases h
    · cases h; rfl
  have hj := branches_join_positions c s (LAY.nLeaves t) t 0 hnd
  refine ⟨radialCoords_ok c s t segs h, one_branch_per_non_root_node c s _ t 0 (0, 0),
    place_ids_preorder c s _ t 0 (0, 0), ?_, ?_, branch_lengths hcs t segs h, hj.1, hj.2⟩
  · rw [hsegs]; exact place_parents c s _ t 0 (0, 0)
  · rw [hsegs]; exact place_names c s _ t 0 (0, 0)

/-! ### wedges are nested and sibling wedges disjoint (on the exact-angle model) -/

theorem width_nonneg (a t : Nat) : (0 : Rat) ≤ (a : Rat) / (t : Rat) := by
  rw [Rat.div_def]
  apply Rat.mul_nonneg Rat.natCast_nonneg
  by_cases h : t = 0
  · subst h; simp
  · exact Rat.le_of_lt (Rat.inv_pos.2 (Rat.natCast_pos.2 (by omega)))

theorem width_add (a b t : Nat) : ((a + b : Nat) : Rat) / (t : Rat) = (a : Rat) / t + (b : Rat) / t := by
  rw [Rat.natCast_add, Rat.div_def, Rat.div_def, Rat.div_def, Rat.add_mul]

/-- the wedge `[start, start + width]` of a segment -/
def Seg.within (g : Seg) (lo hi : Rat) : Prop := lo ≤ g.start ∧ g.start + g.width ≤ hi

mutual
/-- NESTING: every wedge handed out below `t` lies inside the wedge of `t` (which starts at `start` and has
    width `leaves(t)/total`) -/
theorem wedges_nested (total : Nat) : ∀ (t : Rose) (start : Rat),
    ∀ g ∈ layout total t start, Seg.within g start (start + (LAY.nLeaves t : Rat) / (total : Rat))
  | .node i n l d [], start => by rw [layout, layoutL]; intro g hg; simp at hg
  | .node i n l d (k :: ks), start => by
    rw [layout, LAY.nLeaves]; exact wedgesL_nested total i (k :: ks) start
theorem wedgesL_nested (total : Nat) (p : Nat) : ∀ (ks : List Rose) (start : Rat),
    ∀ g ∈ layoutL total p ks start, Seg.within g start (start + (LAY.nLeavesL ks : Rat) / (total : Rat))
  | [], start => by rw [layoutL]; intro g hg; simp at hg
  | k :: ks, start => by
    rw [layoutL, LAY.nLeavesL, width_add]
    have h0 := width_nonneg (LAY.nLeaves k) total
    have h0' := width_nonneg (LAY.nLeavesL ks) total
    have h1 := wedges_nested total k start
    have h2 := wedgesL_nested total p ks (start + (LAY.nLeaves k : Rat) / (total : Rat))
    intro g hg
    simp only [List.mem_cons, List.mem_append] at hg
    rcases hg with rfl | hg | hg
    · simp only [Seg.within]; constructor <;> grind
    · have := h1 g hg; simp only [Seg.within] at this ⊢; constructor <;> grind
    · have := h2 g hg; simp only [Seg.within] at this ⊢; constructor <;> grind
end

/-- DISJOINT sibling wedges: the wedge of a node `k`, and every wedge below it, ends no later than where
    the wedge of any later sibling, and every wedge below that sibling, starts -/
theorem sibling_subtrees_disjoint (total p : Nat) (k : Rose) (ks : List Rose) (start : Rat)
    (g1 : Seg) (h1 : g1 ∈ ({ parent := p, id := k.id, start := start, width := (LAY.nLeaves k : Rat) / (total : Rat), len := k.len, name := k.name } : Seg) :: layout total k start)
    (g2 : Seg) (h2 : g2 ∈ layoutL total p ks (start + (LAY.nLeaves k : Rat) / (total : Rat))) :
    g1.start + g1.width ≤ g2.start := by
  have a2 := (wedgesL_nested total p ks _ g2 h2).1
  rcases List.mem_cons.1 h1 with rfl | h1
  · exact a2
  · have a1 := (wedges_nested total k start g1 h1).2
    exact Rat.le_trans a1 a2

mutual
theorem nLeaves_pos : ∀ t : Rose, 0 < LAY.nLeaves t
  | .node i n l d [] => by rw [LAY.nLeaves]; omega
  | .node i n l d (k :: ks) => by rw [LAY.nLeaves]; exact nLeavesL_pos k ks
theorem nLeavesL_pos : ∀ (k : Rose) (ks : List Rose), 0 < LAY.nLeavesL (k :: ks)
  | k, [] => by rw [LAY.nLeavesL]; have := nLeaves_pos k; omega
  | k, k2 :: ks => by rw [LAY.nLeavesL]; have := nLeaves_pos k; omega
end

/-- the whole drawing uses exactly the full turn `[0, 1]` -/
theorem wedges_within_full_turn (t : Rose) : ∀ g ∈ layout (LAY.nLeaves t) t 0, 0 ≤ g.start ∧ g.start + g.width ≤ 1 := by
  intro g hg
  have h := wedges_nested (LAY.nLeaves t) t 0 g hg
  have hne : ((LAY.nLeaves t : Nat) : Rat) ≠ 0 := by
    have := nLeaves_pos t
    simp only [ne_eq, Rat.natCast_eq_zero_iff]; omega
  have e : (0 : Rat) + (LAY.nLeaves t : Rat) / (LAY.nLeaves t : Rat) = 1 := by
    rw [Rat.div_def, Rat.mul_inv_cancel _ hne]; grind
  rw [e] at h
  exact h

/-! ### non-vacuity -/

/-- a rational direction family on the unit circle, not constant: `(3/5, 4/5)` in the first half turn,
    `(-4/5, 3/5)` in the second -/
def cq : Rat → Rat := fun θ => if θ < 1 / 2 then 3 / 5 else -4 / 5
def sq : Rat → Rat := fun θ => if θ < 1 / 2 then 4 / 5 else 3 / 5

theorem cq_sq_unit : ∀ θ, cq θ * cq θ + sq θ * sq θ = 1 := by
  intro θ; simp only [cq, sq]; split <;> decide +kernel

/-- `((B:10,C:5)A:5,D:10);` with ids 0 (root), 1 (A), 3, 4, 2 -/
def exT : Rose :=
  .node 0 none none 0 [.node 1 (some "A") (some 5) 1 [.node 3 (some "B") (some 10) 2 [], .node 4 (some "C") (some 5) 2 []],
    .node 2 (some "D") (some 10) 1 []]

example : (idsR exT).Nodup := by decide

example : ∀ g ∈ layout (LAY.nLeaves exT) exT 0, 0 ≤ g.start ∧ g.start + g.width ≤ 1 := wedges_within_full_turn exT

example : (layout (LAY.nLeaves exT) exT 0).map Seg.angle = [1 / 3, 1 / 6, 1 / 2, 5 / 6] := by decide +kernel

/-- the value / the error kind of a result (`QR` has no decidable equality) -/
def okOf {α : Type} : QR α → Option α | .ok v => some v | _ => none
def errOf {α : Type} : QR α → Option String | .err e => some e | _ => none

/-- the hypotheses of `radial_coords_summary` hold for `exT`, `cq`, `sq` -/
example : (okOf (radial exT)).isSome = true := by decide +kernel

/-- the drawing by evaluation: A at (3,4); B = A + 10·(3/5,4/5); C = A + 5·(-4/5,3/5); D = 10·(-4/5,3/5) -/
example : okOf (radialCoords cq sq exT) = some
    [{ xstart := 0, ystart := 0, xend := 3, yend := 4, parent := 0, id := 1, name := some "A" },
     { xstart := 3, ystart := 4, xend := 9, yend := 12, parent := 1, id := 3, name := some "B" },
     { xstart := 3, ystart := 4, xend := -1, yend := 7, parent := 1, id := 4, name := some "C" },
     { xstart := 0, ystart := 0, xend := -8, yend := 6, parent := 0, id := 2, name := some "D" }] := by decide +kernel

example : posOf (place cq sq (LAY.nLeaves exT) exT 0 (0, 0)) 4 = (-1, 7) ∧
    posOf (place cq sq (LAY.nLeaves exT) exT 0 (0, 0)) 0 = (0, 0) := by decide +kernel

/-- rescaling by 3: by evaluation, in agreement with `rescale_scaled_tree` -/
example : place cq sq (LAY.nLeaves (scaleT 3 exT)) (scaleT 3 exT) 0 (0, 0) =
    [{ xstart := 0, ystart := 0, xend := 9, yend := 12, parent := 0, id := 1, name := some "A" },
     { xstart := 9, ystart := 12, xend := 27, yend := 36, parent := 1, id := 3, name := some "B" },
     { xstart := 9, ystart := 12, xend := -3, yend := 21, parent := 1, id := 4, name := some "C" },
     { xstart := 0, ystart := 0, xend := -24, yend := 18, parent := 0, id := 2, name := some "D" }] := by decide +kernel

/-- a tree with a missing length is refused -/
example : errOf (radialCoords cq sq (.node 0 none none 0 [.node 1 none (some 1) 1 [], .node 2 none none 1 []])) =
    some "MissingBranchLengths" := by decide +kernel

end C19
