import PhyloModel.Arena.Cli
import PhyloModel.Props.C11
import PhyloModel.Arena.QRLemmas
import PhyloModel.Arena.CliCollapse
import PhyloModel.Arena.CliRemove
/-! # C18 — command-line subcommands agree with the library semantics

The tool's own logic is modelled in `Arena/Cli.lean` (`collapse`, `remove`); the other subcommands are direct
compositions of library calls whose content is C06–C09, C11, C12.  The real binary built from the working tree
is run on generated tree files on every check and compared with the library in-process, with independent
computations of the harness, and with the models.  clap's argument parsing, the file system and process exit
codes are modelled, not verified; a panic exit counts as an error exit. -/
namespace C18
open AR

/-- `collapse`, one node: the topology, names and comments of every slot are untouched; the node's own length
    becomes 0 exactly when it has a parent, a length below the threshold, and is not an excluded tip; otherwise
    nothing changes at all -/
theorem collapse_node_exact (thr : Int) (ex : Bool) (a : Arena) (x : Nat) (hx : x < a.size) :
    (∀ i, (nd (collapseNode thr ex a x) i).children = (nd a i).children ∧
          (nd (collapseNode thr ex a x) i).parent = (nd a i).parent ∧
          (nd (collapseNode thr ex a x) i).name = (nd a i).name ∧
          (nd (collapseNode thr ex a x) i).comment = (nd a i).comment ∧
          (nd (collapseNode thr ex a x) i).deleted = (nd a i).deleted) ∧
    (∀ i, i ≠ x → (nd (collapseNode thr ex a x) i).pedge = (nd a i).pedge) ∧
    (nd (collapseNode thr ex a x) x).pedge =
      (if (ex && (nd a x).children.isEmpty) then (nd a x).pedge else
       match (nd a x).parent, (nd a x).pedge with
       | some _, some len => if len < thr then some 0 else some len
       | _, l => l) := by
  unfold collapseNode
  by_cases h1 : (ex && (nd a x).children.isEmpty) = true
  · simp [h1]
  · simp only [h1, Bool.false_eq_true, ↓reduceIte]
    cases hp : (nd a x).parent with
    | none => simp [hp]
    | some p =>
      cases hl : (nd a x).pedge with
      | none => simp [hp, hl]
      | some len =>
        by_cases hlt : len < thr
        · simp only [hlt, ↓reduceIte]
          refine ⟨?_, ?_, ?_⟩
          · intro i
            simp only [nd_set, Array.size_setIfInBounds]
            grind [setCedge_children, setCedge_parent, setCedge_deleted, setCedge]
          · intro i hix
            simp only [nd_set, Array.size_setIfInBounds]
            grind [setCedge_pedge]
          · simp only [nd_set, Array.size_setIfInBounds]
            grind [setCedge_pedge]
        · simp [hlt, hp, hl]

/-- `remove` is the composition: for every named tip `prune` (exact frame: C11.prune_exact), removal of the
    ancestors that lost all children, then `compress` (leaf-to-leaf path lengths kept: C11) -/
theorem remove_is_prune_then_compress (a : Arena) :
    cliRemove a [] = (match compress a with
      | (a2, .ok _) => .ok a2
      | (_, .err k) => .err k
      | (_, _) => .err "CompressFailed") := by
  simp only [cliRemove, List.foldlM_nil, QR.pure_eq, QR.bind_ok]
  rcases compress a with ⟨a2, o⟩
  cases o <;> rfl

/-- a name that does not exist, or names an internal node, is an error exit (the tool panics) -/
theorem remove_rejects_non_tips (a : Arena) (name : String) (rest : List String)
    (h : getByName a name = none ∨ ∃ x, getByName a name = some x ∧ (nd a x).children.isEmpty = false) :
    ∃ k, cliRemove a (name :: rest) = .err k := by
  rcases h with h | ⟨x, h1, h2⟩
  · exact ⟨"NoSuchName", by simp [cliRemove, h, QR.ofOpt]⟩
  · have h3 : ¬ ((nd a x).children = []) := by
      intro he; rw [he] at h2; simp at h2
    exact ⟨"NotATip", by simp [cliRemove, h1, h3, QR.ofOpt]⟩

/-- `rescale` and `resolve` are the library operations (C11) -/
theorem rescale_is_library (a : Arena) (k : Int) (i : Nat) :
    (nd (rescale a k) i).pedge = (nd a i).pedge.map (· * k) := (C11.rescale_every_length a k i).1


/-! ## C18 (continued) — the tool's own loops: `collapse` and `remove`, in full

`Arena/Cli.lean` models the two subcommands whose logic lives in the binary (`src/bin/phylotree/main.rs`).
This file states their contracts over the WHOLE loops, on every arena satisfying the invariant `Good`
(what every edit history and the parser produce, C03):

* `collapse thr [-e]` never fails; it changes nothing but branch lengths; a node's length becomes `0` exactly
  when the node has a parent, is not an excluded tip, and carries a length below the threshold; both records
  of the length (the node's and its parent's) are written, so the invariant still holds.
* `remove names…`, when it exits normally: the result satisfies the invariant, has no one-child non-root node,
  no new tip (the tips of the result are exactly the tips of the input that were not removed), the path length
  between any two remaining tips is what it was, and every name resolved to a live childless node carrying that
  name which is gone from the result.  `cliRemoveTrace` is `cliRemove` instrumented to return also the slots
  the names resolved to (`remove_trace_is_remove`).
-/

open AR

/-! ## collapse -/

/-- the condition under which the loop sets a node's length to zero (definition unfolded) -/
theorem collapses_iff (thr : Int) (ex : Bool) (n : Node) :
    Collapses thr ex n ↔
      (n.parent.isSome = true ∧ ¬ (ex = true ∧ n.children = []) ∧ ∃ len, n.pedge = some len ∧ len < thr) :=
  Iff.rfl

/-- **`collapse`, the whole loop**, on any arena satisfying the invariant that has a root `r`: the call
    succeeds; for EVERY slot the children, parent, name, comment, tombstone flag and depth are unchanged; a
    node below the root gets length `0` iff `Collapses` holds for it and keeps its length otherwise; slots
    not below the root are untouched; the result satisfies the invariant, in particular every parent's
    record of a child's length is the child's own -/
theorem collapse_whole_loop {a : Arena} (g : Good a) {r : Nat} (hr : getRoot a = some r) (thr : Int) (ex : Bool) :
    ∃ a', cliCollapse a thr ex = .ok a' ∧ Good a' ∧ a'.size = a.size ∧
      (∀ i, (nd a' i).children = (nd a i).children ∧ (nd a' i).parent = (nd a i).parent ∧
        (nd a' i).name = (nd a i).name ∧ (nd a' i).comment = (nd a i).comment ∧
        (nd a' i).deleted = (nd a i).deleted ∧ (nd a' i).depth = (nd a i).depth) ∧
      (∀ i, (∃ k, BelowK a r i k) →
        (nd a' i).pedge = if Collapses thr ex (nd a i) then some 0 else (nd a i).pedge) ∧
      (∀ i, (¬ ∃ k, BelowK a r i k) → nd a' i = nd a i) ∧
      (∀ p c, live a p → c ∈ (nd a p).children → alGet (nd a' p).cedges c = (nd a' c).pedge) := by
  obtain ⟨a', e, g', hsz, hfr, hin, hout⟩ := cliCollapse_spec g hr thr ex
  refine ⟨a', e, g', hsz, hfr, ?_, hout, ?_⟩
  · intro i hi
    rw [hin i hi, collapsedPedge_eq_ite]
  · intro p c hl hc
    obtain ⟨f1, _, _, _, f5, _⟩ := hfr p
    have hl' : live a' p := ⟨by rw [hsz]; exact hl.1, by rw [f5]; exact hl.2⟩
    exact (g'.1.child_ok p c hl' (by rw [f1]; exact hc)).2.2.2

/-- **`collapse`, every slot**: when the live nodes form one tree (at most one parentless live node — every
    tree the parser builds), the new length of EVERY slot `i` is
    `if live a i ∧ Collapses thr ex (nd a i) then some 0 else (nd a i).pedge` -/
theorem collapse_every_slot {a : Arena} (g : Good a) (h1 : AtMostOneRoot a) {r : Nat} (hr : getRoot a = some r)
    (thr : Int) (ex : Bool) :
    ∃ a', cliCollapse a thr ex = .ok a' ∧ Good a' ∧ a'.size = a.size ∧
      (∀ i, (nd a' i).children = (nd a i).children ∧ (nd a' i).parent = (nd a i).parent ∧
        (nd a' i).name = (nd a i).name ∧ (nd a' i).comment = (nd a i).comment ∧
        (nd a' i).deleted = (nd a i).deleted ∧ (nd a' i).depth = (nd a i).depth) ∧
      (∀ i, (nd a' i).pedge = if live a i ∧ Collapses thr ex (nd a i) then some 0 else (nd a i).pedge) :=
  cliCollapse_spec_all g h1 hr thr ex

/-- without a root the tool panics (an error exit) -/
theorem collapse_no_root {a : Arena} (hr : getRoot a = none) (thr : Int) (ex : Bool) :
    cliCollapse a thr ex = .err "RootNotFound" := by
  simp [cliCollapse, root, hr, QR.ofOpt]

/-! ## remove -/

/-- the instrumented run returns the arena `cliRemove` returns (and the same errors) -/
theorem remove_trace_is_remove (a : Arena) (tips : List String) :
    cliRemove a tips = (cliRemoveTrace a tips).fst :=
  cliRemoveTrace_fst a tips

/-- **general composition lemma** (replaces `C18.remove_is_prune_then_compress`, which covered the empty list
    only): one round of the loop — the name is looked up, must name a childless node, that node is pruned, the
    ancestors that lost all their children are pruned — then `remove` on the remaining names -/
theorem remove_unfold (a : Arena) (name : String) (rest : List String) :
    cliRemove a (name :: rest) =
      (match getByName a name with
       | none => .err "NoSuchName"
       | some x =>
         if !(nd a x).children.isEmpty then .err "NotATip" else
         match prune a x with
         | (a1, .ok _) => cliRemove (pruneEmptied (fuelOf a) a1 (nd a x).parent) rest
         | _ => .err "PruneFailed") := by
  rw [cliRemove_eq, List.foldlM_cons, removeStep]
  cases getByName a name with
  | none => rfl
  | some x =>
    simp only [QR.ofOpt, QR.bind_ok, removeNode]
    split
    · rfl
    · rcases prune a x with ⟨a1, o⟩
      cases o with
      | ok _ => simp only [QR.bind_ok]; rw [cliRemove_eq]
      | err k => rfl
      | panic => rfl
      | diverge => rfl

/-- ... and the empty list of names is the final `compress` -/
theorem remove_nil (a : Arena) : cliRemove a [] = compressQ a := by
  rw [cliRemove_eq]; rfl

/-- a round on a name that resolves to a live childless node never fails -/
theorem remove_round_total {a : Arena} (g : Good a) {name : String} {x : Nat} (hn : getByName a name = some x)
    (ht : IsTip a x) : ∃ a1, removeStep a name = .ok a1 ∧ Good a1 := by
  obtain ⟨a1, hp, ok⟩ := prune_ok_of_live g ht.1
  have hr : removeNode a x = .ok (pruneEmptied (fuelOf a) a1 (nd a x).parent) := by
    simp [removeNode, ht.2, hp]
  refine ⟨pruneEmptied (fuelOf a) a1 (nd a x).parent, by simp [removeStep, hn, QR.ofOpt, hr], ?_⟩
  exact (removeNode_spec g (Shrunk.refl a) (fun i _ _ hc _ => hc) hr).2.1

/-- **outcomes of `remove`**: on an arena satisfying the invariant the model never panics and never exhausts
    its fuel (the climb over emptied ancestors ends, `prune` and `compress` terminate); an error exit is one of
    the tool's own panics (`NoSuchName`, `NotATip`, `PruneFailed` = the name resolved to a removed slot) or the
    error value `compress` returned on the pruned tree -/
theorem remove_outcomes {a : Arena} (g : Good a) (tips : List String) :
    (∃ a', cliRemove a tips = .ok a') ∨
    (∃ k, cliRemove a tips = .err k ∧ (k = "NoSuchName" ∨ k = "NotATip" ∨ k = "PruneFailed" ∨
      ∃ a1, Good a1 ∧ (compress a1).2 = .err k)) :=
  cliRemove_outcome g tips

/-- **contract of `remove`**.  `a`: the tree read (invariant, at most one root); `a'`: the tree printed.
    There is a list `xs` of slots, the ones the names resolved to in order (`cliRemoveTrace`), without
    repetition, such that
    (a) `a'` satisfies the invariant and has at most one root;
    (b) no live non-root node of `a'` has exactly one child;
    (c) nothing comes back to life; a tip of `a` not in `xs` is a tip of `a'`; a tip of `a'` is a tip of `a` not
        in `xs` — NO NEW TIP — the only exception being the root of `a` once every tip of `a` has been removed;
        any two distinct tips of `a'` are at the same path length in `a'` as in `a` (edge count not larger);
    (d) each name resolved to a slot that is live in `a`, carries that name, is childless in `a` (or is the
        root of `a`: the exception of (c), removed by a later name), and is not live in `a'`. -/
theorem remove_contract {a a' : Arena} {tips : List String} (g : Good a) (h1 : AtMostOneRoot a)
    (h : cliRemove a tips = .ok a') :
    ∃ xs, cliRemoveTrace a tips = .ok (a', xs) ∧ xs.Nodup ∧
      Good a' ∧ AtMostOneRoot a' ∧ (∀ i, ¬ Unary a' i) ∧
      (∀ i, live a' i → live a i) ∧
      (∀ i, IsTip a i → i ∉ xs → IsTip a' i) ∧
      (∀ i, IsTip a' i → (IsTip a i ∧ i ∉ xs) ∨ (isRoot a i ∧ ¬ IsTip a i ∧ ∀ j, IsTip a j → j ∈ xs)) ∧
      (∀ x y, IsTip a' x → IsTip a' y → x ≠ y →
        ∃ d n n', distance a x y = .ok (d, n) ∧ distance a' x y = .ok (d, n') ∧ n' ≤ n) ∧
      List.Forall₂ (fun name x => (live a x ∧ (nd a x).name = some name ∧
        ((nd a x).children = [] ∨ (nd a x).parent = none)) ∧ ¬ live a' x) tips xs := by
  obtain ⟨xs, hx⟩ := (cliRemove_ok_iff a a' tips).1 h
  exact ⟨xs, hx, cliRemoveTrace_nodup g hx, cliRemove_contract g h1 hx⟩

/-- (d), "at its turn": in the instrumented run the first slot is what the first name resolves to in the
    current arena — a live childless node carrying that name — and the rest of the run is the run on the
    remaining names from the arena this round leaves (which satisfies the invariant again) -/
theorem remove_trace_round {b b2 : Arena} {name : String} {rest : List String} {ys : List Nat} (gb : Good b)
    (h : removeLoopT b (name :: rest) = .ok (b2, ys)) :
    ∃ x b1 xs, ys = x :: xs ∧ getByName b name = some x ∧ IsTip b x ∧ (nd b x).name = some name ∧
      removeNode b x = .ok b1 ∧ Good b1 ∧ removeLoopT b1 rest = .ok (b2, xs) :=
  removeLoopT_cons_ok gb h

/-- the instrumented run is the instrumented loop followed by the final `compress` -/
theorem remove_trace_ok {a a' : Arena} {tips : List String} {xs : List Nat}
    (h : cliRemoveTrace a tips = .ok (a', xs)) :
    ∃ a1 o, removeLoopT a tips = .ok (a1, xs) ∧ compress a1 = (a', .ok o) := by
  unfold cliRemoveTrace at h
  split at h
  next a1 xs' hloop =>
    split at h
    next a2 hcq =>
      injection h with h; injection h with e1 e2
      subst e1 e2
      obtain ⟨o, ho⟩ := compressQ_ok hcq
      exact ⟨a1, o, hloop, ho⟩
    · cases h
    · cases h
  · cases h
  · cases h

/-- **the tips after `remove`**: as soon as one tip of the input survives, the tips of the result are exactly
    the tips of the input that were not removed -/
theorem remove_tips_exact {a a' : Arena} {tips : List String} {xs : List Nat} (g : Good a)
    (h1 : AtMostOneRoot a) (h : cliRemoveTrace a tips = .ok (a', xs)) (hs : ∃ j, IsTip a j ∧ j ∉ xs) (i : Nat) :
    IsTip a' i ↔ (IsTip a i ∧ i ∉ xs) :=
  cliRemove_tips g h1 h hs i

/-! ## non-vacuity: `((A:3,B:4):1,C:2,(D:1):5);` — root 0, inner node 1 with tips 3 = A, 4 = B, tip 2 = C, and
    the one-child node 5 above the tip 6 = D -/

def exOps : List Op := [.add none, .addChild 0 (some 1) none, .addChild 0 (some 2) (some "C"),
  .addChild 1 (some 3) (some "A"), .addChild 1 (some 4) (some "B"), .addChild 0 (some 5) none,
  .addChild 5 (some 1) (some "D")]
def exT : Arena := runOps #[] exOps

theorem exT_good : Good exT := runOps_good _ empty_good

theorem exT_oneRoot : AtMostOneRoot exT :=
  (runOps_oneRoot exOps empty_good (fun i _ hi => absurd hi.1.1 (by simp))
    ⟨fun i hi => absurd hi.1.1 (by simp), trivial, trivial, trivial, trivial, trivial, trivial, trivial⟩).2

theorem exT_root : getRoot exT = some 0 := by decide

/-- `collapse 3`: nodes 1, 2 and 6 (lengths 1, 2, 1) are collapsed, nodes 3, 4, 5 (lengths 3, 4, 5) are not, the
    root has no length -/
example : Collapses 3 false (nd exT 1) ∧ Collapses 3 false (nd exT 2) ∧ Collapses 3 false (nd exT 6) ∧
    ¬ Collapses 3 false (nd exT 3) ∧ ¬ Collapses 3 false (nd exT 5) ∧ ¬ Collapses 3 false (nd exT 0) := by decide

/-- with `-e` the tips 2 and 6 are excluded -/
example : Collapses 3 true (nd exT 1) ∧ ¬ Collapses 3 true (nd exT 2) ∧ ¬ Collapses 3 true (nd exT 6) := by decide

/-- the executable model on this tree, against the theorem -/
example : ((cliCollapse exT 3 false).getD #[]).toList.map (·.pedge) =
    [none, some 0, some 0, some 3, some 4, some 5, some 0] := by decide

/-- the hypotheses of `collapse_every_slot` hold for this tree; two of its conclusions spelled out -/
example : ∃ a', cliCollapse exT 3 true = .ok a' ∧ (nd a' 1).pedge = some 0 ∧ (nd a' 2).pedge = some 2 ∧
    alGet (nd a' 0).cedges 1 = some 0 := by
  obtain ⟨a', e, g', hsz, hf, hp⟩ := collapse_every_slot exT_good exT_oneRoot exT_root 3 true
  have h1 : (nd a' 1).pedge = some 0 := by rw [hp 1]; decide
  have h2 : (nd a' 2).pedge = some 2 := by rw [hp 2]; decide
  refine ⟨a', e, h1, h2, ?_⟩
  have hl : live a' 0 := ⟨by rw [hsz]; decide, by rw [(hf 0).2.2.2.2.1]; decide⟩
  have hc : 1 ∈ (nd a' 0).children := by rw [(hf 0).1]; decide
  rw [(g'.1.child_ok 0 1 hl hc).2.2.2, h1]

/-- `remove D A`: the names resolve to the slots 6 and 3; the run succeeds -/
def exR : Arena := (cliRemove exT ["D", "A"]).getD #[]

theorem exR_run : cliRemoveTrace exT ["D", "A"] = .ok (exR, [6, 3]) := by
  have h1 : (cliRemoveTrace exT ["D", "A"]).isOk = true := by decide
  have h2 := QR.eq_ok h1 (#[], [])
  have h3 : ((cliRemoveTrace exT ["D", "A"]).getD (#[], [])).2 = [6, 3] := by decide
  have h4 : ((cliRemoveTrace exT ["D", "A"]).getD (#[], [])).1 = exR := by
    unfold exR
    rw [remove_trace_is_remove, h2]
    rfl
  rw [h2]
  exact congrArg QR.ok (Prod.ext h4 h3)

theorem exR_ok : cliRemove exT ["D", "A"] = .ok exR :=
  (cliRemove_ok_iff _ _ _).2 ⟨_, exR_run⟩

/-- the hypotheses of `remove_contract` / `remove_tips_exact` hold: the tips 4 = B and 2 = C survive, at the
    same path length 7 (over one edge less: node 1 was left with one child and is spliced out); node 5, which
    lost its only child, is gone and is NOT a new tip -/
example : IsTip exT 4 ∧ IsTip exT 2 ∧ 4 ∉ [6, 3] ∧ IsTip exR 4 ∧ IsTip exR 2 ∧ ¬ live exR 5 ∧ ¬ live exR 6 ∧
    ¬ live exR 3 ∧ ¬ live exR 1 ∧
    distance exT 4 2 = .ok (some 7, 3) ∧ distance exR 4 2 = .ok (some 7, 2) := by
  refine ⟨by decide, by decide, by decide, ?_, ?_, by decide, by decide, by decide, by decide,
    distIs_eq (by decide), distIs_eq (by decide)⟩
  · exact (remove_tips_exact exT_good exT_oneRoot exR_run ⟨4, by decide, by decide⟩ 4).2 ⟨by decide, by decide⟩
  · exact (remove_tips_exact exT_good exT_oneRoot exR_run ⟨4, by decide, by decide⟩ 2).2 ⟨by decide, by decide⟩

example : ∃ xs, cliRemoveTrace exT ["D", "A"] = .ok (exR, xs) ∧ xs.Nodup ∧ Good exR ∧ AtMostOneRoot exR ∧
    (∀ i, ¬ Unary exR i) := by
  obtain ⟨xs, h1, h2, h3, h4, h5, _⟩ := remove_contract exT_good exT_oneRoot exR_ok
  exact ⟨xs, h1, h2, h3, h4, h5⟩

/-- the degenerate case of (c): `(A:1)R;` — after `remove A` the root is the only node left (a childless
    root that was not a tip of the input); `remove A R` then prunes the root as well -/
def exDOps : List Op := [.add (some "R"), .addChild 0 (some 1) (some "A")]
def exD : Arena := runOps #[] exDOps

example : Good exD ∧ AtMostOneRoot exD ∧ (cliRemoveTrace exD ["A"]).isOk = true ∧
    ((cliRemoveTrace exD ["A"]).getD (#[], [])).2 = [1] ∧
    IsTip ((cliRemoveTrace exD ["A"]).getD (#[], [])).1 0 ∧ ¬ IsTip exD 0 ∧
    ((cliRemoveTrace exD ["A", "R"]).getD (#[], [])).2 = [1, 0] := by
  refine ⟨runOps_good _ empty_good, ?_, by decide, by decide, by decide, by decide, by decide⟩
  exact (runOps_oneRoot exDOps empty_good (fun i _ hi => absurd hi.1.1 (by simp))
    ⟨fun i hi => absurd hi.1.1 (by simp), trivial, trivial⟩).2

/-- error exits of `remove` on this tree: unknown name, internal node -/
example : cliRemove exT ["X"] = .err "NoSuchName" := by
  rw [remove_unfold]; rfl

end C18
