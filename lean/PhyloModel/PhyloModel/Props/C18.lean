import PhyloModel.Arena.Cli
import PhyloModel.Props.C11
import PhyloModel.Arena.QRLemmas
/-! # C18 — command-line subcommands agree with the library semantics

The tool's own logic is modelled in `Arena/Cli.lean` (`collapse`, `remove`); the other subcommands are direct
compositions of library calls whose content is C06–C09, C11, C12.  The real binary built from the working tree
is run on generated tree files on every check and compared with the library in-process, with independent
computations of the harness, and with the models.  clap's argument parsing, the file system and process exit
codes are modelled, not verified; a panic exit counts as an error exit. -/
namespace C18
open AR

/-- `collapse`, one node: the topology, names and comments of every slot are untouched; the node's own length
    becomes 0 exactly when it has a parent, a length below the threshold, and is not an excluded tip; otherwise
    nothing changes at all -/
theorem collapse_node_exact (thr : Int) (ex : Bool) (a : Arena) (x : Nat) (hx : x < a.size) :
    (∀ i, (nd (collapseNode thr ex a x) i).children = (nd a i).children ∧
          (nd (collapseNode thr ex a x) i).parent = (nd a i).parent ∧
          (nd (collapseNode thr ex a x) i).name = (nd a i).name ∧
          (nd (collapseNode thr ex a x) i).comment = (nd a i).comment ∧
          (nd (collapseNode thr ex a x) i).deleted = (nd a i).deleted) ∧
    (∀ i, i ≠ x → (nd (collapseNode thr ex a x) i).pedge = (nd a i).pedge) ∧
    (nd (collapseNode thr ex a x) x).pedge =
      (if (ex && (nd a x).children.isEmpty) then (nd a x).pedge else
       match (nd a x).parent, (nd a x).pedge with
       | some _, some len => if len < thr then some 0 else some len
       | _, l => l) := by
  unfold collapseNode
  by_cases h1 : (ex && (nd a x).children.isEmpty) = true
  · simp [h1]
  · simp only [h1, Bool.false_eq_true, ↓reduceIte]
    cases hp : (nd a x).parent with
    | none => simp [hp]
    | some p =>
      cases hl : (nd a x).pedge with
      | none => simp [hp, hl]
      | some len =>
        by_cases hlt : len < thr
        · simp only [hlt, ↓reduceIte]
          refine ⟨?_, ?_, ?_⟩
          · intro i
            simp only [nd_set, Array.size_setIfInBounds]
            grind [setCedge_children, setCedge_parent, setCedge_deleted, setCedge]
          · intro i hix
            simp only [nd_set, Array.size_setIfInBounds]
            grind [setCedge_pedge]
          · simp only [nd_set, Array.size_setIfInBounds]
            grind [setCedge_pedge]
        · simp [hlt, hp, hl]

/-- `remove` is the composition: for every named tip `prune` (exact frame: C11.prune_exact), removal of the
    ancestors that lost all children, then `compress` (leaf-to-leaf path lengths kept: C11) -/
theorem remove_is_prune_then_compress (a : Arena) :
    cliRemove a [] = (match compress a with
      | (a2, .ok _) => .ok a2
      | (_, .err k) => .err k
      | (_, _) => .err "CompressFailed") := by
  simp only [cliRemove, List.foldlM_nil, QR.pure_eq, QR.bind_ok]
  rcases compress a with ⟨a2, o⟩
  cases o <;> rfl

/-- a name that does not exist, or names an internal node, is an error exit (the tool panics) -/
theorem remove_rejects_non_tips (a : Arena) (name : String) (rest : List String)
    (h : getByName a name = none ∨ ∃ x, getByName a name = some x ∧ (nd a x).children.isEmpty = false) :
    ∃ k, cliRemove a (name :: rest) = .err k := by
  rcases h with h | ⟨x, h1, h2⟩
  · exact ⟨"NoSuchName", by simp [cliRemove, h, QR.ofOpt]⟩
  · have h3 : ¬ ((nd a x).children = []) := by
      intro he; rw [he] at h2; simp at h2
    exact ⟨"NotATip", by simp [cliRemove, h1, h3, QR.ofOpt]⟩

/-- `rescale` and `resolve` are the library operations (C11) -/
theorem rescale_is_library (a : Arena) (k : Int) (i : Nat) :
    (nd (rescale a k) i).pedge = (nd a i).pedge.map (· * k) := (C11.rescale_every_length a k i).1

end C18
