import PhyloModel.Matrix.StoreLemmas
/-! # C13 — distance-matrix storage is a faithful symmetric table

`Tri.idx i j = i(i-1)/2 + j` is `tril_to_rowvec_index` on `j < i`; `MX.cell` is the same on an unordered
pair; `MXS.invIdx` is the integer inverse (the crate's `rowvec_to_tril_index` computes it with `f64::sqrt`:
that function is compared with an integer inverse through the hook at every triangular-number boundary below
2^50 — a check resting on IEEE monotonicity, not a theorem).  `MXS.get/set/toMap/indexedIter/extremum` mirror
the by-name API.  All statements hold for every matrix size. -/
namespace C13
open Tri MX MXS

/-- each unordered pair of distinct taxa below `n` corresponds to exactly one cell below `n(n-1)/2` ... -/
theorem pair_to_cell (n i j : Nat) (hij : i ≠ j) (hi : i < n) (hj : j < n) :
    cell i j < T n ∧ cell i j = cell j i ∧ 2 * T n = n * (n - 1) :=
  ⟨cell_lt hij hi hj, cell_symm i j hij, T_closed n⟩

/-- ... distinct unordered pairs to distinct cells ... -/
theorem cell_injective {i j i' j' : Nat} (h : i ≠ j) (h' : i' ≠ j') (hc : cell i j = cell i' j') :
    (i = i' ∧ j = j') ∨ (i = j' ∧ j = i') := cell_inj h h' hc

/-- ... and each cell to exactly one pair, computed by the integer inverse -/
theorem cell_to_pair (n k : Nat) (hk : k < T n) :
    (invIdx k).2 < (invIdx k).1 ∧ (invIdx k).1 < n ∧ cell (invIdx k).1 (invIdx k).2 = k ∧
    (∀ i j, j < i → idx i j = k → (i, j) = invIdx k) := by
  obtain ⟨h1, h2⟩ := invIdx_spec k
  refine ⟨h1, invIdx_lt n k hk, ?_, ?_⟩
  · simp only [cell]; have : (invIdx k).1 > (invIdx k).2 := h1; simp [this, h2]
  · intro i j hji hidx
    rw [← hidx, invIdx_idx i j hji]

/-- index-level store law: a value set for a pair is read back for that pair in either order and for no
    other pair; identical indices read zero -/
theorem get_set_index (m : MX.Mat) (hsz : m.v.size = T m.n) (i j i' j' : Nat) (x : Int) (hij : i ≠ j)
    (hi : i < m.n) (hj : j < m.n) (hij' : i' ≠ j') :
    MX.get (MX.set m i j x) i' j' = (if (i' = i ∧ j' = j) ∨ (i' = j ∧ j' = i) then x else MX.get m i' j') ∧
    MX.get m i i = 0 :=
  ⟨MX.get_set m hsz i j i' j' x hij hi hj hij', by simp [MX.get]⟩

variable {α : Type} [Inhabited α]

/-- by-name API: identical taxa always read zero, and `set` on identical taxa is accepted iff the value is zero -/
theorem diagonal (zero : α) (isZero : α → Bool) (m : Mat α) (a : String) (x : α) :
    MXS.get zero m a a = .ok zero ∧ (MXS.set isZero m a a x).1 = m ∧
    (MXS.set isZero m a a x).2 = (if isZero x then .ok () else .err "NonZeroIdenticalDistance") := by
  simp [MXS.get, MXS.set]

/-- by-name store law: after a successful `set a b x` (distinct known taxa), `get a b` and `get b a` read `x`
    and every other unordered pair of known taxa reads what it read before -/
theorem get_set_by_name (zero : α) (isZero : α → Bool) (m : Mat α) (a b a' b' : String) (x : α)
    (i j i' j' : Nat) (hab : (a == b) = false) (hab' : (a' == b') = false)
    (ha : taxonIdx m a = some i) (hb : taxonIdx m b = some j) (ha' : taxonIdx m a' = some i')
    (hb' : taxonIdx m b' = some j') (hij : i ≠ j) (hij' : i' ≠ j')
    (hi : i < size m) (hj : j < size m) (hi' : i' < size m) (hj' : j' < size m) (hsz : m.v.size = T (size m)) :
    (MXS.set isZero m a b x).2 = .ok () ∧
    MXS.get zero (MXS.set isZero m a b x).1 a' b' =
      if (i' = i ∧ j' = j) ∨ (i' = j ∧ j' = i) then .ok x else MXS.get zero m a' b' := by
  have hlt := cell_lt hij hi hj
  have hlt' := cell_lt hij' hi' hj'
  have hc : cellOf m i j = some (cell i j) := by
    unfold cellOf; have : ¬ (i = j ∨ i ≥ size m ∨ j ≥ size m) := by omega
    simp [this]
  have hc' : ∀ (m' : Mat α), size m' = size m → cellOf m' i' j' = some (cell i' j') := by
    intro m' hs; unfold cellOf; have : ¬ (i' = j' ∨ i' ≥ size m' ∨ j' ≥ size m') := by omega
    simp [this]
  have hset : MXS.set isZero m a b x = ({ m with v := m.v.setIfInBounds (cell i j) x }, .ok ()) := by
    simp [MXS.set, hab, ha, hb, hc, hsz, hlt]
  rw [hset]
  refine ⟨rfl, ?_⟩
  have ht : ∀ n, taxonIdx ({ m with v := m.v.setIfInBounds (cell i j) x } : Mat α) n = taxonIdx m n := fun n => rfl
  have hc2 : cellOf ({ m with v := m.v.setIfInBounds (cell i j) x } : Mat α) i' j' = some (cell i' j') := hc' _ rfl
  have hc3 : cellOf m i' j' = some (cell i' j') := hc' m rfl
  simp only [MXS.get, hab', ht, ha', hb', hc2, hc3, Bool.false_eq_true, ↓reduceIte, Array.size_setIfInBounds, hsz, hlt',
    Array.getD_eq_getD_getElem?, Array.getElem?_setIfInBounds]
  by_cases hcc : cell i j = cell i' j'
  · have := cell_inj hij hij' hcc
    have hcond : (i' = i ∧ j' = j) ∨ (i' = j ∧ j' = i) := by
      rcases this with ⟨p, q⟩ | ⟨p, q⟩
      · exact Or.inl ⟨p.symm, q.symm⟩
      · exact Or.inr ⟨q.symm, p.symm⟩
    simp [hcc, hcond, hsz, hlt']
  · have hcond : ¬ ((i' = i ∧ j' = j) ∨ (i' = j ∧ j' = i)) := by
      rintro (⟨p, q⟩ | ⟨p, q⟩)
      · subst p q; exact hcc rfl
      · subst p q; exact hcc (cell_symm j' i' hij)
    simp [hcc, hcond]

/-- indexed iteration lists every cell once, under the pair the index functions assign to it -/
theorem indexed_iter_spec (m : Mat α) (k : Nat) (hk : k < m.v.size) :
    (indexedIter m)[k]? = some (invIdx k, m.v.getD k default) ∧ (indexedIter m).length = m.v.size ∧
    cell (invIdx k).1 (invIdx k).2 = k := by
  obtain ⟨h1, h2⟩ := invIdx_spec k
  refine ⟨by simp [indexedIter, hk], by simp [indexedIter], ?_⟩
  simp only [cell]; have : (invIdx k).1 > (invIdx k).2 := h1; simp [this, h2]

/-- the pair-keyed map contains exactly the ordered pairs of taxa, each with the value `get` returns -/
theorem to_map_spec (zero : α) (m : Mat α) (e : (String × String) × Res α) :
    e ∈ toMap zero m ↔ e.1.1 ∈ m.taxa ∧ e.1.2 ∈ m.taxa ∧ e.2 = MXS.get zero m e.1.1 e.1.2 := by
  simp only [toMap, List.mem_flatMap, List.mem_map]
  constructor
  · rintro ⟨a, ha, b, hb, rfl⟩; exact ⟨ha, hb, rfl⟩
  · rintro ⟨ha, hb, he⟩; exact ⟨e.1.1, ha, e.1.2, hb, by rw [← he]⟩

/-- with repeated taxon labels the list holds several entries under one key; they all carry the same value (the one `get`
    returns for the labels), so collecting the entries into a hash map yields the same map in whatever order they are
    inserted — the pair-keyed map is a function of the labelled matrix -/
theorem to_map_functional (zero : α) (m : Mat α) (e e' : (String × String) × Res α)
    (h : e ∈ toMap zero m) (h' : e' ∈ toMap zero m) (hk : e.1 = e'.1) : e.2 = e'.2 := by
  have h1 := ((to_map_spec zero m e).1 h).2.2
  have h2 := ((to_map_spec zero m e').1 h').2.2
  rw [h1, h2, hk]

/-- minimum / maximum search returns an entry of the indexed iteration (hence a value `get` returns for its pair) -/
theorem extremum_spec (lt : α → α → Bool) (m : Mat α) (r : (Nat × Nat) × α) (h : extremum lt m = some r) : r ∈ indexedIter m := by
  unfold extremum at h
  have key : ∀ (l : List ((Nat × Nat) × α)) (acc : Option ((Nat × Nat) × α)) (r : (Nat × Nat) × α),
      l.foldl (fun acc x => match acc with
        | none => some x
        | some a => if lt x.2 a.2 then some x else some a) acc = some r → r ∈ l ∨ acc = some r := by
    intro l
    induction l with
    | nil => intro acc r h; right; simpa using h
    | cons x xs ih =>
      intro acc r h
      simp only [List.foldl_cons] at h
      rcases ih _ r h with h1 | h1
      · left; simp [h1]
      · cases acc with
        | none => simp at h1; left; simp [h1]
        | some a =>
          simp only at h1
          split at h1
          · simp at h1; left; simp [h1]
          · right; exact h1
  rcases key _ none r h with h1 | h1
  · exact h1
  · cases h1

/-- the `i`-th label of a duplicate-free taxon list is found at position `i` -/
theorem label_position (m : Mat α) (hn : m.taxa.Nodup) (i : Nat) (hi : i < m.taxa.length) :
    taxonIdx m (m.taxa[i]) = some i := by
  unfold taxonIdx
  have : m.taxa.findIdx (· == m.taxa[i]) = i := by
    have := List.Nodup.idxOf_getElem hn i hi
    simpa [List.idxOf] using this
  simp [this, hi]

/-- **relabelling** (`set_taxa`): with as many new distinct labels as the matrix has taxa the call succeeds, no cell
    changes, and from then on the pair of NEW labels at positions `(i, j)` reads exactly the cell the pair of OLD
    labels at those positions read — by-name access always resolves through the current labels, whatever was
    looked up before -/
theorem relabel (zero : α) (m : Mat α) (t' : List String) (hlen : t'.length = m.taxa.length)
    (hn : m.taxa.Nodup) (hn' : t'.Nodup) (i j : Nat) (hi : i < m.taxa.length) (hj : j < m.taxa.length) :
    (setTaxa m t').2 = .ok () ∧ (setTaxa m t').1.v = m.v ∧ (setTaxa m t').1.taxa = t' ∧
    MXS.get zero (setTaxa m t').1 (t'[i]'(by omega)) (t'[j]'(by omega)) = MXS.get zero m (m.taxa[i]) (m.taxa[j]) := by
  have hs : setTaxa m t' = ({ m with taxa := t' }, .ok ()) := by simp [setTaxa, size, hlen]
  rw [hs]
  refine ⟨rfl, rfl, rfl, ?_⟩
  have hi' : i < t'.length := by omega
  have hj' : j < t'.length := by omega
  have e1 := label_position ({ m with taxa := t' } : Mat α) hn' i hi'
  have e2 := label_position ({ m with taxa := t' } : Mat α) hn' j hj'
  have e3 := label_position m hn i hi
  have e4 := label_position m hn j hj
  by_cases hij : i = j
  · subst hij; simp [MXS.get]
  · have d1 : (t'[i] == t'[j]) = false := by
      simp only [beq_eq_false_iff_ne, ne_eq]
      intro h; exact hij ((List.getElem_inj hn').mp h)
    have d2 : (m.taxa[i] == m.taxa[j]) = false := by
      simp only [beq_eq_false_iff_ne, ne_eq]
      intro h; exact hij ((List.getElem_inj hn).mp h)
    simp only [MXS.get, d1, d2, Bool.false_eq_true, ↓reduceIte]
    simp only [] at e1 e2
    rw [e1, e2, e3, e4]
    simp [cellOf, size, hlen]

/-- a label list of the wrong length is refused and nothing changes -/
theorem relabel_refused (m : Mat α) (t' : List String) (h : t'.length ≠ m.taxa.length) :
    setTaxa m t' = (m, .err "SizeError") := by
  simp [setTaxa, size, h]

/-- non-vacuity: the four-taxon layout of the crate's unit test -/
example : (List.range 6).map invIdx = [(1, 0), (2, 0), (2, 1), (3, 0), (3, 1), (3, 2)] := by decide

/-- uniqueness of the row: `T i ≤ k < T (i+1)` determines `i` (for `i ≥ 1`) -/
theorem row_unique {k i j : Nat} (h1 : T i ≤ k) (h2 : k < T (i + 1)) (g1 : T j ≤ k)
    (g2 : k < T (j + 1)) : i = j := by
  apply Classical.byContradiction; intro hne
  rcases Nat.lt_or_gt_of_ne hne with h | h
  · have := T_mono (i := i + 1) (j := j) (by omega); omega
  · have := T_mono (i := j + 1) (j := i) (by omega); omega

/-- **the floating-point inverse index, under an explicit hypothesis about the square root.**
    `rowvec_to_tril_index` computes `p = floor((sqrt(8k+1) − 1)/2)`, `i = p + 1`, `j = k − p(p+1)/2` in `f64`.  Let `s` be
    the value the hardware returns for `sqrt(8k+1)`, read as a rational.  The ONLY fact used about it is
    `∀ m, m ≤ s ↔ m² ≤ 8k+1` — which holds for an IEEE-754 square root whenever `8k+1 < 2^53`: the argument and every
    integer `m ≤ 2^26` are exactly representable, `sqrt` is correctly rounded, hence monotone and exact on perfect squares.
    The subtraction of 1, the halving and `floor` are exact on the values that occur (Sterbenz / power of two / integer
    part), so the computed `p` is the natural number with `2p+1 ≤ s < 2p+3`.  Then the pair the code returns IS the
    integer inverse `invIdx k`.  (The hypothesis is what the boundary sweep of the harness checks on the real `f64::sqrt`
    at every triangular-number boundary below 2^50.) -/
theorem float_inverse_correct (k : Nat) (s : Rat) (hs : ∀ m : Nat, ((m : Nat) : Rat) ≤ s ↔ m * m ≤ 8 * k + 1)
    (p : Nat) (hp1 : ((2 * p + 1 : Nat) : Rat) ≤ s) (hp2 : ¬ ((2 * p + 3 : Nat) : Rat) ≤ s) :
    (p + 1, k - p * (p + 1) / 2) = invIdx k := by
  have a1 : (2 * p + 1) * (2 * p + 1) ≤ 8 * k + 1 := (hs (2 * p + 1)).mp hp1
  have a2 : ¬ (2 * p + 3) * (2 * p + 3) ≤ 8 * k + 1 := fun h => hp2 ((hs (2 * p + 3)).mpr h)
  have c1 := T_closed (p + 1)
  have c2 := T_closed (p + 2)
  simp only [Nat.add_sub_cancel] at c1
  have c2' : 2 * T (p + 2) = (p + 2) * (p + 1) := by simpa using c2
  have b1 : T (p + 1) ≤ k := by
    have : 2 * T (p + 1) ≤ 2 * k := by
      rw [c1]
      have e : (2 * p + 1) * (2 * p + 1) = 4 * ((p + 1) * p) + 1 := by grind
      omega
    omega
  have b2 : k < T (p + 2) := by
    have : 2 * k < 2 * T (p + 2) := by
      rw [c2']
      have e : (2 * p + 3) * (2 * p + 3) = 4 * ((p + 2) * (p + 1)) + 1 := by grind
      omega
    omega
  obtain ⟨r1, r2⟩ := rowOf_spec k
  have hrow : rowOf k = p + 1 := (row_unique b1 b2 r1 r2).symm
  have hT : T (p + 1) = p * (p + 1) / 2 := by
    have : 2 * T (p + 1) = (p + 1) * p := c1
    have e : p * (p + 1) = (p + 1) * p := Nat.mul_comm _ _
    omega
  simp only [invIdx, hrow, hT]

/-- non-vacuity: for `k = 4` (pair (3,1) of the unit test's layout) `s = 5.74…` — any rational in `[5,6)` with the stated
    property, e.g. `23/4` — gives `p = 2` -/
example : (∀ m : Nat, ((m : Nat) : Rat) ≤ (23 / 4 : Rat) ↔ m * m ≤ 8 * 4 + 1) := by
  intro m
  constructor
  · intro h
    have : m ≤ 5 := by
      apply Classical.byContradiction; intro hn
      have h6 : (6 : Rat) ≤ (m : Rat) := by exact_mod_cast (by omega : 6 ≤ m)
      have : (6 : Rat) ≤ 23 / 4 := Rat.le_trans h6 h
      exact absurd this (by decide +kernel)
    have : m * m ≤ 25 := Nat.mul_le_mul this this
    omega
  · intro h
    have : m ≤ 5 := by
      apply Classical.byContradiction; intro hn
      have : 6 * 6 ≤ m * m := Nat.mul_le_mul (by omega) (by omega)
      omega
    have h5 : ((m : Nat) : Rat) ≤ (5 : Rat) := by exact_mod_cast this
    exact Rat.le_trans h5 (by decide +kernel)
end C13
