import PhyloModel.Props.C12Stats
import PhyloModel.Arena.QueryMoreRefine
/-! # C12 (continued) — the normalised balance indices

`sackin_yule`, `sackin_pda`, `colless_pda` are `f64` in the crate.  The model (`Arena/QueryMore.lean`) computes
the exact rational each float approximates: `sackinYule` the value `(I_s − 2·n·H(n)) / n` itself
(`H(n) = Σ_{i=2}^{n} 1/i`), and — `I / n^(3/2)` being irrational in general — `sackinPdaSq`, `collessPdaSq` its
exact square `I² / n³`, of which the crate's value is the non-negative square root.  (`colless_yule` involves
`ln` and Euler's constant and has no exact rational counterpart; it is not modelled.) -/
namespace C12
open AR

/-- `H(n) = Σ_{i=2}^{n} 1/i`, by recursion on `n`: `H(0) = H(1) = 0`, `H(n+2) = H(n+1) + 1/(n+2)` -/
theorem harmonic_recursion :
    harmonicFrom2 0 = 0 ∧ harmonicFrom2 1 = 0 ∧
    ∀ n, harmonicFrom2 (n + 2) = harmonicFrom2 (n + 1) + 1 / ((n + 2 : Nat) : Rat) :=
  ⟨rfl, rfl, fun _ => rfl⟩

/-- the sum the model evaluates (`(2..=n).map(|i| 1/i).sum()`, as a list sum) is `H(n)` -/
theorem harmonic_sum_is_recursion (n : Nat) : harmonicSum n = harmonicFrom2 n := harmonicSum_eq n

/-- **`sackin_yule`**, when it answers, is `(I_s − 2·n·H(n)) / n` where `I_s` is what `sackin` answers and `n`
    what `n_leaves` answers — and it answers whenever `sackin` does -/
theorem sackin_yule_value (a : Arena) (q : Rat) : sackinYule a = .ok q ↔
    ∃ s n, sackin a = .ok s ∧ n = nLeaves a ∧ q = ((s : Rat) - 2 * (n : Rat) * harmonicFrom2 n) / (n : Rat) :=
  sackinYule_ok a q

/-- **the squares of `sackin_pda` and `colless_pda`**, when answered, are `I² / n³` (`I` the answer of `sackin`
    resp. `colless`, `n` of `n_leaves`), a non-negative rational; the crate's float is its non-negative root -/
theorem pda_squares_value (a : Arena) (q : Rat) :
    (sackinPdaSq a = .ok q ↔ ∃ s, sackin a = .ok s ∧ q = (s : Rat) ^ 2 / (nLeaves a : Rat) ^ 3) ∧
    (collessPdaSq a = .ok q ↔ ∃ c, colless a = .ok c ∧ q = (c : Rat) ^ 2 / (nLeaves a : Rat) ^ 3) ∧
    (sackinPdaSq a = .ok q → 0 ≤ q) ∧ (collessPdaSq a = .ok q → 0 ≤ q) := by
  refine ⟨sackinPdaSq_ok a q, collessPdaSq_ok a q, ?_, ?_⟩
  · intro h
    rw [sackinPdaSq, QR.map_ok_iff] at h
    obtain ⟨s, _, hq⟩ := h
    rw [hq]; exact pdaSq_nonneg _ _
  · intro h
    rw [collessPdaSq, QR.map_ok_iff] at h
    obtain ⟨s, _, hq⟩ := h
    rw [hq]; exact pdaSq_nonneg _ _

/-- **refusals**: each normalisation is refused exactly when the index it normalises is, with the same error
    (`IsNotRooted` / `IsNotBinary`, see `C12_indices_refused`), and panics exactly when that index does -/
theorem normalisations_refused_iff (a : Arena) :
    (∀ k, (sackinYule a = .err k ↔ sackin a = .err k) ∧ (sackinPdaSq a = .err k ↔ sackin a = .err k) ∧
      (collessPdaSq a = .err k ↔ colless a = .err k)) ∧
    (sackinYule a = .panic ↔ sackin a = .panic) ∧ (sackinPdaSq a = .panic ↔ sackin a = .panic) ∧
    (collessPdaSq a = .panic ↔ colless a = .panic) :=
  ⟨norms_refused a, norms_panic a⟩

/-- **the divisor is never zero**: on a well-formed arena with at most one root, whenever `sackin` or `colless`
    answers the tree is rooted, so it has at least two tips.  (The model's division is the total division of
    `Rat`, `x / 0 = 0`, where the crate's `f64` division would give `NaN`; by this theorem the case is
    unreachable.) -/
theorem normalisations_divisor_nonzero {a : Arena} (g : Good a) (h1 : AtMostOneRoot a) :
    (∀ s, sackin a = .ok s → 2 ≤ nLeaves a) ∧ (∀ c, colless a = .ok c → 2 ≤ nLeaves a) :=
  ⟨fun _ h => sackin_ok_two_tips g h1 h, fun _ h => colless_ok_two_tips g h1 h⟩

/-- on a well-formed arena with one root and abstract tree `t` the normalised indices are computed from `t`
    alone: refused on unrooted / non-binary trees, otherwise the textbook Sackin / Colless index of `t`
    normalised with its number of tips -/
theorem normalisations_of_tree {a : Arena} (g : Good a) (h1 : AtMostOneRoot a) {t : Rose} (h : absRoot a = .ok t) :
    sackinYule a = (do checkRBR t; pure (yuleNorm (sackinR t) (nLeavesR t))) ∧
    sackinPdaSq a = (do checkRBR t; pure (pdaSq (sackinR t) (nLeavesR t))) ∧
    collessPdaSq a = (do checkRBR t; pure (pdaSq (collessR t) (nLeavesR t))) :=
  norms_refine g h1 h

/-- hence they do not depend on slot layout, removed slots, cached depths or edit history -/
theorem normalisations_depend_only_on_tree {a b : Arena} (ga : Good a) (gb : Good b) (ha : AtMostOneRoot a)
    (hb : AtMostOneRoot b) {ta tb : Rose} (hta : absRoot a = .ok ta) (htb : absRoot b = .ok tb)
    (he : erase ta = erase tb) :
    sackinYule a = sackinYule b ∧ sackinPdaSq a = sackinPdaSq b ∧ collessPdaSq a = collessPdaSq b :=
  norms_depend_only_on_tree ga gb ha hb hta htb he

/-! ### non-vacuity -/

/-- the caterpillar `(((a,b),c),d);` built with a detour (slot 1 is a tombstone): tips at depths 3, 3, 2, 1 -/
def exCat : Arena := runOps #[] [.add none, .addChild 0 (some 9) (some "z"), .prune 1,
  .addChild 0 none none, .addChild 0 none (some "d"), .addChild 2 none none, .addChild 2 none (some "c"),
  .addChild 4 none (some "a"), .addChild 4 none (some "b")]

theorem exCat_ok : Good exCat ∧ AtMostOneRoot exCat :=
  runOps_oneRoot _ empty_good (by intro i j hi; exact absurd hi.1.1 (by simp)) (by
    simp only [AdmissibleRun, Admissible, and_true]
    intro i hi; exact absurd hi.1.1 (by simp))

/-- four tips, Sackin 9, Colless 3; `H(4) = 13/12`; Yule-normalised Sackin `(9 − 8·13/12)/4 = 1/12`; squares of the
    PDA normalisations `81/64` and `9/64` — through the theorems, with the hypotheses discharged -/
example : nLeaves exCat = 4 ∧ harmonicFrom2 4 = 13 / 12 ∧ sackinYule exCat = .ok (1 / 12) ∧
    sackinPdaSq exCat = .ok (81 / 64) ∧ collessPdaSq exCat = .ok (9 / 64) := by
  have hs : sackin exCat = .ok 9 := qr_eq_of_check _ _ (by decide)
  have hc : colless exCat = .ok 3 := qr_eq_of_check _ _ (by decide)
  have hn : nLeaves exCat = 4 := by decide
  have h2 := (normalisations_divisor_nonzero exCat_ok.1 exCat_ok.2).1 9 hs
  have hH : harmonicFrom2 4 = 13 / 12 := by
    simp only [harmonicFrom2]
    grind
  refine ⟨hn, hH, ?_, ?_, ?_⟩
  · rw [sackin_yule_value]
    refine ⟨9, 4, hs, hn.symm, ?_⟩
    rw [hH]; grind
  · rw [(pda_squares_value exCat _).1]
    refine ⟨9, hs, ?_⟩
    rw [hn]; grind
  · rw [(pda_squares_value exCat _).2.1]
    refine ⟨3, hc, ?_⟩
    rw [hn]; grind

/-- on an unrooted tree (a root with three tips) all three are refused like `sackin` / `colless` -/
example : sackinYule (runOps #[] [.add none, .addChild 0 none none, .addChild 0 none none, .addChild 0 none none])
    = .err "IsNotRooted" := by
  rw [((normalisations_refused_iff _).1 _).1]
  rfl

end C12
