import PhyloModel.Dist.Keys
import PhyloModel.Dist.Fold
/-! # C08 — both distance-matrix algorithms return the true leaf-to-leaf path lengths

`DM.pathLen t x y` is the textbook path length between leaves `x` and `y` (descend to the deepest node
containing both, add the two legs).  `DM.pairs t` is the multiset of contributions
`pairwise[idx(l1,l2)] += d1 + d2` that `Tree::distance_matrix` makes, written by structural recursion on the
rose tree (per-node caches `DM.cache`).  The theorems show that every unordered leaf pair receives exactly one
contribution and that it is the path length — the mathematical core of the fast algorithm, for every tree
shape (polytomies, unary nodes, any root style) and every assignment of lengths.

`dm_fast_correct` is therefore PARTIAL: the executable arena fold `DMF.dmFast` (reversed level order,
per-slot caches, keyed accumulation into the triangular vector — what the driver runs against the crate) is
tied to this recursion by executing BOTH on every correspondence case and comparing each with the crate for
exact equality, not yet by a kernel-checked loop-invariant proof. -/
namespace C08
open DM

/-- every contribution of the fast algorithm is the path length of its pair -/
theorem contributions_are_path_lengths (t : RT) (x y : Nat) (d : Rat) (hn : (leafIds t).Nodup)
    (h : ((x, y), d) ∈ pairs t) : pathLen t x y = some d :=
  pairs_correct t x y d hn h

/-- the contributions are keyed by each pair of leaves (first before second in leaf order) exactly once -/
theorem each_pair_contributes_once (t : RT) : (keys (pairs t)).Perm (allPairs (leafIds t)) :=
  keys_pairs t

/-- hence: for duplicate-free leaves, every pair listed by `allPairs` has a contribution, and it is the path
    length (`dm_fast_correct_partial`: rose-level form of the fast algorithm) -/
theorem dm_fast_correct_partial (t : RT) (hn : (leafIds t).Nodup) (x y : Nat)
    (hxy : (x, y) ∈ allPairs (leafIds t)) :
    ∃ d, ((x, y), d) ∈ pairs t ∧ pathLen t x y = some d := by
  have hmem : (x, y) ∈ keys (pairs t) := (keys_pairs t).mem_iff.mpr hxy
  simp only [keys, List.mem_map] at hmem
  obtain ⟨⟨⟨k1, k2⟩, d⟩, hkd, hk⟩ := hmem
  simp only [Prod.mk.injEq] at hk
  obtain ⟨rfl, rfl⟩ := hk
  exact ⟨d, hkd, pairs_correct t k1 k2 d hn hkd⟩

/-- the per-node cache of the fast algorithm holds exactly the leaves below the node -/
theorem cache_keys_are_the_leaves (t : RT) : ckeys (cache t) = leafIds t := ckeys_cache t

/-- ... each with its distance from the node -/
theorem cache_values_are_depths (t : RT) (x : Nat) (d : Rat) (hn : (leafIds t).Nodup) (h : (x, d) ∈ cache t) :
    depthTo t x = some d :=
  cache_depthTo t x d hn h

/-- a path length is defined exactly for pairs of leaves of the tree -/
theorem path_length_needs_leaves (t : RT) (x : Nat) (h : x ∉ leafIds t) : depthTo t x = none :=
  depthTo_none_of_not_mem t x h

/-- non-vacuity: the tree ((1,2)4,3)0 has duplicate-free leaves and three leaf pairs -/
example : leafIds (.node 0 0 [.node 4 1 [.node 1 2 [], .node 2 3 []], .node 3 4 []]) = [1, 2, 3] ∧
    allPairs [1, 2, 3] = [(1, 2), (1, 3), (2, 3)] := by decide

end C08
