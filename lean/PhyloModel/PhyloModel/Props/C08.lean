import PhyloModel.Dist.Keys
import PhyloModel.Dist.Fold
import PhyloModel.Dist.FoldRose
import PhyloModel.Dist.FoldRoseExamples
/-! # C08 — both distance-matrix algorithms return the true leaf-to-leaf path lengths

`DM.pathLen t x y` is the textbook path length between leaves `x` and `y` (descend to the deepest node
containing both, add the two legs).  `DM.pairs t` is the multiset of contributions
`pairwise[idx(l1,l2)] += d1 + d2` that `Tree::distance_matrix` makes, written by structural recursion on the
rose tree (per-node caches `DM.cache`).  The theorems show that every unordered leaf pair receives exactly one
contribution and that it is the path length — the mathematical core of the fast algorithm, for every tree
shape (polytomies, unary nodes, any root style) and every assignment of lengths.

The link to the EXECUTABLE arena fold `DMF.dmFast` (reversed level order of the arena, per-slot caches, keyed
accumulation into the triangular vector — what the driver runs against the crate) is a kernel-checked
loop-invariant proof (second half of this file; `Dist/BottomUp`, `FoldW`, `CSum`, `FoldStep`, `FoldPerm`, `FoldInv`,
`FoldCorrect`, `FoldRose`): under the arena invariant every cell `dmFast` returns IS the path length between the two
taxa of the cell in the tree the arena represents (`dm_fast_correct`; forests: `dm_fast_correct_forest`), the fold never
reaches a panic / `unwrap` / missing-cache outcome (`dm_fast_total`), and it equals the rose-level computation
`dmRose` whenever the tips have pairwise different names (`dm_fast_eq_rose`; with a repeated tip name the two break the
tie of the taxon order differently — kernel-checked counterexample `DMF.dmFast_d4` / `DMF.dmRose_d4` — which is outside
C08's domain of uniquely named leaves). -/
namespace C08
open DM

/-- every contribution of the fast algorithm is the path length of its pair -/
theorem contributions_are_path_lengths (t : RT) (x y : Nat) (d : Rat) (hn : (leafIds t).Nodup)
    (h : ((x, y), d) ∈ pairs t) : pathLen t x y = some d :=
  pairs_correct t x y d hn h

/-- the contributions are keyed by each pair of leaves (first before second in leaf order) exactly once -/
theorem each_pair_contributes_once (t : RT) : (keys (pairs t)).Perm (allPairs (leafIds t)) :=
  keys_pairs t

/-- hence: for duplicate-free leaves, every pair listed by `allPairs` has a contribution, and it is the path
    length (`dm_fast_correct_partial`: rose-level form of the fast algorithm) -/
theorem dm_fast_correct_partial (t : RT) (hn : (leafIds t).Nodup) (x y : Nat)
    (hxy : (x, y) ∈ allPairs (leafIds t)) :
    ∃ d, ((x, y), d) ∈ pairs t ∧ pathLen t x y = some d := by
  have hmem : (x, y) ∈ keys (pairs t) := (keys_pairs t).mem_iff.mpr hxy
  simp only [keys, List.mem_map] at hmem
  obtain ⟨⟨⟨k1, k2⟩, d⟩, hkd, hk⟩ := hmem
  simp only [Prod.mk.injEq] at hk
  obtain ⟨rfl, rfl⟩ := hk
  exact ⟨d, hkd, pairs_correct t k1 k2 d hn hkd⟩

/-- the per-node cache of the fast algorithm holds exactly the leaves below the node -/
theorem cache_keys_are_the_leaves (t : RT) : ckeys (cache t) = leafIds t := ckeys_cache t

/-- ... each with its distance from the node -/
theorem cache_values_are_depths (t : RT) (x : Nat) (d : Rat) (hn : (leafIds t).Nodup) (h : (x, d) ∈ cache t) :
    depthTo t x = some d :=
  cache_depthTo t x d hn h

/-- a path length is defined exactly for pairs of leaves of the tree -/
theorem path_length_needs_leaves (t : RT) (x : Nat) (h : x ∉ leafIds t) : depthTo t x = none :=
  depthTo_none_of_not_mem t x h

/-- non-vacuity: the tree ((1,2)4,3)0 has duplicate-free leaves and three leaf pairs -/
example : leafIds (.node 0 0 [.node 4 1 [.node 1 2 [], .node 2 3 []], .node 3 4 []]) = [1, 2, 3] ∧
    allPairs [1, 2, 3] = [(1, 2), (1, 3), (2, 3)] := by decide

/-! ## the executable arena fold -/
open AR DMF


theorem dm_fast_correct (a : Arena) (unit : Int) (hinv : Inv a) (h1 : AtMostOneRoot a) (names : List String)
    (cells : List Int) (h : dmFast a unit = .ok (names, cells)) :
    ∃ t, absRoot a = .ok t ∧
      names = (leafOrder a).map (fun l => ((nd a l).name).getD "") ∧
      (∀ l ∈ leafOrder a, (nd a l).name.isSome) ∧
      cells.length = Tri.T (leafOrder a).length ∧
      (DM.leafIds (absDM unit t)).Nodup ∧
      (∀ x, x ∈ DM.leafIds (absDM unit t) ↔ x ∈ leafOrder a) ∧
      ∀ (i j : Nat) (_ : j < i) (hi : i < (leafOrder a).length),
        DM.pathLen (absDM unit t) (leafOrder a)[i] (leafOrder a)[j]
          = some (((cells.getD (MX.cell i j) 0 : Int)) : Rat) :=
  dmFast_correct a unit hinv h1 names cells h

theorem dm_fast_correct_forest (a : Arena) (unit : Int) (hinv : Inv a) (names : List String) (cells : List Int)
    (h : dmFast a unit = .ok (names, cells)) :
    ∃ t, absRoot a = .ok t ∧
      names = (leafOrder a).map (fun l => ((nd a l).name).getD "") ∧
      (∀ l ∈ leafOrder a, (nd a l).name.isSome) ∧
      cells.length = Tri.T (leafOrder a).length ∧
      (DM.leafIds (absDM unit t)).Nodup ∧
      (∀ x, x ∈ DM.leafIds (absDM unit t) → x ∈ leafOrder a) ∧
      ∀ (i j : Nat) (_ : j < i) (hi : i < (leafOrder a).length),
        ((leafOrder a)[i] ∈ DM.leafIds (absDM unit t) ∧ (leafOrder a)[j] ∈ DM.leafIds (absDM unit t) →
          DM.pathLen (absDM unit t) (leafOrder a)[i] (leafOrder a)[j]
            = some (((cells.getD (MX.cell i j) 0 : Int)) : Rat)) ∧
        (¬ ((leafOrder a)[i] ∈ DM.leafIds (absDM unit t) ∧ (leafOrder a)[j] ∈ DM.leafIds (absDM unit t)) →
          cells.getD (MX.cell i j) 0 = 0) :=
  dmFast_correct_forest a unit hinv names cells h

theorem dm_fast_total (a : Arena) (unit : Int) (hinv : Inv a) :
    (dmFast a unit = .err "UnnamedLeaves" ∧ ∃ l ∈ leaves a, (nd a l).name = none) ∨
    (dmFast a unit = .err "RootNotFound" ∧ getRoot a = none ∧ ∀ i, ¬ live a i) ∨
    (∃ names cells, dmFast a unit = .ok (names, cells)) :=
  dmFast_total a unit hinv

theorem dm_fast_eq_rose (a : Arena) (unit : Int) (hinv : Inv a) (h1 : AtMostOneRoot a)
    (hdist : ∀ x ∈ leaves a, ∀ y ∈ leaves a, (nd a x).name = (nd a y).name → x = y) :
    dmFast a unit = dmRose a unit :=
  dmFast_eq_dmRose a unit hinv h1 hdist

/-- every state reachable by the model's operations satisfies the hypotheses used above -/
example (a : Arena) (g : Good a) : Inv a := g.1

end C08
