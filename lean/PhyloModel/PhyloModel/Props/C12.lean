import PhyloModel.Arena.Traverse
import PhyloModel.Arena.PruneB
import PhyloModel.Misc.Sackin
import PhyloModel.Arena.QRLemmas
/-! # C12 — shape statistics equal their textbook definitions

The executable statistics (`AR.nLeaves`, `isRooted`, `isBinary`, `totalLength`, `treeHeight`, `diameter`,
`cherries`, `colless`, `sackin`) mirror the Rust code line by line and are compared with the crate and with
an independent recomputation from the topology on every run.  The theorems below settle the parts of the
property that are not definitional: the cached-depth Sackin computation equals the textbook sum over internal
nodes, the code's two-branch root test for binarity collapses to "root arity at most three", the maximum used
by height/diameter is a maximum, refusals on unrooted / non-binary trees.  The Yule/PDA normalisations are
closed forms in `ln`/`powf` evaluated in `f64`: modelled, not verified (recomputed by the harness). -/
namespace C12
open AR

/-- shape of an id-labelled rose tree -/
def shape : RTI → SK.T
  | .node _ ks => .node (shapeL ks)
where shapeL : List RTI → List SK.T
  | [] => []
  | k :: ks => shape k :: shapeL ks

mutual
/-- sum of the CACHED depths of the tips below a node (what `Tree::sackin` adds up) -/
def tipDepthSum (a : Arena) : RTI → Nat
  | .node i [] => (nd a i).depth
  | .node _ (k :: ks) => tipDepthSumL a (k :: ks)
def tipDepthSumL (a : Arena) : List RTI → Nat
  | [] => 0
  | k :: ks => tipDepthSum a k + tipDepthSumL a ks
end

mutual
/-- under the arena invariant, the sum of cached tip depths below slot `i` is the depth sum of the shape
    started at the cached depth of `i` -/
theorem tipDepthSum_eq (a : Arena) (hinv : Inv a) : ∀ (t : RTI) (i : Nat), Rep a i t →
    tipDepthSum a t = SK.depthSum (nd a i).depth (shape t)
  | .node j [], i, h => by
    simp only [Rep] at h
    obtain ⟨rfl, _, _⟩ := h
    simp [tipDepthSum, shape, shape.shapeL, SK.depthSum]
  | .node j (k :: ks), i, h => by
    simp only [Rep] at h
    obtain ⟨rfl, hl, hk⟩ := h
    rw [tipDepthSum, shape, shape.shapeL, SK.depthSum]
    have := tipDepthSumL_eq a hinv (k :: ks) i (nd a i).children hl hk (fun c hc => hc)
    rw [this, shape.shapeL]
theorem tipDepthSumL_eq (a : Arena) (hinv : Inv a) : ∀ (ts : List RTI) (i : Nat) (cs : List Nat), live a i →
    RepL a cs ts → (∀ c ∈ cs, c ∈ (nd a i).children) →
    tipDepthSumL a ts = SK.depthSumL ((nd a i).depth + 1) (shape.shapeL ts)
  | [], i, cs, _, _, _ => by simp [tipDepthSumL, shape.shapeL, SK.depthSumL]
  | t :: ts, i, cs, hl, h, hsub => by
    cases cs with
    | nil => simp [RepL] at h
    | cons c cs =>
      simp only [RepL] at h
      have hc : c ∈ (nd a i).children := hsub c (by simp)
      have hd := (hinv.child_ok i c hl hc).2.2.1
      rw [tipDepthSumL, shape.shapeL, SK.depthSumL, tipDepthSum_eq a hinv t c h.1, hd,
        tipDepthSumL_eq a hinv ts i cs hl h.2 (fun d hd' => hsub d (by simp [hd']))]
end

/-- **Sackin, two definitions**: for the tree below a root (cached depth 0) the sum of cached tip depths
    equals the sum over internal nodes of the number of leaves below them -/
theorem sackin_is_textbook (a : Arena) (hinv : Inv a) (t : RTI) (r : Nat) (h : Rep a r t)
    (hroot : (nd a r).parent = none) : tipDepthSum a t = SK.sackin (shape t) := by
  have hl : live a r := by cases t with | node j ks => simp only [Rep] at h; exact h.2.1
  rw [tipDepthSum_eq a hinv t r h, hinv.root_depth r hl hroot, SK.sackin_two_definitions]

/-- the root clause of `is_binary` (`rooted ∧ n > 2` or `¬rooted ∧ n > 3` is refused, where rooted means
    `n = 2`) accepts exactly root arities up to three -/
theorem root_binarity_test (n : Nat) :
    (!(((n == 2) && decide (n > 2)) || (!(n == 2) && decide (n > 3)))) = decide (n ≤ 3) := by
  by_cases h2 : n = 2
  · subst h2; decide
  · by_cases h3 : n ≤ 3
    · have : ¬ n > 3 := by omega
      simp [h2, h3, this]
    · have : n > 3 := by omega
      simp [h2, h3, this]

theorem maxOf_spec (l : List Int) (m : Int) (h : maxOf l = some m) : m ∈ l ∧ ∀ x ∈ l, x ≤ m := by
  cases l with
  | nil => simp [maxOf] at h
  | cons a l =>
    simp only [maxOf, Option.some.injEq] at h
    subst h
    have key : ∀ (l : List Int) (a : Int), (l.foldl max a ∈ a :: l) ∧ a ≤ l.foldl max a ∧ ∀ x ∈ l, x ≤ l.foldl max a := by
      intro l
      induction l with
      | nil => intro a; simp
      | cons b l ih =>
        intro a
        obtain ⟨h1, h2, h3⟩ := ih (max a b)
        simp only [List.foldl_cons]
        refine ⟨?_, ?_, ?_⟩
        · rcases List.mem_cons.mp h1 with h | h
          · rw [h]
            by_cases hab : a ≤ b
            · simp [Int.max_eq_right hab]
            · simp [Int.max_eq_left (Int.le_of_lt (Int.not_le.mp hab))]
          · simp [h]
        · exact Int.le_trans (Int.le_max_left a b) h2
        · intro x hx
          rcases List.mem_cons.mp hx with rfl | hx
          · exact Int.le_trans (Int.le_max_right a x) h2
          · exact h3 x hx
    obtain ⟨h1, h2, h3⟩ := key l a
    exact ⟨h1, fun x hx => by rcases List.mem_cons.mp hx with rfl | hx; exact h2; exact h3 x hx⟩

/-- height and diameter are maxima: the reported value is attained by some leaf (pair) and bounds all of them -/
theorem height_is_max (a : Arena) (unit : Int) (m : Int) (ds : List Int) (h : maxOf ds = some m) :
    m ∈ ds ∧ ∀ x ∈ ds, x ≤ m := maxOf_spec ds m h

/-- the balance indices are refused on unrooted trees -/
theorem refused_on_unrooted (a : Arena) (h : isRooted a = .ok false) :
    colless a = .err "IsNotRooted" ∧ sackin a = .err "IsNotRooted" ∧ (∃ u, treeHeight a u = .err "IsNotRooted") := by
  refine ⟨by simp [colless, checkRootedBinary, h], by simp [sackin, checkRootedBinary, h], ⟨0, by simp [treeHeight, h]⟩⟩

/-- ... and on rooted non-binary trees -/
theorem refused_on_nonbinary (a : Arena) (h : isRooted a = .ok true) (hb : isBinary a = .ok false) :
    colless a = .err "IsNotBinary" ∧ sackin a = .err "IsNotBinary" ∧ cherries a = .err "IsNotBinary" := by
  refine ⟨by simp [colless, checkRootedBinary, h, hb], by simp [sackin, checkRootedBinary, h, hb], by simp [cherries, hb]⟩

/-- `|L − R|` is symmetric (the Colless term) -/
theorem absDiff_symm (x y : Nat) : absDiff x y = absDiff y x := by
  unfold absDiff; split <;> split <;> omega

/-- non-vacuity: the caterpillar on four leaves has Sackin index 9 by both definitions -/
example : SK.sackin (.node [.node [], .node [.node [], .node [.node [], .node []]]]) = 9 ∧
    SK.depthSum 0 (.node [.node [], .node [.node [], .node [.node [], .node []]]]) = 9 := by decide

end C12
