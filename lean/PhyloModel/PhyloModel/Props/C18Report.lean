import PhyloModel.Arena.CliReportCompareFacts
import PhyloModel.Props.C18
import PhyloModel.Props.C05Inv
/-! # C18, report subcommands — `stats`, `distance`, `compare` print what the library computes for the tree

`Arena/CliReport.lean` transcribes the part of the three report subcommands that is written in the tool itself
(src/bin/phylotree/main.rs): which library functions are asked, in which order, how a refused answer is shown, which
pairs of names are listed, how the counting columns of `compare` are formed.  The theorems below say that this logic adds
nothing of its own: every printed value is the library model's answer for the tree that was read (`AR.treeHeight`, …,
`AR.distancePub`, `SPM.compareTopologies`; what THOSE compute is the subject of C05–C07, C09, C12), the tables are
complete and in argument order, and the three counting columns of `compare` are the sizes of the two set differences and
of the intersection of the two bipartition sets.  A panic / failed `unwrap` of the tool (an error exit) is an `.err`
outcome. -/
namespace C18
open AR SPM CLIR

/-! ## `distance FILE tip1 .. tipk` -/

/-- `combinations(2)` lists `k·(k−1)/2` pairs -/
theorem pairs_in_order_count {α : Type} (l : List α) : (pairsInOrder l).length = l.length * (l.length - 1) / 2 :=
  pairsInOrder_length l

/-- a pair is listed iff its first component stands before its second in the argument list -/
theorem pairs_in_order_mem {α : Type} (l : List α) (x y : α) :
    (x, y) ∈ pairsInOrder l ↔ ∃ i j : Nat, i < j ∧ l[i]? = some x ∧ l[j]? = some y :=
  mem_pairsInOrder l x y

/-- each unordered pair of POSITIONS is listed exactly once: the pairs of positions `(i, j)`, `i < j < k`, form a
    duplicate-free list, and the listed pairs of arguments are the arguments at these positions, in this order (so a name
    given twice is paired with itself and with every other name twice — the tool does not deduplicate) -/
theorem pairs_in_order_once {α : Type} (l : List α) :
    (pairsInOrder (List.range l.length)).Nodup ∧
    (∀ i j, (i, j) ∈ pairsInOrder (List.range l.length) ↔ i < j ∧ j < l.length) ∧
    (pairsInOrder l).map (fun p => (some p.1, some p.2)) =
      (pairsInOrder (List.range l.length)).map (fun p => (l[p.1]?, l[p.2]?)) := by
  refine ⟨pairsInOrder_nodup _ List.nodup_range, ?_, pairsInOrder_positions l⟩
  intro i j
  have hr : ∀ n x v : Nat, (List.range n)[x]? = some v ↔ x = v ∧ v < n := by
    intro n x v
    rw [List.getElem?_eq_some_iff]
    simp
    omega
  rw [mem_pairsInOrder]
  constructor
  · rintro ⟨x, y, hxy, hx, hy⟩
    rw [hr] at hx hy
    omega
  · rintro ⟨hij, hj⟩
    exact ⟨i, j, hij, (hr _ _ _).mpr ⟨rfl, by omega⟩, (hr _ _ _).mpr ⟨rfl, hj⟩⟩

example : pairsInOrder ["a", "b", "c", "a"] = [("a", "b"), ("a", "c"), ("a", "a"), ("b", "c"), ("b", "a"), ("c", "a")] := by
  decide


/-- **the distance table is complete and ordered**: when the tool succeeds, it prints `k·(k−1)/2` rows, the name columns
    are the pairs of arguments in `combinations(2)` order, and every row's value is the sum of branch lengths the library
    returns (`get_distance`, with all lengths on the path present) for the two nodes the library finds under these names
    (`get_by_name`) -/
theorem distance_table_complete (a : Arena) (tips : List String) (rows : List (String × String × Int))
    (h : cliDistance a tips = .ok rows) :
    rows.length = tips.length * (tips.length - 1) / 2 ∧
    rows.map (fun r => (r.1, r.2.1)) = pairsInOrder tips ∧
    ∀ r ∈ rows, ∃ i j c, getByName a r.1 = some i ∧ getByName a r.2.1 = some j ∧
      distancePub a i j = .ok (some r.2.2, c) := by
  unfold cliDistance at h
  rw [mapQ_ok_iff] at h
  have hrow : ∀ r ∈ rows, ∃ p ∈ pairsInOrder tips, RowOK a p r := by
    intro r hr
    have : QR.ok r ∈ (pairsInOrder tips).map (distanceRow a) := by rw [h]; exact List.mem_map.mpr ⟨r, hr, rfl⟩
    obtain ⟨p, hp, hpr⟩ := List.mem_map.mp this
    exact ⟨p, hp, (distanceRow_ok_iff a p r).mp hpr⟩
  have hlen : rows.length = (pairsInOrder tips).length := by
    have := congrArg List.length h
    simpa using this.symm
  refine ⟨by rw [hlen, pairsInOrder_length], ?_, ?_⟩
  · apply List.ext_getElem?
    intro n
    simp only [List.getElem?_map]
    have hn := congrArg (fun l => l[n]?) h
    simp only [List.getElem?_map] at hn
    cases hp : (pairsInOrder tips)[n]? with
    | none =>
      cases hr : rows[n]? with
      | none => simp
      | some r => simp [hp, hr] at hn
    | some p =>
      cases hr : rows[n]? with
      | none => simp [hp, hr] at hn
      | some r =>
        simp only [hp, hr, Option.map_some, Option.some.injEq] at hn ⊢
        obtain ⟨h1, h2, _⟩ := (distanceRow_ok_iff a p r).mp hn
        rw [h1, h2]
  · intro r hr
    obtain ⟨p, _, h1, h2, i, j, c, hi, hj, hd⟩ := hrow r hr
    exact ⟨i, j, c, by rw [h1]; exact hi, by rw [h2]; exact hj, hd⟩

/-- **when the tool succeeds**: exactly when, for every listed pair, both names are found and the library returns a
    distance with all branch lengths on the path present -/
theorem distance_ok_iff (a : Arena) (tips : List String) :
    (∃ rows, cliDistance a tips = .ok rows) ↔
      ∀ p ∈ pairsInOrder tips, ∃ i j v c, getByName a p.1 = some i ∧ getByName a p.2 = some j ∧
        distancePub a i j = .ok (some v, c) := by
  unfold cliDistance
  constructor
  · rintro ⟨rows, h⟩ p hp
    rw [mapQ_ok_iff] at h
    have : distanceRow a p ∈ rows.map QR.ok := by rw [← h]; exact List.mem_map.mpr ⟨p, hp, rfl⟩
    obtain ⟨r, _, hr⟩ := List.mem_map.mp this
    obtain ⟨_, _, i, j, c, hi, hj, hd⟩ := (distanceRow_ok_iff a p r).mp hr.symm
    exact ⟨i, j, _, c, hi, hj, hd⟩
  · intro h
    obtain ⟨rows, hrows⟩ := exists_rows_of_forall (distanceRow a) (pairsInOrder tips) (by
      intro p hp
      obtain ⟨i, j, v, c, hi, hj, hd⟩ := h p hp
      exact ⟨(p.1, p.2, v), (distanceRow_ok_iff a p _).mpr ⟨rfl, rfl, i, j, c, hi, hj, hd⟩⟩)
    exact ⟨rows, (mapQ_ok_iff _ _ _).mpr hrows⟩

/-- with at least two names given, success means in particular that EVERY given name is the name of a node (with fewer
    than two names no pair is listed and no name is looked up) -/
theorem distance_every_name_resolves (a : Arena) (tips : List String) (rows : List (String × String × Int))
    (h : cliDistance a tips = .ok rows) (h2 : 2 ≤ tips.length) : ∀ n ∈ tips, ∃ i, getByName a n = some i := by
  intro n hn
  have hall := (distance_ok_iff a tips).mp ⟨rows, h⟩
  obtain ⟨k, hk⟩ := List.getElem?_of_mem hn
  have hlt : k < tips.length := (List.getElem?_eq_some_iff.mp hk).1
  cases k with
  | zero =>
    have h1 : tips[1]? = some tips[1] := List.getElem?_eq_getElem (by omega)
    obtain ⟨i, _, _, _, hi, _⟩ := hall (n, tips[1]) ((mem_pairsInOrder _ _ _).mpr ⟨0, 1, by omega, hk, h1⟩)
    exact ⟨i, hi⟩
  | succ k =>
    have h0 : tips[0]? = some tips[0] := List.getElem?_eq_getElem (by omega)
    obtain ⟨_, j, _, _, _, hj, _⟩ := hall (tips[0], n) ((mem_pairsInOrder _ _ _).mpr ⟨0, k + 1, by omega, h0, hk⟩)
    exact ⟨j, hj⟩

/-- **refusals**: the tool never ends otherwise than with rows or an error exit; the error is that of the FIRST listed pair
    that fails, all pairs before it having a row -/
theorem distance_first_failure (a : Arena) (tips : List String) (k : String) :
    cliDistance a tips ≠ .panic ∧
    (cliDistance a tips = .err k ↔ ∃ pre p post, pairsInOrder tips = pre ++ p :: post ∧
      (∀ q ∈ pre, ∃ r, distanceRow a q = .ok r) ∧ distanceRow a p = .err k) :=
  ⟨mapQ_np _ (distanceRow_np a) _, mapQ_err_iff _ (distanceRow_np a) k _⟩

/-- the three ways one pair fails: a name that no node carries; a path with a missing branch length; a distance the
    library refuses (`get_by_name` also finds removed slots — not reachable for a tree that was just read) -/
theorem distance_row_refusals (a : Arena) (p : String × String) (k : String) :
    distanceRow a p = .err k ↔
      ((getByName a p.1 = none ∨ getByName a p.2 = none) ∧ k = "panic-unknown-name") ∨
      (∃ i j, getByName a p.1 = some i ∧ getByName a p.2 = some j ∧
        ((∃ c, distancePub a i j = .ok (none, c)) ∧ k = "panic-missing-length" ∨
         (∀ r, distancePub a i j ≠ .ok r) ∧ k = "panic-distance-refused")) :=
  distanceRow_err_iff a p k

/-- `distance exT A C D` on `((A:3,B:4):1,C:2,(D:1):5);` — three rows, in argument order; an unknown name is an error exit,
    but only when it occurs in a pair -/
example : cliDistance exT ["A", "C", "D"] = .ok [("A", "C", 6), ("A", "D", 10), ("C", "D", 8)] ∧
    cliDistance exT ["D", "A"] = .ok [("D", "A", 10)] ∧
    cliDistance exT ["A", "X", "C"] = .err "panic-unknown-name" ∧
    cliDistance exT ["X"] = .ok [] := by decide

/-- a missing length on the path: `(A,B:1)` read as root 0 with tips 1 = A (no length) and 2 = B -/
def rexMissing : Arena := runOps #[] [.add none, .addChild 0 none (some "A"), .addChild 0 (some 1) (some "B")]
example : cliDistance rexMissing ["A", "B"] = .err "panic-missing-length" ∧ cliDistance rexMissing ["B", "B"] = .ok [("B", "B", 0)] := by
  decide


/-! ## `stats F1 .. Fk` -/

/-- how one optional column relates to the library's answer -/
def Shows {α : Type} (field : Option α) (answer : QR α) : Prop :=
  (∀ v, field = some v ↔ answer = .ok v) ∧ (field = none ↔ ∃ k, answer = .err k)

/-- **a stats row is the library's answers**: each of the seven optional columns shows the value exactly when the library
    returns it and `-` exactly when the library refuses (the seven functions never end otherwise); `nodes` is `size()`
    — the number of arena slots — and `tips` is `n_leaves()` -/
theorem stats_row_is_library (a : Arena) (unit : Int) :
    Shows (statsRow a unit).height (treeHeight a unit) ∧
    Shows (statsRow a unit).diameter (diameter a unit) ∧
    (statsRow a unit).nodes = AR.sizeOf a ∧
    (statsRow a unit).tips = nLeaves a ∧
    Shows (statsRow a unit).rooted (isRooted a) ∧
    Shows (statsRow a unit).binary (isBinary a) ∧
    Shows (statsRow a unit).cherries (cherries a) ∧
    Shows (statsRow a unit).colless (colless a) ∧
    Shows (statsRow a unit).sackin (sackin a) := by
  have key : ∀ {α : Type} (x : QR α), NP x → Shows (toRepr x) x :=
    fun x hx => ⟨fun v => toRepr_some x v, toRepr_none x hx⟩
  exact ⟨key _ (np_treeHeight a unit), key _ (np_diameter a unit), rfl, rfl, key _ (np_isRooted a), key _ (np_isBinary a),
    key _ (np_cherries a), key _ (np_colless a), key _ (np_sackin a)⟩

/-- one row per file, in argument order, each depending on its own tree only -/
theorem stats_rows_in_order (as : List Arena) (unit : Int) :
    (cliStats as unit).length = as.length ∧
    ∀ i : Nat, (cliStats as unit)[i]? = (as[i]?).map (fun a => statsRow a unit) := by
  simp [cliStats]

/-- the `filename` column is present iff more than one file is given; the other nine column titles follow -/
theorem stats_name_column (k : Nat) :
    (statsHasNameColumn k = true ↔ 1 < k) ∧
    statsHeader k = (if 1 < k then ["filename"] else []) ++
      ["height", "diameter", "nodes", "tips", "rooted", "binary", "ncherries", "colless", "sackin"] := by
  simp [statsHasNameColumn, statsHeader]

/-- `stats` on `((A:3,B:4):1,C:2,(D:1):5);` (lengths in units of 1): the root has three children, so the tree is not rooted,
    `height`, `colless` and `sackin` are refused and shown as `-`; the diameter is the distance 11 from B to D; seven slots,
    four tips; binary in the crate's sense (an unrooted root may have three children, a one-child node is allowed); one cherry -/
example : statsRow exT 1 =
    { height := none, diameter := some 11, nodes := 7, tips := 4, rooted := some false, binary := some true,
      cherries := some 1, colless := none, sackin := none } := by decide

/-- a rooted binary tree `((A:1,B:2):1,C:4);` fills every column -/
def rexRooted : Arena := runOps #[] [.add none, .addChild 0 (some 1) none, .addChild 0 (some 4) (some "C"),
  .addChild 1 (some 1) (some "A"), .addChild 1 (some 2) (some "B")]
example : cliStats [rexRooted, exT] 1 =
    [{ height := some 4, diameter := some 7, nodes := 5, tips := 3, rooted := some true, binary := some true,
       cherries := some 1, colless := some 1, sackin := some 5 }, statsRow exT 1] ∧
    statsHasNameColumn 2 = true ∧ statsHasNameColumn 1 = false := by decide


/-! ## `compare REF C1 .. Ck` -/

/-- **a row of `compare`, spelled out**: the tool prints a row exactly when both files hold a tree, both trees have a
    bipartition set, and the library's `compare_topologies` accepts the pair; the row then consists of the three counting
    columns formed from the two bipartition sets and of the library's report, unchanged -/
theorem compare_row_spelled_out (ref cmp : Arena) (row : CompareRow) :
    cliCompareRow ref cmp = .ok row ↔
      ∃ s o ps po st, absRoot ref = .ok s ∧ absRoot cmp = .ok o ∧ partitions s = .ok ps ∧ partitions o = .ok po ∧
        compareTopologies s o = .ok st ∧
        row = ((compareColumns ps po).1, (compareColumns ps po).2.1, (compareColumns ps po).2.2, st) :=
  compareRow_ok_iff ref cmp row

/-- **the columns of a row are consistent with the two bipartition sets and with RF**.  Whenever a row
    `reference common compared rf … ` is printed: the two trees have the SAME sorted leaf index (otherwise the library refuses
    and the tool exits with an error) and duplicate-free bipartition lists (C05), and
    * `reference + common` is the number of bipartitions of the reference, `compared + common` that of the other tree;
    * `reference`, `compared`, `common` are the sizes of the two set differences and of the intersection;
    * `reference + compared` is the symmetric-difference count `Δ` of C06 — the value of RF before the root correction —
      and the printed `rf` is the library's `robinson_foulds`: `Δ`, or `Δ + 2` when both roots have two children and their
      root splits differ;
    * the denominator of `norm_rf` is `reference + compared + 2·common`;
    * `rf_w` and `branch_score` are the library's weighted RF and (squared) branch score -/
theorem compare_columns_consistent (ref cmp : Arena) (ro c co : Nat) (st : Report)
    (h : cliCompareRow ref cmp = .ok (ro, c, co, st)) :
    ∃ s o ls ps po, absRoot ref = .ok s ∧ absRoot cmp = .ok o ∧ leafIndex s = .ok ls ∧ leafIndex o = .ok ls ∧
      partitions s = .ok ps ∧ partitions o = .ok po ∧ (sides ps).Nodup ∧ (sides po).Nodup ∧
      ro + c = ps.length ∧ co + c = po.length ∧
      ro = ((sides ps).filter (fun x => !(sides po).contains x)).length ∧
      co = ((sides po).filter (fun x => !(sides ps).contains x)).length ∧
      c = ((sides ps).filter (fun x => (sides po).contains x)).length ∧
      ro + co = C06.delta ps po ∧
      rf s o = .ok st.1 ∧
      (st.1 = ro + co ∨ (st.1 = ro + co + 2 ∧ isRootedR s = true ∧ isRootedR o = true ∧
        sameSet (rootSides ls s) (rootSides ls o) = false)) ∧
      st.2.1 = ro + co + 2 * c ∧
      wrf s o = .ok st.2.2.1 ∧ kf2 s o = .ok st.2.2.2 := by
  obtain ⟨s, o, ps, po, st', hs, ho, hps, hpo, hst, hrow⟩ := (compareRow_ok_iff ref cmp _).mp h
  simp only [Prod.mk.injEq] at hrow
  obtain ⟨rfl, rfl, rfl, rfl⟩ := hrow
  obtain ⟨ls, ps', po', ms, mo, hls, hlo, hps', hpo', hms, hmo⟩ := compareTopologies_ok hst
  rw [hps] at hps'; cases hps'
  rw [hpo] at hpo'; cases hpo'
  have nds := C05.partitions_nodup s ps hps
  have ndo := C05.partitions_nodup o po hpo
  obtain ⟨f1, f2, f3, f4, f5, f6⟩ := columns_facts ps po nds ndo
  have hrf : rf s o = .ok st.1 := by
    have := C06.rf_equals_report s o ps po ls ls ms mo hps hpo hls hlo hms hmo
      (withLengths_keys ps ms hms) (withLengths_keys po mo hmo)
    rw [hst] at this
    exact this.symm
  have hshape := C06.rf_shape s o ps po ls hps hpo hls hlo
  have htot := compareTopologies_total hst hps hpo
  obtain ⟨r, hr, hw, hk⟩ := C07.report_agrees s o ps po ms mo ls hps hpo hms hmo hls hlo
  rw [hst] at hr; cases hr
  refine ⟨s, o, ls, ps, po, hs, ho, hls, hlo, hps, hpo, nds, ndo, f1, f2, f4, f5, f6, f3, hrf, ?_, by omega, hw, hk⟩
  rcases hshape with h1 | ⟨h1, h2, h3, h4⟩
  · left
    rw [hrf] at h1
    have := QR.ok.inj h1
    omega
  · right
    rw [hrf] at h1
    have := QR.ok.inj h1
    exact ⟨by omega, h2, h3, h4⟩

/-- **swapping the two files** swaps the columns `reference` and `compared` and changes nothing else in the row -/
theorem compare_row_swap (ref cmp : Arena) (ro c co : Nat) (st : Report)
    (h : cliCompareRow ref cmp = .ok (ro, c, co, st)) : cliCompareRow cmp ref = .ok (co, c, ro, st) :=
  compareRow_swap h

/-- **the counting columns depend only on the two SETS of bipartitions**: two trees that report the same set as the
    reference (resp. as the compared tree) give the same three columns.  By C05 this covers child reordering
    (`C05.reorder_invariant`), inserting or removing one-child nodes (`C05.unary_invariant`), the two styles of writing the
    root (`C05.root_style_invariant`) and any change of the root position (`C05.unrooted_topology_invariant`). -/
theorem compare_columns_depend_on_split_sets (s s' o o' : Rose) (ps ps' po po' : List Part)
    (hps : partitions s = .ok ps) (hps' : partitions s' = .ok ps') (hpo : partitions o = .ok po) (hpo' : partitions o' = .ok po')
    (h1 : ∀ x, x ∈ sides ps ↔ x ∈ sides ps') (h2 : ∀ x, x ∈ sides po ↔ x ∈ sides po') :
    compareColumns ps po = compareColumns ps' po' :=
  columns_congr (C05.partitions_nodup s ps hps) (C05.partitions_nodup s' ps' hps') (C05.partitions_nodup o po hpo)
    (C05.partitions_nodup o' po' hpo') h1 h2

/-- the instance for child reordering: reordering the children anywhere in either tree changes none of the three columns -/
theorem compare_columns_reorder_invariant {s s' o o' : Rose} (hs : ReorderR s s') (ho : ReorderR o o') (ps po : List Part)
    (hps : partitions s = .ok ps) (hpo : partitions o = .ok po) :
    ∃ ps' po', partitions s' = .ok ps' ∧ partitions o' = .ok po' ∧ compareColumns ps' po' = compareColumns ps po := by
  obtain ⟨ps', hps', h1, _⟩ := (C05.reorder_invariant hs).2.1 ps hps
  obtain ⟨po', hpo', h2, _⟩ := (C05.reorder_invariant ho).2.1 po hpo
  exact ⟨ps', po', hps', hpo', (compare_columns_depend_on_split_sets s s' o o' ps ps' po po' hps hps' hpo hpo' h1 h2).symm⟩

/-- **the table of `compare`**: the tool prints rows exactly when the reference has a bipartition set and every compared
    tree has a row of its own; the rows are numbered 0, 1, … in argument order and row `i` is the row of
    `compare REF Ci` — it depends on the reference and on that one tree only -/
theorem compare_rows (ref : Arena) (cmps : List Arena) (rows : List (Nat × CompareRow)) :
    cliCompare ref cmps = .ok rows ↔
      (∃ pr, partsOf ref = .ok pr) ∧ cmps.map (cliCompareRow ref) = (rows.map (·.2)).map QR.ok ∧
        rows.map (·.1) = List.range cmps.length :=
  cliCompare_ok_iff ref cmps rows

/-- `compare REF C1 .. Cm D1 .. Dn` prints the rows of `compare REF C1 .. Cm` followed by the rows of
    `compare REF D1 .. Dn` with `m` added to their numbers -/
theorem compare_append (ref : Arena) (xs ys : List Arena) (rows : List (Nat × CompareRow)) :
    cliCompare ref (xs ++ ys) = .ok rows ↔
      ∃ r1 r2, cliCompare ref xs = .ok r1 ∧ cliCompare ref ys = .ok r2 ∧
        rows = r1 ++ r2.map (fun p => (p.1 + xs.length, p.2)) :=
  cliCompare_append ref xs ys rows

/-- the property the test harness checks on the real binary: `compare REF C1 C2` = the row of `compare REF C1` and the
    row of `compare REF C2`, numbered 0 and 1 -/
theorem compare_two_files (ref c1 c2 : Arena) (r1 r2 : CompareRow) :
    cliCompare ref [c1, c2] = .ok [(0, r1), (1, r2)] ↔
      cliCompare ref [c1] = .ok [(0, r1)] ∧ cliCompare ref [c2] = .ok [(0, r2)] := by
  have h := cliCompare_append ref [c1] [c2] [(0, r1), (1, r2)]
  simp only [List.cons_append, List.nil_append, List.length_cons, List.length_nil, Nat.zero_add] at h
  rw [h]
  constructor
  · rintro ⟨q1, q2, h1, h2, he⟩
    have l1 := ((cliCompare_ok_iff ref [c1] q1).mp h1).2.2
    have l2 := ((cliCompare_ok_iff ref [c2] q2).mp h2).2.2
    match q1, q2, l1, l2, he with
    | [(i, a)], [(j, b)], l1, l2, he =>
      simp only [List.map_cons, List.map_nil, List.length_cons, List.length_nil, Nat.zero_add, List.range_one, List.cons.injEq,
        and_true, List.cons_append, List.nil_append, Prod.mk.injEq] at l1 l2 he
      obtain ⟨⟨_, rfl⟩, _, rfl⟩ := he
      subst l1 l2
      exact ⟨h1, h2⟩
  · rintro ⟨h1, h2⟩
    exact ⟨_, _, h1, h2, rfl⟩

/-- **refusals of `compare`**: the tool never ends otherwise than with rows or an error exit.  The reference's bipartitions
    are asked for before the first row, so a reference without a bipartition set is an error exit even when no tree is compared;
    otherwise the error is that of the FIRST compared tree that has no row, all trees before it having one -/
theorem compare_refusals (ref : Arena) (cmps : List Arena) (k : String) :
    cliCompare ref cmps ≠ .panic ∧
    (cliCompare ref cmps = .err k ↔
      partsOf ref = .err k ∨
      ((∃ pr, partsOf ref = .ok pr) ∧ ∃ pre c post, cmps = pre ++ c :: post ∧
        (∀ q ∈ pre, ∃ r, cliCompareRow ref q = .ok r) ∧ cliCompareRow ref c = .err k)) :=
  ⟨np_cliCompare ref cmps, cliCompare_err_iff ref cmps k⟩

/-- two ways a single row is refused: the two trees have different leaf names (`DifferentTipIndices`); a branch inducing a
    reported bipartition has no length (`MissingBranchLengths`) -/
theorem compare_row_refusals (ref cmp : Arena) (s o : Rose) (ps po : List Part) (ls lo : List String)
    (hs : absRoot ref = .ok s) (ho : absRoot cmp = .ok o) (hps : partitions s = .ok ps) (hpo : partitions o = .ok po)
    (hls : leafIndex s = .ok ls) (hlo : leafIndex o = .ok lo) :
    ((ps.any (fun p => p.len.isNone) = true ∨ po.any (fun p => p.len.isNone) = true) →
      cliCompareRow ref cmp = .err "MissingBranchLengths") ∧
    (ps.any (fun p => p.len.isNone) = false → po.any (fun p => p.len.isNone) = false → ls ≠ lo →
      cliCompareRow ref cmp = .err "DifferentTipIndices") := by
  refine ⟨compareRow_missing_length hs ho hps hpo, ?_⟩
  intro h1 h2 hne
  have w1 : withLengths ps = .ok (ps.map (fun p => (p.side, p.depth, p.len.getD 0))) := by simp [withLengths, h1]
  have w2 : withLengths po = .ok (po.map (fun p => (p.side, p.depth, p.len.getD 0))) := by simp [withLengths, h2]
  exact compareRow_different_leaves hs ho hps hpo w1 w2 hls hlo hne

/-! ### non-vacuity: reference `((A:1,B:1):1,(C:1,D:1):1,E:1);`, compared `((A:1,B:1):2,C:1,(D:1,E:1):1);` — the bipartition
    AB|CDE is common (lengths 1 and 2), CD|ABE is only in the reference, DE|ABC only in the compared tree -/

def rexRef : Arena := runOps #[] [.add none, .addChild 0 (some 1) none, .addChild 0 (some 1) none, .addChild 0 (some 1) (some "E"),
  .addChild 1 (some 1) (some "A"), .addChild 1 (some 1) (some "B"), .addChild 2 (some 1) (some "C"), .addChild 2 (some 1) (some "D")]
def rexCmp : Arena := runOps #[] [.add none, .addChild 0 (some 2) none, .addChild 0 (some 1) (some "C"), .addChild 0 (some 1) none,
  .addChild 1 (some 1) (some "A"), .addChild 1 (some 1) (some "B"), .addChild 3 (some 1) (some "D"), .addChild 3 (some 1) (some "E")]

def rexLf (i : Nat) (n : String) : Rose := .node i (some n) (some 1) 2 []
def rexRefT : Rose := .node 0 none none 0 [.node 1 none (some 1) 1 [rexLf 4 "A", rexLf 5 "B"],
  .node 2 none (some 1) 1 [rexLf 6 "C", rexLf 7 "D"], .node 3 (some "E") (some 1) 1 []]
def rexCmpT : Rose := .node 0 none none 0 [.node 1 none (some 2) 1 [rexLf 4 "A", rexLf 5 "B"],
  .node 2 (some "C") (some 1) 1 [], .node 3 none (some 1) 1 [rexLf 6 "D", rexLf 7 "E"]]

theorem rexRef_abs : absRoot rexRef = .ok rexRefT := by rfl
theorem rexCmp_abs : absRoot rexCmp = .ok rexCmpT := by rfl

theorem rex_leafIndex (t : Rose) (hn : tipNames t = [some "A", some "B", some "C", some "D", some "E"]) :
    leafIndex t = .ok ["A", "B", "C", "D", "E"] := by
  rw [leafIndex_ok_iff]
  simp only [names, hn]
  refine ⟨by decide, by decide, ?_⟩
  symm
  exact List.mergeSort_of_pairwise (by decide)

theorem rexRef_leafIndex : leafIndex rexRefT = .ok ["A", "B", "C", "D", "E"] :=
  rex_leafIndex _ (by simp [rexRefT, rexLf, tipNames, tipNamesL])
theorem rexCmp_leafIndex : leafIndex rexCmpT = .ok ["A", "B", "C", "D", "E"] :=
  rex_leafIndex _ (by simp [rexCmpT, rexLf, tipNames, tipNamesL])

theorem rexRef_parts : partitions rexRefT = .ok
    [{ side := [false, false, true, true, true], depth := 1, len := some 1 },
     { side := [false, false, true, true, false], depth := 1, len := some 1 }] := by
  simp only [partitions, rexRef_leafIndex, QR.bind_ok, QR.pure_eq]
  rfl
theorem rexCmp_parts : partitions rexCmpT = .ok
    [{ side := [false, false, true, true, true], depth := 1, len := some 2 },
     { side := [false, false, false, true, true], depth := 1, len := some 1 }] := by
  simp only [partitions, rexCmp_leafIndex, QR.bind_ok, QR.pure_eq]
  rfl
theorem rex_report : compareTopologies rexRefT rexCmpT = .ok (2, 4, 3, 3) := by
  simp only [compareTopologies, rexRef_parts, rexCmp_parts, rexRef_leafIndex, rexCmp_leafIndex, QR.bind_ok, QR.pure_eq]
  rfl
theorem rex_row : cliCompareRow rexRef rexCmp = .ok (1, 1, 1, (2, 4, 3, 3)) :=
  (compareRow_ok_iff _ _ _).mpr ⟨_, _, _, _, _, rexRef_abs, rexCmp_abs, rexRef_parts, rexCmp_parts, rex_report, rfl⟩

/-- the row: 1 reference-only, 1 common, 1 compared-only; RF 2 of 4; weighted RF |1−2| + 1 + 1 = 3; squared branch score 3;
    the hypotheses of `compare_columns_consistent` / `compare_row_swap` hold for it -/
example : cliCompareRow rexRef rexCmp = .ok (1, 1, 1, (2, 4, 3, 3)) ∧ cliCompareRow rexCmp rexRef = .ok (1, 1, 1, (2, 4, 3, 3)) :=
  ⟨rex_row, compare_row_swap _ _ _ _ _ _ rex_row⟩

/-- the table `compare REF CMP REF`: two rows numbered 0 and 1, the second comparing the reference with itself -/
example : ∃ r, cliCompare rexRef [rexCmp, rexRef] = .ok [(0, (1, 1, 1, (2, 4, 3, 3))), (1, r)] ∧ r.1 = 0 ∧ r.2.1 = 2 := by
  have hself : cliCompareRow rexRef rexRef = .ok (0, 2, 0, (0, 4, 0, 0)) :=
    (compareRow_ok_iff _ _ _).mpr ⟨_, _, _, _, _, rexRef_abs, rexRef_abs, rexRef_parts, rexRef_parts, (by
      simp only [compareTopologies, rexRef_parts, rexRef_leafIndex, QR.bind_ok, QR.pure_eq]
      rfl), rfl⟩
  refine ⟨(0, 2, 0, (0, 4, 0, 0)), (compare_rows _ _ _).mpr ⟨⟨_, partsOf_of_absRoot_ok rexRef_abs rexRef_parts⟩, ?_, rfl⟩, rfl, rfl⟩
  simp [rex_row, hself]

/-- a tree on other leaf names is refused: `(A:1,B:1,X:1)` against the reference -/
def rexOther : Arena := runOps #[] [.add none, .addChild 0 (some 1) (some "A"), .addChild 0 (some 1) (some "B"),
  .addChild 0 (some 1) (some "X")]
def rexOtherT : Rose := .node 0 none none 0 [.node 1 (some "A") (some 1) 1 [], .node 2 (some "B") (some 1) 1 [],
  .node 3 (some "X") (some 1) 1 []]

example : cliCompareRow rexRef rexOther = .err "DifferentTipIndices" ∧
    cliCompare rexRef [rexCmp, rexOther, rexCmp] = .err "DifferentTipIndices" := by
  have habs : absRoot rexOther = .ok rexOtherT := by rfl
  have hli : leafIndex rexOtherT = .ok ["A", "B", "X"] := by
    rw [leafIndex_ok_iff]
    have hn : tipNames rexOtherT = [some "A", some "B", some "X"] := by simp [rexOtherT, tipNames, tipNamesL]
    simp only [names, hn]
    exact ⟨by decide, by decide, (List.mergeSort_of_pairwise (by decide)).symm⟩
  have hp : partitions rexOtherT = .ok [] := by
    simp only [partitions, hli, QR.bind_ok, QR.pure_eq]
    rfl
  have hrow := (compare_row_refusals rexRef rexOther _ _ _ _ _ _ rexRef_abs habs rexRef_parts hp rexRef_leafIndex hli).2
    (by decide) (by decide) (by decide)
  refine ⟨hrow, ((compare_refusals _ _ _).2).mpr (.inr ⟨⟨_, partsOf_of_absRoot_ok rexRef_abs rexRef_parts⟩,
    [rexCmp], rexOther, [rexCmp], rfl, ?_, hrow⟩)⟩
  intro q hq
  rw [List.mem_singleton.mp hq]
  exact ⟨_, rex_row⟩

end C18
