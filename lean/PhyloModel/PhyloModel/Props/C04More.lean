import PhyloModel.Props.C04
import PhyloModel.Arena.QueryMoreRefine
/-! # C04 (continued) — `get_leaf_names`, `has_unique_tip_names`, `size`

The three remaining id-free read-only functions of `Tree` (`Arena/QueryMore.lean`): what they return, that the
first two are functions of the abstract tree alone (so they too answer after any edit history like on a freshly
built tree), and that `size` is NOT — it counts arena slots, removed ones included. -/
namespace C04
open AR

/-- `get_leaf_names` lists the names of the live tips in the order `get_leaves` lists the tips (arena order);
    it has one entry per tip -/
theorem leaf_names_are_tip_names (a : Arena) :
    leafNames a = (leaves a).map (fun l => (nd a l).name) ∧ (leafNames a).length = nLeaves a :=
  ⟨leafNames_eq a, leafNames_length a⟩

/-- on a well-formed arena with one root, the leaf names are exactly the names of the tips of the tree, each as
    often as it occurs there — as a multiset: arena order is not the left-to-right order of the tree -/
theorem leaf_names_of_tree {a : Arena} (g : Good a) (h1 : AtMostOneRoot a) {t : Rose} (h : absRoot a = .ok t) :
    (leafNames a).Perm (leafNamesR t) :=
  leafNames_perm_tree g h1 h

/-- `has_unique_tip_names` answers `Err(UnnamedLeaves)` exactly when some live tip has no name; it has no
    other refusal and never panics -/
theorem unique_tip_names_refused_iff (a : Arena) :
    (hasUniqueTipNames a = .err "UnnamedLeaves" ↔ ∃ i, i ∈ leaves a ∧ (nd a i).name = none) ∧
    (hasUniqueTipNames a = .err "UnnamedLeaves" ∨ ∃ b, hasUniqueTipNames a = .ok b) :=
  ⟨hasUniqueTipNames_err_iff a, hasUniqueTipNames_cases a⟩

/-- when `has_unique_tip_names` answers `Ok(b)`: every live tip has a name, and `b` is `true` exactly when the
    names are pairwise distinct — the list of leaf names has no repetition, equivalently no two different live
    tips carry the same name.  (The code compares the number of DISTINCT names with `n_leaves()`; this is the
    proof that the comparison decides the textbook property, for every arena, well formed or not.) -/
theorem unique_tip_names_meaning (a : Arena) (b : Bool) (h : hasUniqueTipNames a = .ok b) :
    (∀ i ∈ leaves a, ∃ s, (nd a i).name = some s) ∧
    (b = true ↔ (leafNames a).Nodup) ∧
    (b = true ↔ ∀ i ∈ leaves a, ∀ j ∈ leaves a, (nd a i).name = (nd a j).name → i = j) :=
  ⟨hasUniqueTipNames_ok_named a b h, hasUniqueTipNames_ok_iff_nodup a b h, hasUniqueTipNames_ok_iff_inj a b h⟩

/-- the same in one equation -/
theorem unique_tip_names_value (a : Arena) :
    hasUniqueTipNames a =
      if none ∈ leafNames a then .err "UnnamedLeaves" else .ok (decide (leafNames a).Nodup) :=
  hasUniqueTipNames_spec a

/-- on a well-formed arena with one root, `has_unique_tip_names` is the textbook answer computed from the tree
    alone (`uniqueTipNamesR`: refused when a tip of the tree is unnamed, otherwise whether the tip names read
    left to right are pairwise distinct) -/
theorem unique_tip_names_of_tree {a : Arena} (g : Good a) (h1 : AtMostOneRoot a) {t : Rose}
    (h : absRoot a = .ok t) : hasUniqueTipNames a = uniqueTipNamesR t :=
  hasUniqueTipNames_refines g h1 h

/-- **the answers depend only on the tree**: two well-formed one-rooted arenas — whatever their slot layout,
    removed slots, cached depths and histories — whose trees agree as Newick trees (`erase`: names, branch
    lengths, ordered topology) agree on `has_unique_tip_names`, and their `get_leaf_names` agree as multisets -/
theorem leaf_name_answers_depend_only_on_tree {a b : Arena} (ga : Good a) (gb : Good b) (ha : AtMostOneRoot a)
    (hb : AtMostOneRoot b) {ta tb : Rose} (hta : absRoot a = .ok ta) (htb : absRoot b = .ok tb)
    (he : erase ta = erase tb) :
    hasUniqueTipNames a = hasUniqueTipNames b ∧ (leafNames a).Perm (leafNames b) :=
  names_depend_only_on_tree ga gb ha hb hta htb he

/-- **after any edit history**: the arena reached by an admissible history answers `has_unique_tip_names` and
    (as a multiset) `get_leaf_names` exactly like the arena built afresh from its current tree (root by `add`,
    every other node by `add_child` in pre-order, the way the Newick parser builds it) -/
theorem leaf_name_answers_history_vs_fresh (ops : List Op) (hadm : AdmissibleRun #[] ops) {ta : Rose}
    (hta : absRoot (runOps #[] ops) = .ok ta) :
    hasUniqueTipNames (runOps #[] ops) = hasUniqueTipNames (freshArena' (erase ta)) ∧
    (leafNames (runOps #[] ops)).Perm (leafNames (freshArena' (erase ta))) := by
  have h0 : AtMostOneRoot #[] := by intro i j hi; exact absurd hi.1.1 (by simp)
  obtain ⟨ga, ha⟩ := runOps_oneRoot ops empty_good h0 hadm
  obtain ⟨gb, hb, _, tb, htb, hetb⟩ := freshArena'_spec (erase ta)
  exact names_depend_only_on_tree ga gb ha hb hta htb hetb.symm

/-- `size()` is the number of arena SLOTS: every id ever handed out, live or removed, is below it; the tree
    has at most `size()` nodes, and exactly `size()` iff no slot is a tombstone.  So `size` is NOT a function
    of the tree (see the example below): it is compared with the model id-level only. -/
theorem size_counts_slots {a : Arena} (g : Good a) (h1 : AtMostOneRoot a) {t : Rose} (h : absRoot a = .ok t) :
    AR.sizeOf a = a.size ∧ (∀ i, live a i → i < AR.sizeOf a) ∧
    (idsR t).length ≤ AR.sizeOf a ∧ ((idsR t).length = AR.sizeOf a ↔ ∀ i, i < a.size → live a i) :=
  ⟨sizeOf_eq a, live_lt_sizeOf a, nodes_le_sizeOf g h1 h⟩

/-! ### non-vacuity -/

/-- the cherry `(x:3,y:4);` in two layouts (`exA`: slots 0,1,2; `exB`: slot 1 is a tombstone): the hypotheses of
    `leaf_name_answers_depend_only_on_tree` hold, both arenas list the names `x`, `y` and answer `Ok(true)`;
    their sizes differ (3 and 4) although the trees are the same -/
example : hasUniqueTipNames exA = hasUniqueTipNames exB ∧ hasUniqueTipNames exB = .ok true ∧
    leafNames exA = [some "x", some "y"] ∧ leafNames exB = [some "x", some "y"] ∧
    AR.sizeOf exA = 3 ∧ AR.sizeOf exB = 4 := by
  have := leaf_name_answers_depend_only_on_tree exA_ok.1 exB_ok.1 exA_ok.2 exB_ok.2 exA_abs exB_abs ex_erase
  exact ⟨this.1, qr_eq_of_check _ _ (by decide), by decide, by decide, by decide, by decide⟩

/-- two tips with the same name: `Ok(false)`; an unnamed tip: `Err(UnnamedLeaves)` -/
def exDup : Arena := runOps #[] [.add none, .addChild 0 (some 3) (some "x"), .addChild 0 (some 4) (some "x")]
def exUnnamed : Arena := runOps #[] [.add none, .addChild 0 (some 3) (some "x"), .addChild 0 (some 4) none]

example : hasUniqueTipNames exDup = .ok false ∧ ¬ (leafNames exDup).Nodup := by
  have h : hasUniqueTipNames exDup = .ok false := qr_eq_of_check _ _ (by decide)
  refine ⟨h, fun hn => ?_⟩
  have := ((unique_tip_names_meaning exDup false h).2.1).2 hn
  cases this

example : hasUniqueTipNames exUnnamed = .err "UnnamedLeaves" :=
  (unique_tip_names_refused_iff exUnnamed).1.2 ⟨2, by decide, by decide⟩

end C04
