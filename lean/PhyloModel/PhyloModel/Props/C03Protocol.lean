import PhyloModel.Arena.ProtocolOps
/-! # C03 — node arguments that are copies, lengths overwritten in place

Two further ways in which a caller edits a tree with public methods only, as requests of the line protocol:
`ar.add_copy src p e` — `add_child` whose node argument is a COPY of a node of the tree (`tree.get(src)?.clone()`; the copy
arrives with that node's links, which the repaired `add_child` drops) — and `ar.setlen x v` — a branch length overwritten in place
through the public setters, both records, as the crate's own `collapse` command does.  Both keep the arena invariant with every
choice of arguments, and histories mixing them with the operations of `C03.every_history` do. -/
namespace C03
open AR

/-- `add_child` of a copy of node `src` keeps the invariant, for every `src`, parent and length (refused for a removed or
    unknown `src` or parent) -/
theorem add_child_of_a_copy_preserves {a : Arena} (src p : Nat) (e : Option Int) (g : Good a) :
    Good (addCopy a src p e).1 :=
  addCopy_good src p e g

/-- overwriting a branch length in place (both records) keeps the invariant, for every node argument and value (refused for a
    removed or unknown id and for a node without a parent) -/
theorem length_overwrite_preserves {a : Arena} (x : Nat) (v : Int) (g : Good a) : Good (setLenOp a x v).1 :=
  setLenOp_good x v g

/-- a request of the extended protocol: an operation of `C03.every_operation_preserves`, or one of the two above -/
inductive Req where
  | op (o : Op)
  | addCopy (src p : Nat) (e : Option Int)
  | setLen (x : Nat) (v : Int)

def applyReq (a : Arena) : Req → Arena
  | .op o => (applyOp a o).1
  | .addCopy src p e => (addCopy a src p e).1
  | .setLen x v => (setLenOp a x v).1

/-- **every history of the extended protocol**: from the empty arena, any sequence of the library operations, copies added as
    children and lengths overwritten in place leaves an arena that satisfies the invariant -/
theorem every_extended_history (rs : List Req) : Good (rs.foldl applyReq #[]) := by
  have key : ∀ (rs : List Req) (a : Arena), Good a → Good (rs.foldl applyReq a) := by
    intro rs
    induction rs with
    | nil => intro a g; exact g
    | cons r rs ih =>
      intro a g
      apply ih
      cases r with
      | op o => exact (applyOp_good o g).1
      | addCopy src p e => exact addCopy_good src p e g
      | setLen x v => exact setLenOp_good x v g
  exact key rs #[] empty_good

/-- non-vacuity: a history that adds a root, a child, a copy of the root below the child and overwrites a length; the copy
    is a fresh tip (it does not list the root's children) and both records of the overwritten branch read the new value -/
example :
    let a := [Req.op (.add (some "R")), .op (.addChild 0 (some 1) (some "A")), .addCopy 0 1 none, .setLen 2 (7 : Int)].foldl applyReq #[]
    a.size = 3 ∧ (nd a 2).children = [] ∧ (nd a 2).name = some "R" ∧ (nd a 2).parent = some 1 ∧
      (nd a 2).pedge = some 7 ∧ (nd a 1).cedges = [(2, 7)] := by
  decide

end C03
