import PhyloModel.Props.C01
import PhyloModel.Newick.Reject
import PhyloModel.Newick.Balanced
import PhyloModel.Newick.QuoteInv
import PhyloModel.Newick.BalancedTok
import PhyloModel.Newick.LexPlain
import PhyloModel.Newick.FloatLexeme
/-! # C02 — the Newick parser is total and only ever returns well-formed trees

`NW.parse` is a fold of `NW.step` over the characters (hence terminates on every string).  Every partial
operation of the Rust code is an explicit `.panic` branch of the model; `parse_total` shows no reachable
state takes one.  `NW.Struct a` says that `a` is one rooted tree containing all of its slots: slot 0 is the
only parentless slot, every other slot names a smaller slot as parent, is listed by it, and has its depth
plus one; child lists are duplicate-free and point back. -/
namespace C02
open NW
variable {L : Type} (parseLen : Label → Option L)

/-- for every input string the parser returns an error or a tree and never panics; a returned arena is a
    single rooted tree containing all of its nodes -/
theorem parse_total_wf (cs : List Char) :
    parse parseLen cs ≠ .panic ∧ (∀ a, parse parseLen cs = .done a → Struct a ∧ 0 < a.size) :=
  C02_parse_wf parseLen cs

/-- text with no terminating semicolon is rejected -/
theorem reject_unterminated (cs : List Char) (h : ';' ∉ cs) (a : Array (PNode L)) :
    parse parseLen cs ≠ .done a :=
  NW.reject_unterminated parseLen cs h a

/-- every label stored by the parser on quote-free text lies in the domain of the round-trip theorem -/
theorem labels_ok (cs : List Char) (hq : ∀ c ∈ cs, c ≠ '"') (a : Array (PNode L))
    (h : parse parseLen cs = .done a) : ∀ i, nameWF (nd a i).name ∧ commentWF (nd a i).comment :=
  C02_labels_ok parseLen cs hq a h

/-- normal form: for quote-free text, a returned arena represents a tree `t`; its written form parses back
    to an arena representing the same `t`, which is written identically again. -/
theorem normal_form {showLen : L → Label} (hc : Codec parseLen showLen) (cs : List Char)
    (hq : ∀ c ∈ cs, c ≠ '"') (a : Array (PNode L)) (h : parse parseLen cs = .done a) :
    ∃ t txt a', RepN a 0 t ∧ toNewickF showLen (a.size + 1) .allFields a 0 = some txt ∧
      parse parseLen (txt ++ [';']) = .done a' ∧ RepN a' 0 t ∧
      toNewickF showLen (a'.size + 1) .allFields a' 0 = some txt := by
  obtain ⟨hs, hpos⟩ := (C02_parse_wf parseLen cs).2 a h
  have hlab := C02_labels_ok parseLen cs hq a h
  obtain ⟨t, hrep, hht, hwf⟩ := struct_rep a hs hlab a.size 0 (by omega) hpos
  obtain ⟨txt, a', h1, h2, h3, h4⟩ := C01.roundtrip_arena hc a 0 t hrep hwf (a.size + 1) (by omega)
  exact ⟨t, txt, a', hrep, h1, h2, h3, h4⟩

/-- non-vacuity of `normal_form`'s hypotheses: a concrete text is accepted -/
example : (match parse (fun (l : Label) => some l) ['(', 'A', ':', '1', ',', '(', 'B', ',', 'C', ')', 'D', '[', 'x', ']', ')', 'R', ';'] with
    | .done a => a.size == 5 | _ => false) = true := by decide

/-- **unbalanced parentheses are rejected** (text without `"` and `[`, where every parenthesis is
    structural): whatever is accepted has the form `mid ++ ';' :: post` with no `;` in `mid`, exactly as many
    `(` as `)` in `mid`, and no prefix of `mid` closing more parentheses than it opened.  So text whose part
    before the first `;` is unbalanced — or that has no `;` — is never accepted. -/
theorem reject_unbalanced (cs : List Char) (hq : '"' ∉ cs) (hb : '[' ∉ cs) (a : Array (PNode L))
    (h : parse parseLen cs = .done a) :
    ∃ mid post, cs = mid ++ ';' :: post ∧ ';' ∉ mid ∧ mid.count '(' = mid.count ')' ∧
      ∀ p, p <+: mid → p.count ')' ≤ p.count '(' :=
  accepted_is_balanced parseLen cs hq hb a h

/-- non-vacuity of the rejection: `((A,B);` and `(A,B));` are rejected, `((A,B));` is accepted -/
example :
    (match parse (fun (l : Label) => some l) "((A,B);".toList with | .done _ => true | _ => false) = false ∧
    (match parse (fun (l : Label) => some l) "(A,B));".toList with | .done _ => true | _ => false) = false ∧
    (match parse (fun (l : Label) => some l) "((A,B));".toList with | .done _ => true | _ => false) = true := by
  decide


/-! ## C02 for every text — double quotes and bracket comments anywhere

`Props/C02.lean` proves the label / normal-form clauses only for text without `"` and the rejection of
unbalanced parentheses only for text without `"` and `[`.  Here the restrictions are removed.

* `labels_ok_all`, `normal_form_all`: unconditional.
* `reject_unbalanced_all`: in the plain three-mode lexical reading `NW.toks3` (plain text / inside double
  quotes / inside a bracket comment; `(`, `)`, `;` are structural only in plain mode), for every text, given
  that the number parser refuses lexemes containing a double quote (`NW.QuoteRefusing`, true of Rust's
  `f64::from_str`).  `reject_unbalanced_exact` needs no assumption on the number parser: it uses the exact
  token stream `NW.ltoks`, which differs from `toks3` only in that a `"` inside a branch length does not open
  a quoted section (it is kept in the length lexeme).  `hpl_needed` shows the assumption cannot be dropped
  for an arbitrary number parser.

History: on the model of the parser BEFORE repair 766b4db (the `"` arm flipped `within_quotes` in every
field but stored the character only in the name field) all three statements were false; the witnesses
`(a:1",(b",c);` (accepted, stored name `(b"`, written form rejected), `(a:1"(,)",c));` and `:";` are
rejected now (`old_witnesses_rejected`). -/

open NW
variable {L : Type} (parseLen : Label → Option L)

/-- every label stored by the parser, on ANY text, lies in the domain of the round-trip theorem C01 -/
theorem labels_ok_all (cs : List Char) (a : Array (PNode L)) (h : parse parseLen cs = .done a) :
    ∀ i, nameWF (nd a i).name ∧ commentWF (nd a i).comment :=
  NW.labels_ok_all parseLen cs a h

/-- normal form, for ANY accepted text: the returned arena represents a tree `t`; its written form parses
    back to an arena representing the same `t`, which is written identically again -/
theorem normal_form_all {showLen : L → Label} (hc : Codec parseLen showLen) (cs : List Char)
    (a : Array (PNode L)) (h : parse parseLen cs = .done a) :
    ∃ t txt a', RepN a 0 t ∧ toNewickF showLen (a.size + 1) .allFields a 0 = some txt ∧
      parse parseLen (txt ++ [';']) = .done a' ∧ RepN a' 0 t ∧
      toNewickF showLen (a'.size + 1) .allFields a' 0 = some txt := by
  obtain ⟨hs, hpos⟩ := (C02_parse_wf parseLen cs).2 a h
  have hlab := NW.labels_ok_all parseLen cs a h
  obtain ⟨t, hrep, hht, hwf⟩ := struct_rep a hs hlab a.size 0 (by omega) hpos
  obtain ⟨txt, a', h1, h2, h3, h4⟩ := C01.roundtrip_arena hc a 0 t hrep hwf (a.size + 1) (by omega)
  exact ⟨t, txt, a', hrep, h1, h2, h3, h4⟩

/-- **unbalanced parentheses are rejected — every text, plain lexical reading**: whatever is accepted has a
    structural `;` (one outside double quotes and outside bracket comments), and the structural parentheses
    `ts` before the first structural `;` are balanced: as many `(` as `)`, and no prefix closes more than it
    opened.  (`toks3 .plain cs = none` means: no structural `;`.) -/
theorem reject_unbalanced_all (hpl : QuoteRefusing parseLen) (cs : List Char) (a : Array (PNode L))
    (h : parse parseLen cs = .done a) :
    ∃ ts, toks3 .plain cs = some ts ∧ ts.count '(' = ts.count ')' ∧
      ∀ p, p <+: ts → p.count ')' ≤ p.count '(' :=
  accepted_is_balanced_toks3 parseLen hpl cs a h

/-- contrapositive form: text with no structural `;`, or whose structural parentheses before the first
    structural `;` are not balanced, is rejected -/
theorem reject_unbalanced_all' (hpl : QuoteRefusing parseLen) (cs : List Char)
    (hbad : ∀ ts, toks3 .plain cs = some ts → ¬ Balanced ts) (a : Array (PNode L)) :
    parse parseLen cs ≠ .done a := by
  intro h
  obtain ⟨ts, e1, e2⟩ := accepted_is_balanced_toks3 parseLen hpl cs a h
  exact hbad ts e1 e2

/-- the same for an arbitrary number parser, with the exact token stream -/
theorem reject_unbalanced_exact (cs : List Char) (a : Array (PNode L)) (h : parse parseLen cs = .done a) :
    ∃ ts, ltoks .name cs = some ts ∧ ts.count '(' = ts.count ')' ∧
      ∀ p, p <+: ts → p.count ')' ≤ p.count '(' :=
  accepted_is_balanced_exact parseLen cs a h

/-- text with a double quote inside a branch length (before the finishing `;`) is rejected -/
theorem reject_quote_in_length (hpl : QuoteRefusing parseLen) (cs : List Char) (hq : lenQuoteFree .name cs = false)
    (a : Array (PNode L)) : parse parseLen cs ≠ .done a := by
  intro h
  rw [accepted_lenQuoteFree parseLen hpl cs a h] at hq
  cases hq

/-- … it ends in an error (no panic, no tree) -/
theorem reject_quote_in_length_err (hpl : QuoteRefusing parseLen) (cs : List Char)
    (hq : lenQuoteFree .name cs = false) : ∃ e, parse parseLen cs = .err e := by
  have h1 := (parse_total_wf parseLen cs).1
  have h2 := reject_quote_in_length parseLen hpl cs hq
  cases hp : parse parseLen cs with
  | cont s => unfold parse at hp; split at hp <;> simp_all
  | done a => exact absurd hp (h2 a)
  | err e => exact ⟨e, rfl⟩
  | panic => exact absurd hp h1

/-- `C02.reject_unbalanced` (text without `"` and `[`, every parenthesis structural) is a corollary of the
    general theorem: there `toks3` is just "the parentheses before the first `;`" (`NW.toks3_plain_text`) -/
theorem reject_unbalanced_again (cs : List Char) (hq : '"' ∉ cs) (hb : '[' ∉ cs) (a : Array (PNode L))
    (h : parse parseLen cs = .done a) :
    ∃ mid post, cs = mid ++ ';' :: post ∧ ';' ∉ mid ∧ mid.count '(' = mid.count ')' ∧
      ∀ p, p <+: mid → p.count ')' ≤ p.count '(' :=
  accepted_is_balanced_again parseLen cs hq hb a h

/-- instance for the Rust-float recogniser of the test driver (twin in `Newick/FloatLexeme.lean`): no
    assumption left -/
theorem reject_unbalanced_float (cs : List Char) (a : Array (PNode Label))
    (h : parse FloatTwin.parseLex cs = .done a) :
    ∃ ts, toks3 .plain cs = some ts ∧ ts.count '(' = ts.count ')' ∧
      ∀ p, p <+: ts → p.count ')' ≤ p.count '(' :=
  accepted_is_balanced_toks3 FloatTwin.parseLex FloatTwin.parseLex_refusing cs a h

/-! ### non-vacuity and witnesses -/

/-- a quote-refusing number parser (stands for `f64::from_str`) -/
def pq (l : Label) : Option Label := if '"' ∈ l then none else some l

theorem pq_refusing : QuoteRefusing pq := by
  intro l h; simp [pq, h]

/-- `("a(b",c);` is accepted with 3 nodes, the quoted parenthesis being a name character;
    `("a(b,c);` (unterminated quote) is rejected -/
example :
    (match parse pq "(\"a(b\",c);".toList with
      | .done a => a.size == 3 && (nd a 1).name == some "\"a(b\"".toList | _ => false) = true ∧
    (match parse pq "(\"a(b,c);".toList with | .done _ => true | _ => false) = false := by
  decide

/-- comments: `(a[x(y],b)[;]r;` is accepted with 3 nodes (the `(` and the first `;` are comment text);
    `(a[x,b);` (unterminated comment) is rejected; a `"` inside a comment and a `[` inside quotes are inert -/
example :
    (match parse pq "(a[x(y],b)[;]r;".toList with
      | .done a => a.size == 3 && (nd a 1).comment == some "x(y".toList && (nd a 0).comment == some ";".toList
      | _ => false) = true ∧
    (match parse pq "(a[x,b);".toList with | .done _ => true | _ => false) = false ∧
    (match parse pq "(a[\"],\"[\",c);".toList with
      | .done a => a.size == 4 && (nd a 2).name == some "\"[\"".toList | _ => false) = true := by
  decide

/-- the three-mode token streams of these texts -/
example :
    toks3 .plain "(\"a(b\",c);".toList = some ['(', ')'] ∧
    toks3 .plain "(\"a(b,c);".toList = none ∧
    toks3 .plain "(a[x(y],b)[;]r;".toList = some ['(', ')'] ∧
    toks3 .plain "((\"a)\",b);".toList = some ['(', '(', ')'] := by
  decide

/-- `(("a)",b);` has unbalanced structural parentheses (the quoted `)` does not count) and is rejected,
    `(("a)",b));` is accepted -/
example :
    (match parse pq "((\"a)\",b);".toList with | .done _ => true | _ => false) = false ∧
    (match parse pq "((\"a)\",b));".toList with | .done a => a.size == 4 | _ => false) = true := by
  decide

/-- the witnesses against the parser before the repair are rejected now -/
theorem old_witnesses_rejected :
    (match parse pq "(a:1\",(b\",c);".toList with | .done _ => true | _ => false) = false ∧
    (match parse pq "(a:1\"(,)\",c));".toList with | .done _ => true | _ => false) = false ∧
    (match parse pq ":\";".toList with | .done _ => true | _ => false) = false := by
  decide

/-- … also with the Rust-float recogniser; `(a:1e-3,("b(":.5,c));` is accepted by it -/
example :
    (match parse FloatTwin.parseLex "(a:1\",(b\",c);".toList with | .done _ => true | _ => false) = false ∧
    (match parse FloatTwin.parseLex "(a:1\"(,)\",c));".toList with | .done _ => true | _ => false) = false ∧
    (match parse FloatTwin.parseLex ":\";".toList with | .done _ => true | _ => false) = false ∧
    (match parse FloatTwin.parseLex "(a:1e-3,(\"b(\":.5,c));".toList with
      | .done a => a.size == 5 | _ => false) = true := by
  decide

/-- the assumption on the number parser cannot be dropped from `reject_unbalanced_all`: with a number parser
    accepting everything, `(a:1"(b"),c);` is accepted (the `(` after the `"` is structural, `1"b"` is the
    length lexeme) although its three-mode token stream `( ) )` is unbalanced; the exact stream is `( ( ) )` -/
theorem hpl_needed :
    (match parse (fun (l : Label) => some l) "(a:1\"(b\"),c);".toList with
      | .done a => a.size == 4 | _ => false) = true ∧
    toks3 .plain "(a:1\"(b\"),c);".toList = some ['(', ')', ')'] ∧
    ltoks .name "(a:1\"(b\"),c);".toList = some ['(', '(', ')', ')'] ∧
    (match parse pq "(a:1\"(b\"),c);".toList with | .done _ => true | _ => false) = false := by
  decide

end C02
