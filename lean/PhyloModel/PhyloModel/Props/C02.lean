import PhyloModel.Props.C01
import PhyloModel.Newick.Reject
import PhyloModel.Newick.Balanced
/-! # C02 — the Newick parser is total and only ever returns well-formed trees

`NW.parse` is a fold of `NW.step` over the characters (hence terminates on every string).  Every partial
operation of the Rust code is an explicit `.panic` branch of the model; `parse_total` shows no reachable
state takes one.  `NW.Struct a` says that `a` is one rooted tree containing all of its slots: slot 0 is the
only parentless slot, every other slot names a smaller slot as parent, is listed by it, and has its depth
plus one; child lists are duplicate-free and point back. -/
namespace C02
open NW
variable {L : Type} (parseLen : Label → Option L)

/-- for every input string the parser returns an error or a tree and never panics; a returned arena is a
    single rooted tree containing all of its nodes -/
theorem parse_total_wf (cs : List Char) :
    parse parseLen cs ≠ .panic ∧ (∀ a, parse parseLen cs = .done a → Struct a ∧ 0 < a.size) :=
  C02_parse_wf parseLen cs

/-- text with no terminating semicolon is rejected -/
theorem reject_unterminated (cs : List Char) (h : ';' ∉ cs) (a : Array (PNode L)) :
    parse parseLen cs ≠ .done a :=
  NW.reject_unterminated parseLen cs h a

/-- every label stored by the parser on quote-free text lies in the domain of the round-trip theorem -/
theorem labels_ok (cs : List Char) (hq : ∀ c ∈ cs, c ≠ '"') (a : Array (PNode L))
    (h : parse parseLen cs = .done a) : ∀ i, nameWF (nd a i).name ∧ commentWF (nd a i).comment :=
  C02_labels_ok parseLen cs hq a h

/-- normal form: for quote-free text, a returned arena represents a tree `t`; its written form parses back
    to an arena representing the same `t`, which is written identically again. -/
theorem normal_form {showLen : L → Label} (hc : Codec parseLen showLen) (cs : List Char)
    (hq : ∀ c ∈ cs, c ≠ '"') (a : Array (PNode L)) (h : parse parseLen cs = .done a) :
    ∃ t txt a', RepN a 0 t ∧ toNewickF showLen (a.size + 1) .allFields a 0 = some txt ∧
      parse parseLen (txt ++ [';']) = .done a' ∧ RepN a' 0 t ∧
      toNewickF showLen (a'.size + 1) .allFields a' 0 = some txt := by
  obtain ⟨hs, hpos⟩ := (C02_parse_wf parseLen cs).2 a h
  have hlab := C02_labels_ok parseLen cs hq a h
  obtain ⟨t, hrep, hht, hwf⟩ := struct_rep a hs hlab a.size 0 (by omega) hpos
  obtain ⟨txt, a', h1, h2, h3, h4⟩ := C01.roundtrip_arena hc a 0 t hrep hwf (a.size + 1) (by omega)
  exact ⟨t, txt, a', hrep, h1, h2, h3, h4⟩

/-- non-vacuity of `normal_form`'s hypotheses: a concrete text is accepted -/
example : (match parse (fun (l : Label) => some l) ['(', 'A', ':', '1', ',', '(', 'B', ',', 'C', ')', 'D', '[', 'x', ']', ')', 'R', ';'] with
    | .done a => a.size == 5 | _ => false) = true := by decide

/-- **unbalanced parentheses are rejected** (text without `"` and `[`, where every parenthesis is
    structural): whatever is accepted has the form `mid ++ ';' :: post` with no `;` in `mid`, exactly as many
    `(` as `)` in `mid`, and no prefix of `mid` closing more parentheses than it opened.  So text whose part
    before the first `;` is unbalanced — or that has no `;` — is never accepted. -/
theorem reject_unbalanced (cs : List Char) (hq : '"' ∉ cs) (hb : '[' ∉ cs) (a : Array (PNode L))
    (h : parse parseLen cs = .done a) :
    ∃ mid post, cs = mid ++ ';' :: post ∧ ';' ∉ mid ∧ mid.count '(' = mid.count ')' ∧
      ∀ p, p <+: mid → p.count ')' ≤ p.count '(' :=
  accepted_is_balanced parseLen cs hq hb a h

/-- non-vacuity of the rejection: `((A,B);` and `(A,B));` are rejected, `((A,B));` is accepted -/
example :
    (match parse (fun (l : Label) => some l) "((A,B);".toList with | .done _ => true | _ => false) = false ∧
    (match parse (fun (l : Label) => some l) "(A,B));".toList with | .done _ => true | _ => false) = false ∧
    (match parse (fun (l : Label) => some l) "((A,B));".toList with | .done _ => true | _ => false) = true := by
  decide

end C02
