import PhyloModel.Dist.RecWalkCorrect
import PhyloModel.Dist.RecWalkCorrectDistance
import PhyloModel.Dist.FoldExamples
/-! # C08 (continued) — `Tree::distance_matrix_recursive` as it is written

`DMF.dmRecWalk` is the TRANSCRIPTION of `distance_matrix_recursive` / `distance_matrix_recursive_impl`
(`Dist/RecWalk.lean`, what the driver runs against the crate): from every tip a walk over the undirected tree
(children in child order, then the parent, never back to where it came from) that hands the accumulated length down
and writes it into the tip's cache row at every other tip it reaches; a branch without a length on the way refuses
the whole call; the cells of the triangular matrix over the sorted taxa are then read from the cache rows.
`DMF.dmRecursive` is the specification-level model used so far ("the matrix of path lengths `DM.pathLen` of the
abstracted tree, refused when a branch of the tree lacks a length").

The theorems: the two agree on every well-formed arena holding at most one tree (`dm_recursive_walk_eq_model`); stated
without the older model, the transcription returns the sorted tip names and, in every cell, the path length between
the two tips (`dm_recursive_walk_correct`), it answers `MissingBranchLengths` as soon as one node other than the root
lacks a length (`dm_recursive_walk_missing`), and it never goes wrong: fuel is never exhausted, no removed slot is met,
no cell reads a cache entry that was never written -- the `INFINITY` the real code initialises the cache with never
reaches the matrix (`dm_recursive_walk_total`).  The walk itself is characterised by `walk_from_tip`.

`dm_recursive_walk_cells_are_distances` says the same with the model `AR.distance` of `Tree::get_distance` in place of
`DM.pathLen`: every cell is the sum of branch lengths `get_distance` returns for the two tips (`Dist/RecWalkCorrectDistance`).

Proofs: `Dist/RecWalkCorrectRose` (the walk by structural recursion on the represented tree, and what it records),
`Dist/RecWalkCorrectArena` (the fuel-based arena walk computes the structural walk; fuel adequacy),
`Dist/RecWalkCorrect` (the refusals, the taxon order, the cells). -/
namespace C08
open AR DMF DMW

/-- The transcription of `distance_matrix_recursive` and the specification-level model `dmRecursive` return the same
    answer -- the same refusal, or the same taxa and the same cells -- on every arena that satisfies the invariant and
    holds at most one tree (at most one live slot without a parent). -/
theorem dm_recursive_walk_eq_model (a : Arena) (g : Good a) (h1 : AtMostOneRoot a) : dmRecWalk a = dmRecursive a :=
  dmRecWalk_eq_dmRecursive a g h1

/-- The same from the structural invariant alone (the tombstone discipline `Tomb` of `Good` is not needed). -/
theorem dm_recursive_walk_eq_model_inv (a : Arena) (hinv : Inv a) (h1 : AtMostOneRoot a) :
    dmRecWalk a = dmRecursive a :=
  dmRecWalk_eq_dmRecursive_inv a hinv h1

/-- What the transcription returns, without reference to the older model.  The arena satisfies the invariant, holds
    at most one tree and has at least one slot; every tip is named, no two tips share a name, and every node other than
    the root carries a branch length.  Then the call succeeds; the taxa are the tip names in sorted order
    (`leafOrder a`: the live tips stably sorted by name), the matrix has `n(n-1)/2` cells, and the cell of the taxa
    `j < i` is the path length `DM.pathLen` between the two tips in the tree `absRoot a` the arena represents. -/
theorem dm_recursive_walk_correct (a : Arena) (g : Good a) (h1 : AtMostOneRoot a) (hne : a.size ≠ 0)
    (hnamed : ∀ l ∈ leaves a, (nd a l).name.isSome)
    (hdist : ∀ x ∈ leaves a, ∀ y ∈ leaves a, (nd a x).name = (nd a y).name → x = y)
    (hlen : ∀ i, live a i → (nd a i).parent.isSome → (nd a i).pedge.isSome) :
    ∃ cells, dmRecWalk a = .ok ((leafOrder a).map (fun l => ((nd a l).name).getD ""), cells) ∧
      cells.length = Tri.T (leafOrder a).length ∧
      ∀ t, absRoot a = .ok t → ∀ (i j : Nat) (_ : j < i) (hi : i < (leafOrder a).length),
        DM.pathLen (absDM 0 t) (leafOrder a)[i] (leafOrder a)[j]
          = some (((cells.getD (MX.cell i j) 0 : Int)) : Rat) :=
  dmRecWalk_correct a g.1 h1 hne hnamed hdist hlen

/-- The same with `Tree::get_distance` as the yardstick: under the hypotheses of `dm_recursive_walk_correct` the cell
    of the taxa `j < i` is the sum of branch lengths that `AR.distance` (the executable model of `get_distance`: the two
    root paths, their common prefix dropped) returns for the two tips. -/
theorem dm_recursive_walk_cells_are_distances (a : Arena) (g : Good a) (h1 : AtMostOneRoot a) (hne : a.size ≠ 0)
    (hnamed : ∀ l ∈ leaves a, (nd a l).name.isSome)
    (hdist : ∀ x ∈ leaves a, ∀ y ∈ leaves a, (nd a x).name = (nd a y).name → x = y)
    (hlen : ∀ i, live a i → (nd a i).parent.isSome → (nd a i).pedge.isSome) :
    ∃ cells, dmRecWalk a = .ok ((leafOrder a).map (fun l => ((nd a l).name).getD ""), cells) ∧
      cells.length = Tri.T (leafOrder a).length ∧
      ∀ (i j : Nat) (_ : j < i) (hi : i < (leafOrder a).length),
        ∃ edges, distance a (leafOrder a)[i] (leafOrder a)[j] = .ok (some (cells.getD (MX.cell i j) 0), edges) :=
  dmRecWalk_distances a g.1 h1 hne hnamed hdist hlen

/-- The path length of the represented tree between two different tips is what `get_distance` returns (all branches
    of the tree carrying a length). -/
theorem path_length_is_get_distance (a : Arena) (g : Good a) {r : Nat} {t : RTI} (hgr : getRoot a = some r)
    (ht : Rep a r t) (hl : allLensW a t = true) (x y : Nat) (hxy : x ≠ y) (hx : x ∈ leafR t) (hy : y ∈ leafR t) :
    ∃ v edges, pathW (wOf a 0) t x y = some v ∧ distance a x y = .ok (some v, edges) :=
  pathW_distance g.1 x y hxy t r [r] ht (Path.root (getRoot_spec hgr).1 (getRoot_spec hgr).2)
    ((leafR_sublist t).nodup (pre_nodup g.1.toW t r ht)) hx hy hl

/-- Refusal: with all tips named and no name used twice, a single live node that has a parent but no branch length
    makes the call answer `MissingBranchLengths` (the walk from the first tip crosses every branch of the tree). -/
theorem dm_recursive_walk_missing (a : Arena) (g : Good a) (h1 : AtMostOneRoot a)
    (hnamed : ∀ l ∈ leaves a, (nd a l).name.isSome)
    (hdist : ∀ x ∈ leaves a, ∀ y ∈ leaves a, (nd a x).name = (nd a y).name → x = y)
    (i : Nat) (hli : live a i) (hpi : (nd a i).parent.isSome) (hei : (nd a i).pedge = none) :
    dmRecWalk a = .err "MissingBranchLengths" :=
  dmRecWalk_missing a g.1 h1 hnamed hdist i hli hpi hei

/-- The transcription never goes wrong: its answer is one of the four refusals of the real function (each with its
    cause in the arena) or a matrix.  In particular the walk never exhausts its fuel, never meets a removed slot, and no
    cell reads a cache entry that was never written. -/
theorem dm_recursive_walk_total (a : Arena) (g : Good a) (h1 : AtMostOneRoot a) :
    (dmRecWalk a = .err "RootNotFound" ∧ a.size = 0) ∨
    (dmRecWalk a = .err "UnnamedLeaves" ∧ ∃ l ∈ leaves a, (nd a l).name = none) ∨
    (dmRecWalk a = .err "DuplicateLeafNames" ∧
      ∃ x ∈ leaves a, ∃ y ∈ leaves a, x ≠ y ∧ (nd a x).name = (nd a y).name) ∨
    (dmRecWalk a = .err "MissingBranchLengths" ∧
      ∃ i, live a i ∧ (nd a i).parent.isSome ∧ (nd a i).pedge = none) ∨
    (∃ names cells, dmRecWalk a = .ok (names, cells)) :=
  dmRecWalk_total a g.1 h1

/-- The walk of `distance_matrix_recursive_impl(tip, None, ..)` with the fuel the executable model supplies: for a tip
    `x` of the tree `t` below the root it is the structural climb `upW` through the whole tree (so the fuel is never
    exhausted) ... -/
theorem walk_from_tip (a : Arena) (g : Good a) {r : Nat} {t : RTI} (hgr : getRoot a = some r) (ht : Rep a r t)
    {x : Nat} (hx : x ∈ leafR t) : walkFrom a x = (upW a x t []) >>= fun p => .ok p.1 :=
  walkFrom_eq g.1 hgr ht hx

/-- ... which, when it succeeds, has recorded at every other tip `y` the path length between `x` and `y` (integer
    mirror `pathW` of `DM.pathLen`, `DMF.pathLen_toRT`) ... -/
theorem walk_records_path_lengths (a : Arena) (x : Nat) (t : RTI) (acc' : List (Nat × Int)) (d : Int)
    (hn : (leafR t).Nodup) (hx : x ∈ leafR t) (h : upW a x t [] = .ok (acc', d)) :
    ∀ y, y ∈ leafR t → y ≠ x → ∃ v, kvGet acc' y = some v ∧ pathW (wOf a 0) t x y = some v :=
  (upW_sem a x t [] acc' d hn hx h).2

/-- ... and which is refused exactly when a branch inside the tree lacks a length. -/
theorem walk_refused_iff_length_missing (a : Arena) (x : Nat) (t : RTI) (hx : x ∈ leafR t) :
    (allLensW a t = true ∧ ∃ r, upW a x t [] = .ok r) ∨
    (allLensW a t = false ∧ upW a x t [] = .err "MissingBranchLengths") :=
  upW_dich a x t [] hx

/-- the integer mirror is the path length of the abstracted tree -/
theorem path_mirror (w : Nat → Int) (t : RTI) (x y : Nat) :
    DM.pathLen (toRT w t) x y = (pathW w t x y).map (fun z => ((z : Int) : Rat)) :=
  pathLen_toRT w t x y

/-! ## non-vacuity: `((A:1,B:2):3,(D:4,C:5):6)` built with the model's constructors -/

def w0 : Arena := (add #[] none).1
def w1 : Arena := (addChildNamed w0 0 (some 3) none).1
def w2 : Arena := (addChildNamed w1 0 (some 6) none).1
def w3 : Arena := (addChildNamed w2 1 (some 1) (some "A")).1
def w4 : Arena := (addChildNamed w3 1 (some 2) (some "B")).1
def w5 : Arena := (addChildNamed w4 2 (some 4) (some "D")).1
def w6 : Arena := (addChildNamed w5 2 (some 5) (some "C")).1
/-- the same tree with the length of the branch above `D` missing -/
def w6m : Arena := (addChildNamed (addChildNamed w4 2 none (some "D")).1 2 (some 5) (some "C")).1

theorem w6_good : Good w6 :=
  addChildNamed_good _ _ _ (addChildNamed_good _ _ _ (addChildNamed_good _ _ _ (addChildNamed_good _ _ _
    (addChildNamed_good _ _ _ (addChildNamed_good _ _ _ (add_good none empty_good))))))

theorem w6_oneRoot : AtMostOneRoot w6 := by
  have h0 : AtMostOneRoot w0 := add_oneRoot none (fun i h => absurd h.1.1 (by simp))
  have r1 : RootsSub w0 w1 := addChildNamed_roots _ _ _
  have r2 : RootsSub w1 w2 := addChildNamed_roots _ _ _
  have r3 : RootsSub w2 w3 := addChildNamed_roots _ _ _
  have r4 : RootsSub w3 w4 := addChildNamed_roots _ _ _
  have r5 : RootsSub w4 w5 := addChildNamed_roots _ _ _
  have r6 : RootsSub w5 w6 := addChildNamed_roots _ _ _
  exact (((((r1.trans r2).trans r3).trans r4).trans r5).trans r6).atMostOne h0

theorem leaves_w6 : leaves w6 = [3, 4, 5, 6] := by decide

theorem leafOrder_w6 : leafOrder w6 = [3, 4, 6, 5] := by
  rw [leafOrder, leaves_w6]
  have n3 : (nd w6 3).name = some "A" := by decide
  have n4 : (nd w6 4).name = some "B" := by decide
  have n5 : (nd w6 5).name = some "D" := by decide
  have n6 : (nd w6 6).name = some "C" := by decide
  have h : ([3, 4, 6, 5] : List Nat).Pairwise (fun x y => nameLe (nd w6 x).name (nd w6 y).name = true) := by
    simp [n3, n4, n5, n6, nameLe]
  have hp : ([3, 4, 5, 6] : List Nat).Perm [3, 4, 6, 5] := by decide
  have htr : ∀ x y z : Nat, slotLe w6 x y = true → slotLe w6 y z = true → slotLe w6 x z = true :=
    fun x y z => nameLe_trans _ _ _
  have hto : ∀ x y : Nat, (slotLe w6 x y || slotLe w6 y x) = true := fun x y => nameLe_total _ _
  have e : ([3, 4, 6, 5] : List Nat).mergeSort (slotLe w6) = [3, 4, 6, 5] := List.mergeSort_of_pairwise h
  rw [← e]
  apply List.Perm.eq_of_pairwise (le := fun x y => slotLe w6 x y = true)
  · intro x y hx hy hxy hyx
    have hx' : x ∈ [3, 4, 5, 6] := (List.mergeSort_perm _ _).mem_iff.1 hx
    have hy' : y ∈ [3, 4, 5, 6] := hp.mem_iff.2 ((List.mergeSort_perm _ _).mem_iff.1 hy)
    simp only [List.mem_cons, List.not_mem_nil, or_false] at hx' hy'
    rcases hx' with rfl | rfl | rfl | rfl <;> rcases hy' with rfl | rfl | rfl | rfl <;>
      simp_all [slotLe, nameLe]
  · exact List.pairwise_mergeSort htr hto _
  · exact List.pairwise_mergeSort htr hto _
  · exact ((List.mergeSort_perm _ _).trans hp).trans (List.mergeSort_perm _ _).symm

/-- the transcription on a four-taxon tree with lengths: taxa `A B C D`, cells `(B,A) (C,A) (C,B) (D,A) (D,B) (D,C)` -/
theorem dmRecWalk_w6 : dmRecWalk w6 = .ok (["A", "B", "C", "D"], [3, 15, 16, 14, 15, 9]) := by
  rw [dmRecWalk_eq, walkPart, leafOrder_w6]
  rfl

/-- a missing length (the branch above `D`) refuses the call -/
theorem dmRecWalk_w6m : dmRecWalk w6m = .err "MissingBranchLengths" := by
  rw [dmRecWalk_eq, walkPart]
  rfl

/-- the hypotheses of `dm_recursive_walk_correct` hold for this arena -/
example : ∃ a, Good a ∧ AtMostOneRoot a ∧ a.size ≠ 0 ∧ (∀ l ∈ leaves a, (nd a l).name.isSome) ∧
    (∀ x ∈ leaves a, ∀ y ∈ leaves a, (nd a x).name = (nd a y).name → x = y) ∧
    (∀ i, live a i → (nd a i).parent.isSome → (nd a i).pedge.isSome) ∧
    dmRecWalk a = .ok (["A", "B", "C", "D"], [3, 15, 16, 14, 15, 9]) := by
  refine ⟨w6, w6_good, w6_oneRoot, by decide, ?_, ?_, ?_, dmRecWalk_w6⟩
  · rw [leaves_w6]; decide
  · rw [leaves_w6]; decide
  · intro i hl
    have hi : i < 7 := hl.1
    have : ∀ i < 7, (nd w6 i).parent.isSome → (nd w6 i).pedge.isSome := by decide
    exact this i hi

/-- the main theorem instantiated: the older model returns the same matrix -/
example : dmRecursive w6 = .ok (["A", "B", "C", "D"], [3, 15, 16, 14, 15, 9]) := by
  rw [← dm_recursive_walk_eq_model w6 w6_good w6_oneRoot]; exact dmRecWalk_w6

/-- the correctness theorem instantiated: the path length between `C` (slot 6) and `B` (slot 4) in the abstracted
    tree is the cell `(2, 1)`, `16 = 5 + 6 + 3 + 2` -/
example : ∃ t, absRoot w6 = .ok t ∧ DM.pathLen (absDM 0 t) 6 4 = some 16 := by
  obtain ⟨t, ht⟩ := absRoot_total w6_good w6_oneRoot 0 ⟨by decide, by decide⟩
  obtain ⟨cells, h1, _, h3⟩ := dm_recursive_walk_correct w6 w6_good w6_oneRoot (by decide)
    (by rw [leaves_w6]; decide) (by rw [leaves_w6]; decide)
    (by intro i hl
        have : ∀ i < 7, (nd w6 i).parent.isSome → (nd w6 i).pedge.isSome := by decide
        exact this i hl.1)
  rw [dmRecWalk_w6] at h1
  simp only [QR.ok.injEq, Prod.mk.injEq] at h1
  refine ⟨t, ht, ?_⟩
  have := h3 t ht 2 1 (by omega) (by rw [leafOrder_w6]; decide)
  simp only [leafOrder_w6] at this
  rw [← h1.2] at this
  simpa [MX.cell, Tri.idx] using this

/-- `get_distance` between `C` (slot 6) and `B` (slot 4) is the cell `(2, 1)` of the matrix -/
example : ∃ edges, distance w6 6 4 = .ok (some 16, edges) := by
  obtain ⟨cells, h1, _, h3⟩ := dm_recursive_walk_cells_are_distances w6 w6_good w6_oneRoot (by decide)
    (by rw [leaves_w6]; decide) (by rw [leaves_w6]; decide)
    (by intro i hl
        have : ∀ i < 7, (nd w6 i).parent.isSome → (nd w6 i).pedge.isSome := by decide
        exact this i hl.1)
  rw [dmRecWalk_w6] at h1
  simp only [QR.ok.injEq, Prod.mk.injEq] at h1
  have := h3 2 1 (by omega) (by rw [leafOrder_w6]; decide)
  simp only [leafOrder_w6] at this
  rw [← h1.2] at this
  simpa [MX.cell, Tri.idx] using this

end C08
