import PhyloModel.Arena.PruneBTop
import PhyloModel.Arena.Group3
import PhyloModel.Dist.CompressPathLen
import PhyloModel.Arena.Ops
import PhyloModel.Arena.ResolvePost
import PhyloModel.Arena.DistRescale
import PhyloModel.Arena.DistLadder
import PhyloModel.Arena.DistCompress
import PhyloModel.Arena.DistResolve
import PhyloModel.Arena.LadderKey
import PhyloModel.Arena.DistPrune
/-! # C11 — editing operations have exactly their documented effect

Arena level (`AR`), all on the EXECUTABLE operations the driver runs against the crate: exact frames of `prune`
and of the regrouping step of `merge_children` / `resolve`; loop postconditions of `compress` (no one-child
non-root node left) and `resolve` (no node with more than two children, for every outcome of its random choices);
`ladderize` changes nothing but the order inside child lists, its sort key IS the number of proper descendants and
every child list of the result is the stable sort of the old one by that key; and — second half of this file — every
leaf-to-leaf path length (the answer of `get_distance`) is unchanged by `compress` (whatever its outcome),
`resolve`, `ladderize` and `prune`, and multiplied by `k` by `rescale k`.  Rose level (`DM`): splicing out unary
nodes keeps every path length (kept as an independent statement of the same fact).
The executable operations are compared slot by slot with the crate after every call, and the documented effect is
checked on the real result by rose-level expectations computed independently in the harness. -/
namespace C11
open AR

/-- `prune` removes exactly the chosen subtree: a slot dies iff it lies below the pruned node; every other live
    slot stays live and is unchanged (name, length, comment, child order), except that the parent loses the
    pruned node from its child list and child-edge record -/
theorem prune_exact (f D : Nat) (a : Arena) (c : Nat) (hinv : Inv a) (ht : Tomb a) (hl : live a c)
    (hD : ∀ i, live a i → (nd a i).depth ≤ D) (hf : D < f + (nd a c).depth) :
    ∃ a1, pruneF f a c = some a1 ∧ Inv a1 ∧ a1.size = a.size ∧
      (∀ v k, BelowK a c v k → ¬ live a1 v) ∧
      (∀ i, live a i → (∀ k, ¬ BelowK a c i k) → live a1 i) ∧
      (∀ i, live a1 i → (nd a c).parent ≠ some i → nd a1 i = nd a i) ∧
      (∀ p, (nd a c).parent = some p → nd a1 p = removeChild (nd a p) c) := by
  obtain ⟨a1, h1, ok⟩ := prune_main2 f D a c hinv ht hl hD hf
  exact ⟨a1, h1, ok.inv, ok.size, ok.gone, ok.kept, ok.same, ok.par⟩

/-- `merge_children` on two distinct siblings regroups exactly them under one new node: the new node is the
    fresh slot with children `[c1, c2]`, the parent's list is the old list without them followed by the new
    node, the two merged nodes only change their parent link and branch length, every other slot is untouched -/
theorem merge_exact (a : Arena) (q c1 c2 : Nat) (pe e1 e2 : Option Int) (hq : q < a.size) (h1 : c1 < a.size)
    (h2 : c2 < a.size) (hq1 : q ≠ c1) (hq2 : q ≠ c2) (h12 : c1 ≠ c2) :
    let g := group a q c1 c2 pe e1 e2
    (nd g a.size).children = [c1, c2] ∧ (nd g a.size).parent = some q ∧ (nd g a.size).pedge = pe ∧
    (nd g q).children = (((nd a q).children.erase c1).erase c2) ++ [a.size] ∧
    nd g c1 = { nd a c1 with parent := some a.size, pedge := e1 } ∧
    nd g c2 = { nd a c2 with parent := some a.size, pedge := e2 } ∧
    (∀ i, i ≠ a.size → i ≠ q → i ≠ c1 → i ≠ c2 → nd g i = nd a i) := by
  intro g
  have h := nd_group a q c1 c2 pe e1 e2 hq h1 h2 hq1 hq2 h12
  have hqs : q ≠ a.size := by omega
  have h1s : c1 ≠ a.size := by omega
  have h2s : c2 ≠ a.size := by omega
  refine ⟨?_, ?_, ?_, ?_, ?_, ?_, ?_⟩
  · rw [h]; simp [wNode]
  · rw [h]; simp [wNode]
  · rw [h]; simp [wNode]
  · rw [h]; simp [hqs, qNode, removeChild]
  · rw [h]; simp [h1s, Ne.symm hq1]
  · rw [h]; simp [h2s, Ne.symm hq2, Ne.symm h12]
  · intro i i1 i2 i3 i4; rw [h]; simp [i1, i2, i3, i4]

/-- ... and, followed by the depth repair, it leaves a well-formed arena (also one round of `resolve`) -/
theorem regroup_preserves_invariant (a : Arena) (q c1 c2 : Nat) (pe e1 e2 : Option Int) (hinv : Inv a)
    (hlq : live a q) (hm1 : c1 ∈ (nd a q).children) (hm2 : c2 ∈ (nd a q).children) (h12 : c1 ≠ c2) (D : Nat)
    (hD : ∀ i, live a i → (nd a i).depth ≤ D) :
    ∃ b1 b2, resetF (2 * D + 3) (group a q c1 c2 pe e1 e2) c1 ((nd a q).depth + 2) = some b1 ∧
      resetF (2 * D + 3) b1 c2 ((nd a q).depth + 2) = some b2 ∧ Inv b2 :=
  group_inv a q c1 c2 pe e1 e2 hinv hlq hm1 hm2 h12 D hD

/-- merging non-siblings (or a node with itself, or a removed node) is refused and nothing changes -/
theorem merge_refused (a : Arena) (c1 c2 : Nat) (e1 e2 pe : Option Int) (n : Option String)
    (h : ¬ live a c1 ∨ ¬ live a c2 ∨ c1 = c2 ∨ (nd a c1).parent ≠ (nd a c2).parent) :
    ∃ k, mergeChildren a c1 c2 e1 e2 pe n = (a, .err k) := by
  unfold mergeChildren
  by_cases l1 : isLive a c1 = true
  · by_cases l2 : isLive a c2 = true
    · have hh : c1 = c2 ∨ (nd a c1).parent ≠ (nd a c2).parent := by
        rcases h with h | h | h | h
        · exact absurd ((isLive_iff a c1).mp l1) h
        · exact absurd ((isLive_iff a c2).mp l2) h
        · exact Or.inl h
        · exact Or.inr h
      exact ⟨"MergingNonSiblingNodes", by simp [l1, l2, hh]⟩
    · exact ⟨"NodeNotFound", by simp [l1, l2]⟩
  · exact ⟨"NodeNotFound", by simp [l1]⟩

/-- `compress` (splice every non-root unary node, lengths added) keeps every leaf-to-leaf path length -/
theorem compress_keeps_path_lengths (t : DM.RT) (x y : Nat) :
    DM.pathLen (DM.comp t) x y = DM.pathLen t x y :=
  DM.pathLen_comp t x y

/-- `rescale` multiplies both records of every branch length -/
theorem rescale_every_length (a : Arena) (k : Int) (i : Nat) :
    (nd (rescale a k) i).pedge = (nd a i).pedge.map (· * k) ∧
    (nd (rescale a k) i).cedges = (nd a i).cedges.map (fun ce => (ce.1, ce.2 * k)) ∧
    (nd (rescale a k) i).children = (nd a i).children ∧ (nd (rescale a k) i).parent = (nd a i).parent ∧
    (nd (rescale a k) i).name = (nd a i).name := by
  unfold rescale nd
  by_cases h : i < a.size
  · simp [Array.getD_eq_getD_getElem?, h, scaleNode]
  · simp [Array.getD_eq_getD_getElem?, h, dead]

/-- `ladderize` sorts a child list stably by descendant count: the result is a permutation of the list,
    ordered by the count -/
theorem ladderize_sorts (kids : List Nat) (cnt : Nat → Nat) :
    (kids.mergeSort (fun x y => decide (cnt x ≤ cnt y))).Perm kids ∧
    (kids.mergeSort (fun x y => decide (cnt x ≤ cnt y))).Pairwise (fun x y => cnt x ≤ cnt y) := by
  refine ⟨List.mergeSort_perm _ _, ?_⟩
  have := List.pairwise_mergeSort (le := fun x y => decide (cnt x ≤ cnt y))
    (by intro a b c h1 h2; simp at *; omega) (by intro a b; simp; omega) kids
  simpa using this

/-- **postcondition of `compress`** on every arena satisfying the invariant: when it succeeds, no live
    non-root node with exactly one child is left, and the set of tips is unchanged -/
theorem compress_postcondition (a a' : Arena) (o : Option Nat) (g : Good a) (h : compress a = (a', .ok o)) :
    (∀ i, ¬ Unary a' i) ∧ (∀ i, IsTip a' i ↔ IsTip a i) :=
  compress_post g h

/-- **postcondition of `resolve`** for every outcome of its random choices: no node with more than two
    children is left, and the set of tips is unchanged -/
theorem resolve_postcondition (a a' : Arena) (picks : List (Nat × Nat)) (g : Good a)
    (h : resolve a picks = some a') :
    (∀ i, (nd a' i).children.length ≤ 2) ∧ (∀ i, IsTip a' i ↔ IsTip a i) :=
  resolve_post picks g h

/-- **frame of `ladderize`**: nothing changes except the order inside child lists (every node keeps its
    parent, lengths, depth, name, comment; its child list is a permutation of what it was); tips unchanged -/
theorem ladderize_only_reorders (a : Arena) :
    PermKids a (ladderize a).1 ∧ ∀ i, IsTip (ladderize a).1 i ↔ IsTip a i :=
  ⟨ladderize_frame a, (ladderize_frame a).tip⟩

/-- every one of these operations keeps the arena invariant and terminates (C03's operation theorem) -/
theorem edits_keep_invariant (a : Arena) (op : Op) (g : Good a) :
    Good (applyOp a op).1 ∧ (applyOp a op).2 ≠ .diverge :=
  applyOp_good op g


/-! ## C11 (continued) — the editing operations keep every leaf-to-leaf path length, on the executable model

`AR.distance a x y` mirrors `Tree::get_distance`: `.ok (d, n)` where `d` is the sum of the branch lengths on
the connecting path (`none` as soon as one of them is missing) and `n` its number of edges.  `Good a` is
the arena invariant every edit history preserves (`C11.edits_keep_invariant`).  `IsTip a i`: live slot
without children.  `Unary a i`: live non-root slot with exactly one child (what `compress` removes). -/

open AR

/-- **rescale**: for all node ids the answer of `get_distance` after `rescale k` is the answer before with
    the length multiplied by `k`; edge count and errors are unchanged; the tips are the same -/
theorem rescale_multiplies_distances (a : Arena) (k : Int) (x y : Nat) :
    distance (rescale a k) x y = (do let d ← distance a x y; pure (d.1.map (· * k), d.2)) ∧
    (IsTip (rescale a k) x ↔ IsTip a x) :=
  ⟨rescale_distance a k x y, rescale_tips a k x⟩

/-- **ladderize**: every answer of `get_distance` (and of `get_path_from_root`) is unchanged, for all node
    ids and whatever the outcome; the tips are the same -/
theorem ladderize_keeps_distances (a : Arena) (x y : Nat) :
    distance (ladderize a).1 x y = distance a x y ∧ pathFromRoot (ladderize a).1 x = pathFromRoot a x ∧
    (IsTip (ladderize a).1 x ↔ IsTip a x) :=
  ⟨ladderize_distance a x y, ladderize_pathFromRoot a x, (ladderize_frame a).tip x⟩

/-- **compress_node v**: any two distinct live nodes other than `v` keep the length of their connecting
    path; the number of edges does not grow -/
theorem compressNode_keeps_lengths {a a' : Arena} {v : Nat} {o : Option Nat} (g : Good a)
    (h : compressNode a v = (a', .ok o)) (x y : Nat) (hlx : live a x) (hly : live a y) (hxv : x ≠ v)
    (hyv : y ≠ v) (hxy : x ≠ y) :
    ∃ d n n', distance a x y = .ok (d, n) ∧ distance a' x y = .ok (d, n') ∧ n' ≤ n := by
  obtain ⟨n, n', ⟨d, e1, e2⟩, hle⟩ := compressNode_sameLen g h hlx hly hxv hyv hxy
  exact ⟨d, n, n', e1, e2, hle⟩

/-- **compress**: any two distinct live nodes that are not themselves one-child non-root nodes keep the
    length of their connecting path; the number of edges does not grow -/
theorem compress_keeps_lengths {a a' : Arena} {o : Option Nat} (g : Good a) (h : compress a = (a', .ok o))
    (x y : Nat) (hlx : live a x) (hly : live a y) (hx : ¬ Unary a x) (hy : ¬ Unary a y) (hxy : x ≠ y) :
    ∃ d n n', distance a x y = .ok (d, n) ∧ distance a' x y = .ok (d, n') ∧ n' ≤ n := by
  obtain ⟨n, n', ⟨d, e1, e2⟩, hle⟩ := compress_sameLen g h hlx hly hx hy hxy
  exact ⟨d, n, n', e1, e2, hle⟩

/-- **compress, leaf to leaf**: same set of tips, same path length between any two of them, and no
    one-child non-root node is left -/
theorem compress_keeps_leaf_distances {a a' : Arena} {o : Option Nat} (g : Good a)
    (h : compress a = (a', .ok o)) :
    (∀ i, ¬ Unary a' i) ∧ (∀ i, IsTip a' i ↔ IsTip a i) ∧
    ∀ x y, IsTip a x → IsTip a y → x ≠ y →
      ∃ d n n', distance a x y = .ok (d, n) ∧ distance a' x y = .ok (d, n') ∧ n' ≤ n :=
  ⟨(compress_post g h).1, (compress_tip_distances g h).1, (compress_tip_distances g h).2⟩

/-- **resolve**, for every outcome `picks` of its random choices: any two distinct live nodes keep the
    length of their connecting path; the number of edges does not drop -/
theorem resolve_keeps_lengths {a a' : Arena} (picks : List (Nat × Nat)) (g : Good a)
    (h : resolve a picks = some a') (x y : Nat) (hlx : live a x) (hly : live a y) (hxy : x ≠ y) :
    ∃ d n n', distance a x y = .ok (d, n) ∧ distance a' x y = .ok (d, n') ∧ n ≤ n' := by
  obtain ⟨n, n', ⟨d, e1, e2⟩, hle⟩ := resolve_sameLen picks g h hlx hly hxy
  exact ⟨d, n, n', e1, e2, hle⟩

/-- **resolve, leaf to leaf**: same set of tips, same path length between any two of them, and no node
    with more than two children is left -/
theorem resolve_keeps_leaf_distances {a a' : Arena} (picks : List (Nat × Nat)) (g : Good a)
    (h : resolve a picks = some a') :
    (∀ i, (nd a' i).children.length ≤ 2) ∧ (∀ i, IsTip a' i ↔ IsTip a i) ∧
    ∀ x y, IsTip a x → IsTip a y → x ≠ y →
      ∃ d n n', distance a x y = .ok (d, n) ∧ distance a' x y = .ok (d, n') ∧ n ≤ n' :=
  ⟨(resolve_post picks g h).1, (resolve_tip_distances picks g h).1, (resolve_tip_distances picks g h).2⟩

/-- the sort key of `ladderize`: `descCount a v` is the number of proper descendants of `v` -/
theorem descCount_counts_descendants {a : Arena} (g : Good a) {v : Nat} (hl : live a v) :
    ∃ l : List Nat, l.Nodup ∧ (∀ u, u ∈ l ↔ ∃ k, BelowK a v u (k + 1)) ∧ descCount a v = l.length :=
  descCount_spec g.1 hl

/-- **postcondition of ladderize**: with a root present the call succeeds, and every node of the root's tree
    has its children ordered by their number of proper descendants (in the result), the new list being
    exactly the stable sort of the old one by that key; nothing else in the slot changes; slots outside the
    root's tree are untouched -/
theorem ladderize_orders_children {a : Arena} (g : Good a) {r : Nat} (hr : getRoot a = some r) :
    (ladderize a).2 = .ok none ∧
    (∀ v, (∃ k, BelowK a r v k) →
      (nd (ladderize a).1 v).children.Pairwise
        (fun c d => descCount (ladderize a).1 c ≤ descCount (ladderize a).1 d) ∧
      (nd (ladderize a).1 v).children = (nd a v).children.mergeSort
        (fun c d => decide (descCount (ladderize a).1 c ≤ descCount (ladderize a).1 d)) ∧
      (nd (ladderize a).1 v).children.Perm (nd a v).children ∧
      nd (ladderize a).1 v = { nd a v with children := (nd (ladderize a).1 v).children }) ∧
    (∀ v, (¬ ∃ k, BelowK a r v k) → nd (ladderize a).1 v = nd a v) ∧
    (∀ c, descCount (ladderize a).1 c = descCount a c) := by
  obtain ⟨s1, s2, s3⟩ := ladderize_slots g hr
  refine ⟨s1, ?_, s3, (ladderize_frame a).descCount g (ladderize_good g)⟩
  intro v hv
  obtain ⟨p1, p2, p3⟩ := ladderize_post g hr v hv
  refine ⟨p1, p2, p3, ?_⟩
  have := s2 v hv
  rw [this]

/-- ... for every live node when there is at most one parentless live node (every tree the crate builds) -/
theorem ladderize_orders_all_children {a : Arena} (g : Good a) (h1 : AtMostOneRoot a) (v : Nat)
    (hl : live a v) :
    (nd (ladderize a).1 v).children.Pairwise
        (fun c d => descCount (ladderize a).1 c ≤ descCount (ladderize a).1 d) ∧
    (nd (ladderize a).1 v).children = (nd a v).children.mergeSort
        (fun c d => decide (descCount (ladderize a).1 c ≤ descCount (ladderize a).1 d)) ∧
    (nd (ladderize a).1 v).children.Perm (nd a v).children :=
  ladderize_post_all g h1 v hl

/-- **compress, leaf to leaf, whatever the outcome** (`compress` may stop half-way with
    `MissingBranchLengths`, leaving some nodes already spliced out): same tips, same path lengths -/
theorem compress_keeps_leaf_distances_any_outcome {a : Arena} (g : Good a) :
    (∀ i, IsTip (compress a).1 i ↔ IsTip a i) ∧
    ∀ x y, IsTip a x → IsTip a y → x ≠ y →
      ∃ d n n', distance a x y = .ok (d, n) ∧ distance (compress a).1 x y = .ok (d, n') ∧ n' ≤ n :=
  compress_tip_distances_any g

/-- **prune**: every answer of `get_distance` between two surviving nodes is unchanged -/
theorem prune_keeps_distances {a : Arena} (g : Good a) (c x y : Nat) (hlx : live (prune a c).1 x)
    (hly : live (prune a c).1 y) : distance (prune a c).1 x y = distance a x y :=
  prune_distance g c x y hlx hly

/-- the four operations of the first sentence of C11, and the factor each applies to lengths -/
inductive ShapeEdit where
  | compress
  | resolve (picks : List (Nat × Nat))
  | ladderize
  | rescale (k : Int)

def ShapeEdit.op : ShapeEdit → Op
  | .compress => .compress
  | .resolve picks => .resolve picks
  | .ladderize => .ladderize
  | .rescale k => .rescale k

def ShapeEdit.factor : ShapeEdit → Int
  | .rescale k => k
  | _ => 1

theorem map_mul_one (d : Option Int) : d.map (· * (1 : Int)) = d := by cases d <;> simp

/-- **summary**: `compress`, `resolve` (for every outcome of its random choices, also an ill-formed oracle),
    `ladderize` and `rescale k`, applied to any well-formed arena and whatever they return, leave the set of
    tips unchanged and answer `get_distance` between any two distinct tips with the old length multiplied
    by the operation's factor (`k` for `rescale k`, 1 otherwise) -/
theorem shape_edits_keep_leaf_lengths {a : Arena} (g : Good a) (e : ShapeEdit) :
    (∀ i, IsTip (applyOp a e.op).1 i ↔ IsTip a i) ∧
    ∀ x y, IsTip a x → IsTip a y → x ≠ y →
      ∃ d n n', distance a x y = .ok (d, n) ∧
        distance (applyOp a e.op).1 x y = .ok (d.map (· * e.factor), n') := by
  have hdist : ∀ x y, IsTip a x → IsTip a y → x ≠ y → ∃ d n, distance a x y = .ok (d, n) := by
    intro x y hx hy hxy
    obtain ⟨P, hP⟩ := path_total g x hx.1
    obtain ⟨Q, hQ⟩ := path_total g y hy.1
    exact ⟨_, _, distance_of_paths g.1.toW hP hQ hxy⟩
  cases e with
  | compress =>
    obtain ⟨t, s⟩ := compress_tip_distances_any g
    refine ⟨t, ?_⟩
    intro x y hx hy hxy
    obtain ⟨d, n, n', e1, e2, _⟩ := s x y hx hy hxy
    exact ⟨d, n, n', e1, by simpa [ShapeEdit.op, ShapeEdit.factor, applyOp, map_mul_one] using e2⟩
  | resolve picks =>
    simp only [ShapeEdit.op, ShapeEdit.factor, applyOp, map_mul_one]
    cases hr : resolve a picks with
    | none =>
      refine ⟨fun _ => Iff.rfl, ?_⟩
      intro x y hx hy hxy
      obtain ⟨d, n, e1⟩ := hdist x y hx hy hxy
      exact ⟨d, n, n, e1, e1⟩
    | some a' =>
      obtain ⟨t, s⟩ := resolve_tip_distances picks g hr
      refine ⟨t, ?_⟩
      intro x y hx hy hxy
      obtain ⟨d, n, n', e1, e2, _⟩ := s x y hx hy hxy
      exact ⟨d, n, n', e1, e2⟩
  | ladderize =>
    simp only [ShapeEdit.op, ShapeEdit.factor, applyOp, map_mul_one]
    refine ⟨(ladderize_frame a).tip, ?_⟩
    intro x y hx hy hxy
    obtain ⟨d, n, e1⟩ := hdist x y hx hy hxy
    exact ⟨d, n, n, e1, by rw [ladderize_distance, e1]⟩
  | rescale k =>
    simp only [ShapeEdit.op, ShapeEdit.factor, applyOp]
    refine ⟨rescale_tips a k, ?_⟩
    intro x y hx hy hxy
    obtain ⟨d, n, e1⟩ := hdist x y hx hy hxy
    exact ⟨d, n, n, e1, rescale_distance_ok a k x y d n e1⟩

end C11
