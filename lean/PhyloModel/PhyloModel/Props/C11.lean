import PhyloModel.Arena.PruneBTop
import PhyloModel.Arena.Group3
import PhyloModel.Dist.CompressPathLen
import PhyloModel.Arena.Ops
import PhyloModel.Arena.ResolvePost
/-! # C11 — editing operations have exactly their documented effect

Arena level (`AR`): exact frames of `prune` and of the regrouping step of `merge_children` / `resolve`.
Rose level (`DM`): splicing out unary nodes (`compress`) keeps every leaf-to-leaf path length.
The executable operations (`AR.prune`, `compress`, `resolve picks`, `ladderize`, `rescale`, `mergeChildren`)
are compared slot by slot with the crate after every call, and the documented effect is checked on the real
result by rose-level expectations computed independently in the harness. -/
namespace C11
open AR

/-- `prune` removes exactly the chosen subtree: a slot dies iff it lies below the pruned node; every other live
    slot stays live and is unchanged (name, length, comment, child order), except that the parent loses the
    pruned node from its child list and child-edge record -/
theorem prune_exact (f D : Nat) (a : Arena) (c : Nat) (hinv : Inv a) (ht : Tomb a) (hl : live a c)
    (hD : ∀ i, live a i → (nd a i).depth ≤ D) (hf : D < f + (nd a c).depth) :
    ∃ a1, pruneF f a c = some a1 ∧ Inv a1 ∧ a1.size = a.size ∧
      (∀ v k, BelowK a c v k → ¬ live a1 v) ∧
      (∀ i, live a i → (∀ k, ¬ BelowK a c i k) → live a1 i) ∧
      (∀ i, live a1 i → (nd a c).parent ≠ some i → nd a1 i = nd a i) ∧
      (∀ p, (nd a c).parent = some p → nd a1 p = removeChild (nd a p) c) := by
  obtain ⟨a1, h1, ok⟩ := prune_main2 f D a c hinv ht hl hD hf
  exact ⟨a1, h1, ok.inv, ok.size, ok.gone, ok.kept, ok.same, ok.par⟩

/-- `merge_children` on two distinct siblings regroups exactly them under one new node: the new node is the
    fresh slot with children `[c1, c2]`, the parent's list is the old list without them followed by the new
    node, the two merged nodes only change their parent link and branch length, every other slot is untouched -/
theorem merge_exact (a : Arena) (q c1 c2 : Nat) (pe e1 e2 : Option Int) (hq : q < a.size) (h1 : c1 < a.size)
    (h2 : c2 < a.size) (hq1 : q ≠ c1) (hq2 : q ≠ c2) (h12 : c1 ≠ c2) :
    let g := group a q c1 c2 pe e1 e2
    (nd g a.size).children = [c1, c2] ∧ (nd g a.size).parent = some q ∧ (nd g a.size).pedge = pe ∧
    (nd g q).children = (((nd a q).children.erase c1).erase c2) ++ [a.size] ∧
    nd g c1 = { nd a c1 with parent := some a.size, pedge := e1 } ∧
    nd g c2 = { nd a c2 with parent := some a.size, pedge := e2 } ∧
    (∀ i, i ≠ a.size → i ≠ q → i ≠ c1 → i ≠ c2 → nd g i = nd a i) := by
  intro g
  have h := nd_group a q c1 c2 pe e1 e2 hq h1 h2 hq1 hq2 h12
  have hqs : q ≠ a.size := by omega
  have h1s : c1 ≠ a.size := by omega
  have h2s : c2 ≠ a.size := by omega
  refine ⟨?_, ?_, ?_, ?_, ?_, ?_, ?_⟩
  · rw [h]; simp [wNode]
  · rw [h]; simp [wNode]
  · rw [h]; simp [wNode]
  · rw [h]; simp [hqs, qNode, removeChild]
  · rw [h]; simp [h1s, Ne.symm hq1]
  · rw [h]; simp [h2s, Ne.symm hq2, Ne.symm h12]
  · intro i i1 i2 i3 i4; rw [h]; simp [i1, i2, i3, i4]

/-- ... and, followed by the depth repair, it leaves a well-formed arena (also one round of `resolve`) -/
theorem regroup_preserves_invariant (a : Arena) (q c1 c2 : Nat) (pe e1 e2 : Option Int) (hinv : Inv a)
    (hlq : live a q) (hm1 : c1 ∈ (nd a q).children) (hm2 : c2 ∈ (nd a q).children) (h12 : c1 ≠ c2) (D : Nat)
    (hD : ∀ i, live a i → (nd a i).depth ≤ D) :
    ∃ b1 b2, resetF (2 * D + 3) (group a q c1 c2 pe e1 e2) c1 ((nd a q).depth + 2) = some b1 ∧
      resetF (2 * D + 3) b1 c2 ((nd a q).depth + 2) = some b2 ∧ Inv b2 :=
  group_inv a q c1 c2 pe e1 e2 hinv hlq hm1 hm2 h12 D hD

/-- merging non-siblings (or a node with itself, or a removed node) is refused and nothing changes -/
theorem merge_refused (a : Arena) (c1 c2 : Nat) (e1 e2 pe : Option Int) (n : Option String)
    (h : ¬ live a c1 ∨ ¬ live a c2 ∨ c1 = c2 ∨ (nd a c1).parent ≠ (nd a c2).parent) :
    ∃ k, mergeChildren a c1 c2 e1 e2 pe n = (a, .err k) := by
  unfold mergeChildren
  by_cases l1 : isLive a c1 = true
  · by_cases l2 : isLive a c2 = true
    · have hh : c1 = c2 ∨ (nd a c1).parent ≠ (nd a c2).parent := by
        rcases h with h | h | h | h
        · exact absurd ((isLive_iff a c1).mp l1) h
        · exact absurd ((isLive_iff a c2).mp l2) h
        · exact Or.inl h
        · exact Or.inr h
      exact ⟨"MergingNonSiblingNodes", by simp [l1, l2, hh]⟩
    · exact ⟨"NodeNotFound", by simp [l1, l2]⟩
  · exact ⟨"NodeNotFound", by simp [l1]⟩

/-- `compress` (splice every non-root unary node, lengths added) keeps every leaf-to-leaf path length -/
theorem compress_keeps_path_lengths (t : DM.RT) (x y : Nat) :
    DM.pathLen (DM.comp t) x y = DM.pathLen t x y :=
  DM.pathLen_comp t x y

/-- `rescale` multiplies both records of every branch length -/
theorem rescale_every_length (a : Arena) (k : Int) (i : Nat) :
    (nd (rescale a k) i).pedge = (nd a i).pedge.map (· * k) ∧
    (nd (rescale a k) i).cedges = (nd a i).cedges.map (fun ce => (ce.1, ce.2 * k)) ∧
    (nd (rescale a k) i).children = (nd a i).children ∧ (nd (rescale a k) i).parent = (nd a i).parent ∧
    (nd (rescale a k) i).name = (nd a i).name := by
  unfold rescale nd
  by_cases h : i < a.size
  · simp [Array.getD_eq_getD_getElem?, h, scaleNode]
  · simp [Array.getD_eq_getD_getElem?, h, dead]

/-- `ladderize` sorts a child list stably by descendant count: the result is a permutation of the list,
    ordered by the count -/
theorem ladderize_sorts (kids : List Nat) (cnt : Nat → Nat) :
    (kids.mergeSort (fun x y => decide (cnt x ≤ cnt y))).Perm kids ∧
    (kids.mergeSort (fun x y => decide (cnt x ≤ cnt y))).Pairwise (fun x y => cnt x ≤ cnt y) := by
  refine ⟨List.mergeSort_perm _ _, ?_⟩
  have := List.pairwise_mergeSort (le := fun x y => decide (cnt x ≤ cnt y))
    (by intro a b c h1 h2; simp at *; omega) (by intro a b; simp; omega) kids
  simpa using this

/-- **postcondition of `compress`** on every arena satisfying the invariant: when it succeeds, no live
    non-root node with exactly one child is left, and the set of tips is unchanged -/
theorem compress_postcondition (a a' : Arena) (o : Option Nat) (g : Good a) (h : compress a = (a', .ok o)) :
    (∀ i, ¬ Unary a' i) ∧ (∀ i, IsTip a' i ↔ IsTip a i) :=
  compress_post g h

/-- **postcondition of `resolve`** for every outcome of its random choices: no node with more than two
    children is left, and the set of tips is unchanged -/
theorem resolve_postcondition (a a' : Arena) (picks : List (Nat × Nat)) (g : Good a)
    (h : resolve a picks = some a') :
    (∀ i, (nd a' i).children.length ≤ 2) ∧ (∀ i, IsTip a' i ↔ IsTip a i) :=
  resolve_post picks g h

/-- **frame of `ladderize`**: nothing changes except the order inside child lists (every node keeps its
    parent, lengths, depth, name, comment; its child list is a permutation of what it was); tips unchanged -/
theorem ladderize_only_reorders (a : Arena) :
    PermKids a (ladderize a).1 ∧ ∀ i, IsTip (ladderize a).1 i ↔ IsTip a i :=
  ⟨ladderize_frame a, (ladderize_frame a).tip⟩

/-- every one of these operations keeps the arena invariant and terminates (C03's operation theorem) -/
theorem edits_keep_invariant (a : Arena) (op : Op) (g : Good a) :
    Good (applyOp a op).1 ∧ (applyOp a op).2 ≠ .diverge :=
  applyOp_good op g

end C11
