import PhyloModel.Arena.Cache
import PhyloModel.Arena.Abs
import PhyloModel.Split.Model
import PhyloModel.Arena.QRLemmas
import PhyloModel.Arena.FreshArena
import PhyloModel.Arena.MatrixDependsOnTree
import PhyloModel.Arena.QueryRefine
/-! # C04 — query answers depend only on the tree, not on edit or query history

Two ingredients.  (1) The cache discipline of the two `RefCell` caches, on a small state-machine model
(`CacheM`): after the documented reset a query returns the value for the current tree, any number of
queries in any order return that same value and never change the tree, and an edit followed by the reset is
observed by the next query; without the reset the answer can be stale (which is why the property requires
the reset).  (2) In the arena model every query is a pure function of the arena that never reads a removed
slot: removed nodes are never listed, found, or used as root, and the bipartition / comparison machinery
only sees the rose tree below the live root.  The tie to the crate (whose queries do fill caches) is the
C04 correspondence: id-level answers against the model, name-level answers against a freshly parsed tree. -/
namespace C04
open CacheM

variable {T V : Type}

theorem reset_ok (f : T → V) (s : Cached T V) : CacheOK f (reset s) := by
  intro v h; simp [reset] at h

/-- a query answers with the value for the current tree, keeps the tree and keeps the cache consistent -/
theorem query_correct (f : T → V) (s : Cached T V) (h : CacheOK f s) :
    (query f s).1 = f s.tree ∧ (query f s).2.tree = s.tree ∧ CacheOK f (query f s).2 := by
  unfold query
  cases hc : s.cache with
  | none => refine ⟨rfl, rfl, ?_⟩; intro v hv; simp at hv; exact hv.symm
  | some v => exact ⟨h v hc, rfl, h⟩

/-- read-only queries, in any number, never change the answer of a later query -/
theorem queries_stable (f : T → V) : ∀ (n : Nat) (s : Cached T V), CacheOK f s →
    (∀ v ∈ (queries f n s).1, v = f s.tree) ∧ (queries f n s).2.tree = s.tree ∧ CacheOK f (queries f n s).2
  | 0, s, h => ⟨by simp [queries], rfl, h⟩
  | n + 1, s, h => by
    obtain ⟨h1, h2, h3⟩ := query_correct f s h
    obtain ⟨g1, g2, g3⟩ := queries_stable f n (query f s).2 h3
    simp only [queries]
    refine ⟨?_, by rw [g2, h2], g3⟩
    intro v hv
    rcases List.mem_cons.mp hv with rfl | hv
    · exact h1
    · rw [g1 v hv, h2]

/-- an edit followed by the documented reset is seen by every later query, whatever was cached before -/
theorem edit_reset_query (f : T → V) (g : T → T) (s : Cached T V) (n : Nat) :
    ∀ v ∈ (queries f n (reset (edit g s))).1, v = f (g s.tree) := by
  have := (queries_stable f n (reset (edit g s)) (reset_ok f _)).1
  simpa [reset, edit] using this

/-- without the reset a query may return the stale value: the reset in the property's statement is needed -/
theorem stale_without_reset : ∃ (s : Cached Nat Nat), CacheOK id s ∧
    (query id (edit (· + 1) (query id s).2)).1 ≠ id (edit (· + 1) (query id s).2).tree :=
  ⟨⟨0, none⟩, by intro v h; simp at h, by decide⟩

/-! ### removed slots are never observable in the arena model -/
open AR

theorem leaves_live (a : Arena) (i : Nat) (h : i ∈ leaves a) : live a i := by
  simp only [leaves, List.mem_filter, Bool.and_eq_true] at h
  exact (isLive_iff a i).mp h.2.1

theorem search_live (a : Arena) (n : Option String) (i : Nat) (h : i ∈ searchName a n) : live a i := by
  simp only [searchName, List.mem_filter, Bool.and_eq_true] at h
  exact (isLive_iff a i).mp h.2.1

theorem root_live (a : Arena) (r : Nat) (h : getRoot a = some r) : live a r ∧ (nd a r).parent = none := by
  have := List.find?_some h
  simp only [Bool.and_eq_true, Option.isNone_iff_eq_none] at this
  exact ⟨(isLive_iff a r).mp this.1, this.2⟩

theorem get_dead (a : Arena) (i : Nat) (h : ¬ live a i) : (∃ k, AR.get a i = .err k) := by
  have : isLive a i = false := by
    cases hh : isLive a i with
    | false => rfl
    | true => exact absurd ((isLive_iff a i).mp hh) h
  exact ⟨"NodeNotFound", by simp [AR.get, this]⟩

/-- the abstraction used by every rose-level query never descends into a removed slot -/
theorem abs_dead (f : Nat) (a : Arena) (x : Nat) (h : ¬ live a x) : absF f a x = none := by
  have : isLive a x = false := by
    cases hh : isLive a x with
    | false => rfl
    | true => exact absurd ((isLive_iff a x).mp hh) h
  cases f with
  | zero => rfl
  | succ f => simp [absF, this]

/-! ## C04, assembled

One statement for the whole property: the arena `a` reached by any admissible edit history answers every
id-free read-only query — shape statistics, leaf names, name searches, traversals, bipartitions and tree
comparison, node-to-node distances and common ancestors (nodes addressed by pre-order position), both
distance matrices — exactly like the arena `freshArena' (erase ta)` built afresh (root by `add`, all other
nodes by `add_child` in pre-order, the way the Newick parser builds it) from the current tree of `a`. -/
open AR SPM DMF


theorem C04_history_vs_fresh (ops : List Op) (hadm : AdmissibleRun #[] ops) {ta : Rose}
    (hta : absRoot (runOps #[] ops) = .ok ta) :
    let a := runOps #[] ops
    let b := freshArena' (erase ta)
    ∃ tb, absRoot b = .ok tb ∧ erase tb = erase ta ∧
    -- shape statistics
    nLeaves a = nLeaves b ∧ isRooted a = isRooted b ∧ isBinary a = isBinary b ∧
    totalLength a = totalLength b ∧ cherries a = cherries b ∧ colless a = colless b ∧ sackin a = sackin b ∧
    (∀ u, treeHeight a u = treeHeight b u) ∧ (∀ u, diameter a u = diameter b u) ∧
    -- leaf names and name searches
    ((leaves a).map (fun i => (nd a i).name)).Perm ((leaves b).map (fun i => (nd b i).name)) ∧
    (∀ n, (searchName a n).length = (searchName b n).length) ∧
    -- traversals and listings from the root, read as names
    qnames a (subtree a ta.id) = qnames b (subtree b tb.id) ∧
    qnames a (postorder a ta.id) = qnames b (postorder b tb.id) ∧
    qnames a (inorder a ta.id) = qnames b (inorder b tb.id) ∧
    qnames a (levelorderQ a ta.id) = qnames b (levelorderQ b tb.id) ∧
    qnames a (subtreeLeaves a ta.id) = qnames b (subtreeLeaves b tb.id) ∧
    qnames a (descendants a ta.id) = qnames b (descendants b tb.id) ∧
    -- bipartitions
    partitionsArena a = partitionsArena b ∧
    -- distance matrices
    dmRecursive a = dmRecursive b ∧ (∀ u, dmRose a u = dmRose b u) ∧
    -- node-to-node distances, nodes addressed by pre-order position
    (∀ (i j xa ya xb yb : Nat), (idsR ta)[i]? = some xa → (idsR ta)[j]? = some ya → (idsR tb)[i]? = some xb →
      (idsR tb)[j]? = some yb → distance a xa ya = distance b xb yb) := by
  intro a b
  have h0 : AtMostOneRoot #[] := by intro i j hi; exact absurd hi.1.1 (by simp)
  obtain ⟨ga, ha⟩ := runOps_oneRoot ops empty_good h0 hadm
  obtain ⟨gb, hb, _, tb, htb, hetb⟩ := freshArena'_spec (erase ta)
  have he : erase ta = erase tb := hetb.symm
  obtain ⟨s1, s2, s3, s4, s5, s6, s7, s8, s9, s10, s11⟩ := answers_depend_only_on_tree ga gb ha hb hta htb he
  obtain ⟨_, _, t1, t2, t3, t4, t5, t6⟩ := traversals_depend_only_on_tree ga gb ha hb hta htb he
  exact ⟨tb, htb, hetb, s1, s2, s3, s4, s5, s6, s7, s8, s9, s10, s11, t1, t2, t3, t4, t5, t6,
    (partitions_depend_only_on_tree ga gb ha hb hta htb he).2.2,
    dmRecursive_depends_only_on_tree ga gb ha hb hta htb he,
    fun u => dmRose_depends_only_on_tree ga gb ha hb hta htb he u,
    fun i j xa ya xb yb k1 k2 k3 k4 => distances_depend_only_on_tree ga gb ha hb hta htb he i j xa ya xb yb k1 k2 k3 k4⟩

/-- non-vacuity: the history with a removal (`exB`) satisfies the hypotheses; e.g. its distance matrix equals
    that of the freshly built cherry -/
example : dmRecursive exB = dmRecursive (freshArena' (erase exTb)) := by
  have hadm : AdmissibleRun #[] [.add none, .addChild 0 (some 9) (some "z"), .prune 1,
      .addChild 0 (some 3) (some "x"), .addChild 0 (some 4) (some "y")] := by
    simp only [AdmissibleRun, Admissible, and_true]
    intro i hi; exact absurd hi.1.1 (by simp)
  obtain ⟨tb, _, _, rest⟩ := C04_history_vs_fresh _ hadm (ta := exTb) exB_abs
  exact rest.2.2.2.2.2.2.2.2.2.2.2.2.2.2.2.2.2.2.1

/-- **`get_by_name` after any edit history** (started from the empty arena, `add` only on a rootless arena, names set
    only on live nodes): the answer is the node of the CURRENT tree with the smallest id carrying the name — never a
    removed slot — and nothing is found exactly when no node of the tree carries it -/
theorem get_by_name_after_history (ops : List Op) (hadm : AdmissibleRun #[] ops) (hok : NamesOKRun #[] ops)
    {t : Rose} (h : absRoot (runOps #[] ops) = .ok t) (s : String) :
    (∀ i, getByName (runOps #[] ops) s = some i → i ∈ idsNamedR t (some s) ∧ ∀ j ∈ idsNamedR t (some s), i ≤ j) ∧
    (getByName (runOps #[] ops) s = none ↔ idsNamedR t (some s) = []) :=
  getByName_after_history ops hadm hok h s

/-- every abstract tree has a fresh arena (root by `add`, every other node by `add_child` in pre-order, the way the
    Newick parser builds it) that is well formed, holds one tree, has no removed slot carrying a name, and represents it -/
theorem fresh_arena_exists (T : RoseNL) :
    Good (freshArena' T) ∧ AtMostOneRoot (freshArena' T) ∧ BlankNames (freshArena' T) ∧
    ∃ t, absRoot (freshArena' T) = .ok t ∧ erase t = T :=
  freshArena'_spec T

end C04
