import PhyloModel.Arena.Cache
import PhyloModel.Arena.Abs
import PhyloModel.Split.Model
import PhyloModel.Arena.QRLemmas
/-! # C04 — query answers depend only on the tree, not on edit or query history

Two ingredients.  (1) The cache discipline of the two `RefCell` caches, on a small state-machine model
(`CacheM`): after the documented reset a query returns the value for the current tree, any number of
queries in any order return that same value and never change the tree, and an edit followed by the reset is
observed by the next query; without the reset the answer can be stale (which is why the property requires
the reset).  (2) In the arena model every query is a pure function of the arena that never reads a removed
slot: removed nodes are never listed, found, or used as root, and the bipartition / comparison machinery
only sees the rose tree below the live root.  The tie to the crate (whose queries do fill caches) is the
C04 correspondence: id-level answers against the model, name-level answers against a freshly parsed tree. -/
namespace C04
open CacheM

variable {T V : Type}

theorem reset_ok (f : T → V) (s : Cached T V) : CacheOK f (reset s) := by
  intro v h; simp [reset] at h

/-- a query answers with the value for the current tree, keeps the tree and keeps the cache consistent -/
theorem query_correct (f : T → V) (s : Cached T V) (h : CacheOK f s) :
    (query f s).1 = f s.tree ∧ (query f s).2.tree = s.tree ∧ CacheOK f (query f s).2 := by
  unfold query
  cases hc : s.cache with
  | none => refine ⟨rfl, rfl, ?_⟩; intro v hv; simp at hv; exact hv.symm
  | some v => exact ⟨h v hc, rfl, h⟩

/-- read-only queries, in any number, never change the answer of a later query -/
theorem queries_stable (f : T → V) : ∀ (n : Nat) (s : Cached T V), CacheOK f s →
    (∀ v ∈ (queries f n s).1, v = f s.tree) ∧ (queries f n s).2.tree = s.tree ∧ CacheOK f (queries f n s).2
  | 0, s, h => ⟨by simp [queries], rfl, h⟩
  | n + 1, s, h => by
    obtain ⟨h1, h2, h3⟩ := query_correct f s h
    obtain ⟨g1, g2, g3⟩ := queries_stable f n (query f s).2 h3
    simp only [queries]
    refine ⟨?_, by rw [g2, h2], g3⟩
    intro v hv
    rcases List.mem_cons.mp hv with rfl | hv
    · exact h1
    · rw [g1 v hv, h2]

/-- an edit followed by the documented reset is seen by every later query, whatever was cached before -/
theorem edit_reset_query (f : T → V) (g : T → T) (s : Cached T V) (n : Nat) :
    ∀ v ∈ (queries f n (reset (edit g s))).1, v = f (g s.tree) := by
  have := (queries_stable f n (reset (edit g s)) (reset_ok f _)).1
  simpa [reset, edit] using this

/-- without the reset a query may return the stale value: the reset in the property's statement is needed -/
theorem stale_without_reset : ∃ (s : Cached Nat Nat), CacheOK id s ∧
    (query id (edit (· + 1) (query id s).2)).1 ≠ id (edit (· + 1) (query id s).2).tree :=
  ⟨⟨0, none⟩, by intro v h; simp at h, by decide⟩

/-! ### removed slots are never observable in the arena model -/
open AR

theorem leaves_live (a : Arena) (i : Nat) (h : i ∈ leaves a) : live a i := by
  simp only [leaves, List.mem_filter, Bool.and_eq_true] at h
  exact (isLive_iff a i).mp h.2.1

theorem search_live (a : Arena) (n : Option String) (i : Nat) (h : i ∈ searchName a n) : live a i := by
  simp only [searchName, List.mem_filter, Bool.and_eq_true] at h
  exact (isLive_iff a i).mp h.2.1

theorem root_live (a : Arena) (r : Nat) (h : getRoot a = some r) : live a r ∧ (nd a r).parent = none := by
  have := List.find?_some h
  simp only [Bool.and_eq_true, Option.isNone_iff_eq_none] at this
  exact ⟨(isLive_iff a r).mp this.1, this.2⟩

theorem get_dead (a : Arena) (i : Nat) (h : ¬ live a i) : (∃ k, AR.get a i = .err k) := by
  have : isLive a i = false := by
    cases hh : isLive a i with
    | false => rfl
    | true => exact absurd ((isLive_iff a i).mp hh) h
  exact ⟨"NodeNotFound", by simp [AR.get, this]⟩

/-- the abstraction used by every rose-level query never descends into a removed slot -/
theorem abs_dead (f : Nat) (a : Arena) (x : Nat) (h : ¬ live a x) : absF f a x = none := by
  have : isLive a x = false := by
    cases hh : isLive a x with
    | false => rfl
    | true => exact absurd ((isLive_iff a x).mp hh) h
  cases f with
  | zero => rfl
  | succ f => simp [absF, this]

end C04
