import PhyloModel.Misc.FormatStrip
/-! # C16 — the field-selection table REGENERATED FROM THE SOURCE on every run (lean/translate_formats.py)

GENERATED FILE — do not edit.  Source: `Node::to_newick` in src/tree/node.rs and `enum NewickFormat` in src/tree/mod.rs of the
working tree the check runs against. -/
namespace C16
open FM

def sourceTableRecognised : Bool := true

/-- the variants of `NewickFormat` in declaration order, as the source lists them -/
def srcVariants : List String := ["AllFields", "Topology", "NoComments", "OnlyNames", "OnlyLengths", "LeafLengthsAllNames", "LeafLengthsLeafNames", "InternalLengthsLeafNames", "AllLengthsLeafNames"]

/-- which formats print the NAME, as a function of `is_tip()` — read off the source -/
def srcName : Fmt → Bool → Bool
  | .allFields => fun _ => true
  | .topology => fun _ => false
  | .noComments => fun _ => true
  | .onlyNames => fun _ => true
  | .onlyLengths => fun _ => false
  | .leafLengthsAllNames => fun _ => true
  | .leafLengthsLeafNames => fun tip => tip
  | .internalLengthsLeafNames => fun tip => tip
  | .allLengthsLeafNames => fun tip => tip

/-- which formats print the LENGTH — read off the source -/
def srcLength : Fmt → Bool → Bool
  | .allFields => fun _ => true
  | .topology => fun _ => false
  | .noComments => fun _ => true
  | .onlyNames => fun _ => false
  | .onlyLengths => fun _ => true
  | .leafLengthsAllNames => fun tip => tip
  | .leafLengthsLeafNames => fun tip => tip
  | .internalLengthsLeafNames => fun tip => !tip
  | .allLengthsLeafNames => fun _ => true

/-- which formats print the COMMENT — read off the source -/
def srcComment : Fmt → Bool → Bool
  | .allFields => fun _ => true
  | .topology => fun _ => false
  | .noComments => fun _ => false
  | .onlyNames => fun _ => false
  | .onlyLengths => fun _ => false
  | .leafLengthsAllNames => fun _ => false
  | .leafLengthsLeafNames => fun _ => false
  | .internalLengthsLeafNames => fun _ => false
  | .allLengthsLeafNames => fun _ => false

/-- **the hand-written model selects exactly the fields the source selects**, for each of the nine formats and for tips and
    internal nodes: every C16 theorem (`format_is_strip`, parse-back, Nexus) is therefore about the table the code has NOW -/
theorem model_table_is_source_table (f : Fmt) (tip : Bool) :
    keepName f tip = srcName f tip ∧ keepLen f tip = srcLength f tip ∧ keepComment f = srcComment f tip := by
  cases f <;> cases tip <;> decide

/-- the source lists nine formats -/
theorem source_lists_nine_formats : srcVariants.length = 9 := by decide

end C16
