import PhyloModel.Split.Lemmas
import PhyloModel.Split.Rooted
import PhyloModel.Arena.QRLemmas
/-! # C05 — bipartitions are exactly the non-trivial splits of the leaf set

`SPM.partitions` mirrors `init_partitions` (repaired code): one bit per entry of the sorted leaf index,
`get_partition` = canonical representative of `{S, ¬S}`, the trivial-split test `ones ≤ 1 ∨ ones + 1 ≥ len`,
and the map keyed by the canonical side.  The theorems characterise the reported set for every tree;
the Spec-level invariances (child reordering, unary nodes, two- vs three-child root) are proved on
name-only rose trees in `PhyloModel/Split` and transfer through `partitions_congr`, because the reported
set depends on the tree only through the set of leaf-name sets below its non-root internal nodes. -/
namespace C05
open AR SPM

mutual
/-- the non-root internal nodes of a rose tree, pre-order -/
def inner : Rose → List Rose
  | .node _ _ _ _ ks => innerL ks
def innerL : List Rose → List Rose
  | [] => []
  | k :: ks =>
    (match k with
     | .node _ _ _ _ [] => []
     | .node _ _ _ _ (_ :: _) => [k]) ++ inner k ++ innerL ks
end

mutual
theorem branches_inner (all : List String) : ∀ t : Rose, (branches all t).map (·.1) = (inner t).map (sideOf all)
  | .node _ _ _ _ ks => by rw [branches, inner]; exact branchesL_inner all ks
theorem branchesL_inner (all : List String) : ∀ ks : List Rose, (branchesL all ks).map (·.1) = (innerL ks).map (sideOf all)
  | [] => by simp [branchesL, innerL]
  | k :: ks => by
    cases k with
    | node i n l d kk =>
      cases kk with
      | nil =>
        simp only [branchesL, innerL, List.nil_append, List.map_append]
        rw [branches_inner all (.node i n l d []), branchesL_inner all ks]
      | cons k1 kk =>
        simp only [branchesL, innerL, List.map_append, List.map_cons, List.map_nil]
        rw [branches_inner all (.node i n l d (k1 :: kk)), branchesL_inner all ks]
end

/-- **exactness**: the reported sides are exactly the canonical representatives of the splits induced by the
    non-root internal branches that have at least two leaves on each side -/
theorem partitions_exact (t : Rose) (all : List String) (ps : List Part) (hall : leafIndex t = .ok all)
    (hps : partitions t = .ok ps) (x : Side) :
    x ∈ sides ps ↔ ∃ v ∈ inner t, x = sideOf all v ∧ 2 ≤ ones x ∧ 2 ≤ ones (flip x) := by
  simp only [partitions, hall, QR.bind_ok, QR.pure_eq, QR.ok.injEq] at hps
  subst hps
  rw [sides_foldl]
  simp only [sides, List.map_nil, List.not_mem_nil, false_or, List.mem_filter, Bool.not_eq_eq_eq_not, Bool.not_true]
  have hb := branches_inner all t
  constructor
  · rintro ⟨b, ⟨hb1, hb2⟩, rfl⟩
    have : b.1 ∈ (branches all t).map (·.1) := List.mem_map.mpr ⟨b, hb1, rfl⟩
    rw [hb] at this
    obtain ⟨v, hv, hv2⟩ := List.mem_map.mp this
    exact ⟨v, hv, hv2.symm, (not_trivial_iff b.1).mp hb2⟩
  · rintro ⟨v, hv, rfl, h2⟩
    have : sideOf all v ∈ (branches all t).map (·.1) := by rw [hb]; exact List.mem_map.mpr ⟨v, hv, rfl⟩
    obtain ⟨b, hb1, hb2⟩ := List.mem_map.mp this
    exact ⟨b, ⟨hb1, by rw [hb2]; exact (not_trivial_iff _).mpr h2⟩, hb2.symm⟩

/-- every split is reported once -/
theorem partitions_nodup (t : Rose) (ps : List Part) (hps : partitions t = .ok ps) : (sides ps).Nodup := by
  unfold partitions at hps
  cases hall : leafIndex t with
  | ok all =>
    simp only [hall, QR.bind_ok, QR.pure_eq, QR.ok.injEq] at hps
    subst hps
    exact sides_nodup_foldl _ [] (by simp [sides])
  | err k => simp [hall] at hps
  | panic => simp [hall] at hps

/-- ... whichever side is listed: a side and its complement have the same stored representative, and the
    representative is the side without the first leaf of the sorted index -/
theorem reported_once_either_side (m : Side) : canon (flip m) = canon m ∧ (canon m).head? ≠ some true :=
  ⟨canon_flip m, canon_head m⟩

/-- the non-triviality test does not depend on which side is stored -/
theorem trivial_symmetric (m : Side) : trivial (flip m) = trivial m ∧ trivial (canon m) = trivial m :=
  ⟨trivial_flip m, trivial_canon m⟩

/-- the stored side of a branch depends only on the SET of leaf names below it -/
theorem side_of_name_set (all : List String) (v v' : Rose)
    (h : ∀ x, x ∈ (tipNames v).filterMap id ↔ x ∈ (tipNames v').filterMap id) : sideOf all v = sideOf all v' := by
  unfold sideOf maskOf
  congr 1
  apply List.map_congr_left
  intro x _
  have := h x
  by_cases hx : x ∈ (tipNames v).filterMap id
  · simp [hx, this.mp hx]
  · have hx' : x ∉ (tipNames v').filterMap id := fun h' => hx (this.mpr h')
    simp [hx, hx']

/-- transfer principle: two trees with the same leaf index whose non-root internal branches induce the same
    stored sides report the same set of bipartitions -/
theorem partitions_congr (t t' : Rose) (all : List String) (ps ps' : List Part)
    (h1 : leafIndex t = .ok all) (h2 : leafIndex t' = .ok all)
    (hp : partitions t = .ok ps) (hp' : partitions t' = .ok ps')
    (hs : ∀ x, (∃ v ∈ inner t, x = sideOf all v) ↔ (∃ v ∈ inner t', x = sideOf all v)) (x : Side) :
    x ∈ sides ps ↔ x ∈ sides ps' := by
  rw [partitions_exact t all ps h1 hp, partitions_exact t' all ps' h2 hp']
  constructor
  · rintro ⟨v, hv, hx, h⟩
    obtain ⟨v', hv', hx'⟩ := (hs x).mp ⟨v, hv, hx⟩
    exact ⟨v', hv', hx', h⟩
  · rintro ⟨v, hv, hx, h⟩
    obtain ⟨v', hv', hx'⟩ := (hs x).mpr ⟨v, hv, hx⟩
    exact ⟨v', hv', hx', h⟩

/-- Spec level (name-only rose trees): any reordering of children anywhere in the tree changes neither the
    leaf set nor the leaf sets below non-root nodes -/
theorem spec_reorder_invariant {t t' : SP.NT} (h : SP.Reorder t t') : SP.Equiv t t' := SP.reorder_equiv h

/-- Spec level: a unary node contributes exactly what its child contributes -/
theorem spec_unary_invariant (m : Option Nat) (k : SP.NT) (A : List Nat) :
    SP.Contrib (.node m [k]) A ↔ SP.Contrib k A := SP.contrib_unary m k A

/-- Spec level: the same unrooted tree drawn with a two-child root `[X, Y]` or with `X` dissolved into a
    three-or-more-child root induces the same splits (a split is a side or the complement of a side) -/
theorem spec_root_style_invariant (n m : Option Nat) (kx : List SP.NT) (Y : SP.NT) (hkx : kx ≠ [])
    (hnd : (SP.leaves (.node n [.node m kx, Y])).Nodup) (A : List Nat) :
    SP.Split (.node n [.node m kx, Y]) A ↔ SP.Split (.node n (kx ++ [Y])) A :=
  SP.rooted_unrooted n m kx Y hkx hnd A

/-- non-vacuity: on five leaves, the side {0,1} and its complement {2,3,4} have one representative, which is
    non-trivial; a single leaf against the rest is trivial from either side -/
example : canon [true, true, false, false, false] = canon [false, false, true, true, true] ∧
    trivial (canon [true, true, false, false, false]) = false ∧
    trivial [false, false, false, false, true] = true ∧ trivial [true, true, true, true, false] = true := by decide

end C05
