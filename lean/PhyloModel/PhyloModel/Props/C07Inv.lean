import PhyloModel.Props.C06Inv
import PhyloModel.Split.WeightedCongr
import PhyloModel.Split.Rescale
/-! # C07 — invariances of weighted RF and the squared branch score, for the EXECUTABLE model

Both distances are zero between a tree and any child-reordering of itself when all lengths are present (lengths
travel with the nodes; a split induced by several branches accumulates the same lengths in a different order;
a missing length poisons the sum whatever the order), they do not see child order in either argument, and they
are unchanged by a consistent injective renaming of two trees over the SAME leaf set.  (Over different leaf
sets `weighted_robinson_foulds`/`khuner_felsenstein` do not reject — unlike `robinson_foulds` — and compare raw
bit patterns over two different indices; that value is NOT renaming-invariant: see the example at the end.) -/
namespace C07
open AR SPM

/-- **zero against any child-reordering of itself** (all lengths present), in both argument orders; the
    combined report is `(0, 2·#splits, 0, 0)` -/
theorem weighted_reorder_self {t t' : Rose} (h : ReorderR t t') (ps : List Part) (hps : partitions t = .ok ps) :
    (∀ ms, withLengths ps = .ok ms →
      wrf t t' = .ok 0 ∧ kf2 t t' = .ok 0 ∧ wrf t' t = .ok 0 ∧ kf2 t' t = .ok 0 ∧
      compareTopologies t t' = .ok (0, ps.length + ps.length, 0, 0)) ∧
    (withLengths ps = .err "MissingBranchLengths" →
      wrf t t' = .err "MissingBranchLengths" ∧ kf2 t t' = .err "MissingBranchLengths" ∧
      wrf t' t = .err "MissingBranchLengths" ∧ kf2 t' t = .err "MissingBranchLengths") :=
  ⟨fun ms hms => weighted_reorder_zero h ps ms hps hms, weighted_reorder_missing h ps hps⟩

/-- the partition maps of a tree and a reordering carry, side by side, the same accumulated length: the
    poisoned sum `sumO` of the lengths of ALL branches inducing the side, a permutation-invariant quantity -/
theorem accumulated_length_order_free (t : Rose) (all : List String) (ps : List Part)
    (hall : leafIndex t = .ok all) (hps : partitions t = .ok ps) :
    (∀ p ∈ ps, p.len = sumO (lensOf (nbranches all t) p.side)) ∧
    (∀ l1 l2 : List (Option Int), l1.Perm l2 → sumO l1 = sumO l2) ∧
    (∀ L : List (Option Int), (sumO L).isSome = L.all Option.isSome) :=
  ⟨(partitions_spec t all ps hall hps).len, fun _ _ h => sumO_perm h, sumO_isSome⟩

/-- **the weighted distances do not see child order**: reordering either tree or both changes neither weighted
    RF, nor the squared branch score, nor the combined report (values and errors alike) -/
theorem weighted_reorder_invariant {s s' o o' : Rose} (h1 : ReorderR s s') (h2 : ReorderR o o') :
    wrf s' o' = wrf s o ∧ kf2 s' o' = kf2 s o ∧ compareTopologies s' o' = compareTopologies s o :=
  ⟨(weighted_reorder h1 h2).1, (weighted_reorder h1 h2).2, compareTopologies_reorder h1 h2⟩

/-- **consistent renaming**: for an injective `f` applied to the tips of two trees with the same leaf index
    (or the same leaf-index error), weighted RF and the squared branch score are unchanged -/
theorem weighted_rename_invariant {f : String → String} (hf : Function.Injective f)
    (g g' : Option String → Option String) (s o : Rose) (hidx : leafIndex s = leafIndex o) :
    wrf (renameR f g s) (renameR f g' o) = wrf s o ∧ kf2 (renameR f g s) (renameR f g' o) = kf2 s o :=
  weighted_renameR hf g g' s o hidx

/-- **common rescaling, executable form**: multiplying every branch length of both trees by `k` multiplies
    weighted RF by `|k|` and the squared branch score by `k²` (errors are kept); RF itself does not read lengths -/
theorem rescaling_executable (k : Int) (s o : Rose) :
    wrf (scaleR k s) (scaleR k o) =
      (match wrf s o with
       | .ok v => .ok (iabs k * v)
       | .err e => .err e
       | .panic => .panic) ∧
    kf2 (scaleR k s) (scaleR k o) =
      (match kf2 s o with
       | .ok v => .ok (k * k * v)
       | .err e => .err e
       | .panic => .panic) ∧
    rf (scaleR k s) (scaleR k o) = rf s o :=
  ⟨(weighted_scaleR k s o).1, (weighted_scaleR k s o).2, rf_scaleR k k s o⟩

/-- non-vacuity: the reordered example pair of C05Inv has all lengths present and is at distance 0 -/
example : wrf C05.ex1 C05.ex2 = .ok 0 ∧ kf2 C05.ex1 C05.ex2 = .ok 0 := by
  have h := (weighted_reorder_self C05.ex12_reorder _ C05.ex1_partitions).1 _ rfl
  exact ⟨h.1, h.2.1⟩

/-! ### the same-leaf-set hypothesis of `weighted_rename_invariant` cannot be dropped

`cs = (a,b,(c,d),x)` and `co = (a,b,(c,e),x)` have different leaf sets; weighted RF does not reject them and
returns `|5 − 7| = 2` because `{c,d}` and `{c,e}` have the same bit pattern over the two different indices; after
swapping the names `a` and `e` in both trees the two patterns differ and the value is `5 + 7 = 12`. -/

def cs : Rose := C05.exNd 0 [C05.exLf "a" 1, C05.exLf "b" 2, C05.exNd 5 [C05.exLf "c" 1, C05.exLf "d" 1], C05.exLf "x" 1]
def co : Rose := C05.exNd 0 [C05.exLf "a" 1, C05.exLf "b" 2, C05.exNd 7 [C05.exLf "c" 1, C05.exLf "e" 1], C05.exLf "x" 1]

theorem cs_idx : leafIndex cs = .ok ["a", "b", "c", "d", "x"] :=
  leafIndex_of_sorted _ _ (by simp [cs, C05.exNd, C05.exLf, tipNames, tipNamesL])
    (by simp [names, cs, C05.exNd, C05.exLf, tipNames, tipNamesL]) (by decide) (by decide)
theorem co_idx : leafIndex co = .ok ["a", "b", "c", "e", "x"] :=
  leafIndex_of_sorted _ _ (by simp [co, C05.exNd, C05.exLf, tipNames, tipNamesL])
    (by simp [names, co, C05.exNd, C05.exLf, tipNames, tipNamesL]) (by decide) (by decide)
theorem cs_idx' : leafIndex (renameR C05.exF id cs) = .ok ["b", "c", "d", "e", "x"] :=
  leafIndex_of_sorted _ _ (by simp [cs, C05.exNd, C05.exLf, tipNames, tipNamesL, renameR, renameL])
    (by simp [names, cs, C05.exNd, C05.exLf, tipNames, tipNamesL, renameR, renameL, C05.exF]; decide) (by decide) (by decide)
theorem co_idx' : leafIndex (renameR C05.exF id co) = .ok ["a", "b", "c", "e", "x"] :=
  leafIndex_of_sorted _ _ (by simp [co, C05.exNd, C05.exLf, tipNames, tipNamesL, renameR, renameL])
    (by simp [names, co, C05.exNd, C05.exLf, tipNames, tipNamesL, renameR, renameL, C05.exF]; decide) (by decide) (by decide)

/-- over different leaf sets weighted RF is accepted ... -/
theorem wrf_cs_co : wrf cs co = .ok 2 := by
  simp only [wrf, partitions, cs_idx, co_idx, QR.bind_ok, QR.pure_eq]
  rfl
/-- ... and its value is not invariant under a consistent injective renaming -/
theorem wrf_cs_co_renamed : wrf (renameR C05.exF id cs) (renameR C05.exF id co) = .ok 12 := by
  simp only [wrf, partitions, cs_idx', co_idx', QR.bind_ok, QR.pure_eq]
  rfl

/-- the counterexample in one statement -/
theorem weighted_rename_needs_same_leaf_set :
    ∃ (f : String → String) (s o : Rose), Function.Injective f ∧ leafIndex s ≠ leafIndex o ∧
      wrf (renameR f id s) (renameR f id o) ≠ wrf s o := by
  refine ⟨C05.exF, cs, co, C05.exF_inj, ?_, ?_⟩
  · rw [cs_idx, co_idx]; intro h; simp at h
  · rw [wrf_cs_co, wrf_cs_co_renamed]; intro h; cases h

end C07
