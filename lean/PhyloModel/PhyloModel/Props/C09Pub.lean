import PhyloModel.Arena.PathFacts
/-! # C09 (public entry points) — an id that is not a node of the tree is refused by the ancestor and distance queries

`AR.commonAncestorPub` / `AR.distancePub` are `get_common_ancestor` / `get_distance` as they are called from outside (what
the driver runs): the `source == target` shortcut answers only for a node of the tree (repaired: the shortcut used to come
before any lookup, so `get_distance(99, 99)` on a three-node tree was `Ok((Some(0), 0))` and a removed id was handed back as
its own ancestor).  On nodes of the tree they are the functions the other C09 theorems are about. -/
namespace C09
open AR

theorem isLive_false {a : Arena} {s : Nat} (h : ¬ live a s) : isLive a s = false := by
  cases hb : isLive a s with
  | false => rfl
  | true => exact absurd ((isLive_iff a s).1 hb) h

theorem path_ok_or_err (a : Arena) (x : Nat) : (∃ l, pathFromRoot a x = .ok l) ∨ (∃ e, pathFromRoot a x = .err e) := by
  unfold pathFromRoot QR.ofOpt
  cases climbF (fuelOf a) a x [] with
  | some v => exact Or.inl ⟨v, rfl⟩
  | none => exact Or.inr ⟨_, rfl⟩

/-- on a node of the tree the public entry point is the function the C09 theorems are about -/
theorem commonAncestorPub_live (a : Arena) (s t : Nat) (h : live a s) :
    commonAncestorPub a s t = commonAncestor a s t := by
  have hl := (isLive_iff a s).2 h
  unfold commonAncestorPub commonAncestor
  by_cases hst : s = t
  · subst hst; simp [hl]
  · simp [hst]

/-- on a node of the tree the public entry point is the function the C09 theorems are about -/
theorem distancePub_live (a : Arena) (s t : Nat) (h : live a s) :
    distancePub a s t = distance a s t := by
  have hl := (isLive_iff a s).2 h
  unfold distancePub distance
  by_cases hst : s = t
  · subst hst; simp [hl]
  · simp [hst]

/-- a first argument that is not a node of the tree (removed, or never handed out) is refused, whatever the second one is -/
theorem commonAncestorPub_refuses_first (a : Arena) (s t : Nat) (h : ¬ live a s) :
    commonAncestorPub a s t = .err "NodeNotFound" := by
  have hl := isLive_false h
  unfold commonAncestorPub
  by_cases hst : s = t
  · subst hst; simp [hl]
  · simp only [hst, if_false]
    unfold commonAncestor
    simp only [hst, if_false]
    rw [pathFromRoot_dead a s h]; rfl

/-- a first argument that is not a node of the tree is refused by the distance query as well -/
theorem distancePub_refuses_first (a : Arena) (s t : Nat) (h : ¬ live a s) :
    distancePub a s t = .err "NodeNotFound" := by
  have hl := isLive_false h
  unfold distancePub
  by_cases hst : s = t
  · subst hst; simp [hl]
  · simp only [hst, if_false]
    unfold distance
    simp only [hst, if_false]
    rw [pathFromRoot_dead a s h]; rfl

/-- a second argument that is not a node of the tree is refused too -/
theorem commonAncestorPub_refuses_second (a : Arena) (s t : Nat) (h : ¬ live a t) :
    ∃ e, commonAncestorPub a s t = .err e := by
  by_cases hs : live a s
  · have hst : s ≠ t := fun e => h (e ▸ hs)
    unfold commonAncestorPub commonAncestor
    simp only [hst, if_false]
    rw [pathFromRoot_dead a t h]
    rcases path_ok_or_err a s with ⟨l, hl⟩ | ⟨e, he⟩
    · rw [hl]; exact ⟨_, rfl⟩
    · rw [he]; exact ⟨_, rfl⟩
  · exact ⟨_, commonAncestorPub_refuses_first a s t hs⟩

/-- a second argument that is not a node of the tree is refused by the distance query as well -/
theorem distancePub_refuses_second (a : Arena) (s t : Nat) (h : ¬ live a t) :
    ∃ e, distancePub a s t = .err e := by
  by_cases hs : live a s
  · have hst : s ≠ t := fun e => h (e ▸ hs)
    unfold distancePub distance
    simp only [hst, if_false]
    rw [pathFromRoot_dead a t h]
    rcases path_ok_or_err a s with ⟨l, hl⟩ | ⟨e, he⟩
    · rw [hl]; exact ⟨_, rfl⟩
    · rw [he]; exact ⟨_, rfl⟩
  · exact ⟨_, distancePub_refuses_first a s t hs⟩

/-- the hypotheses are satisfiable and the guard is not vacuous: in the one-node arena, id 0 is a node and is at distance 0
    from itself, id 7 is not a node and is refused -/
example : distancePub #[(default : Node)] 0 0 = .ok (some 0, 0) ∧ distancePub #[(default : Node)] 7 7 = .err "NodeNotFound" := by
  constructor <;> rfl

end C09
