import PhyloModel.Misc.Layout
/-! # C19 — radial layout is a faithful drawing of the tree

`LAY.layout` mirrors `radial_layout` with exact angles (rational fractions of a turn): pre-order, one segment
per non-root node, the wedge of a node starts where its previous sibling's ended and has width
`leaves(node)/leaves(root)`, the branch points along the wedge's bisector.  Coordinates are
`parent position + len·(cos θ, sin θ)`; `cos`, `sin` and rounding are modelled, not verified: the length claim
is proved for any pair `(c, s)` with `c² + s² = 1`, and the harness applies the real `cos`/`sin` to the model's
exact angles and compares every coordinate with the crate's within 1e-9. -/
namespace C19
open AR

mutual
def size : Rose → Nat
  | .node _ _ _ _ ks => 1 + sizeL ks
def sizeL : List Rose → Nat
  | [] => 0
  | k :: ks => size k + sizeL ks
end

mutual
/-- exactly one segment (and one labelled point) per non-root node -/
theorem one_segment_per_non_root_node (total : Nat) : ∀ (t : Rose) (start : Rat),
    (LAY.layout total t start).length + 1 = size t
  | .node i n l d ks, start => by
    rw [LAY.layout, size]; have := segments_of_children total i ks start; omega
theorem segments_of_children (total : Nat) (p : Nat) : ∀ (ks : List Rose) (start : Rat),
    (LAY.layoutL total p ks start).length = sizeL ks
  | [], _ => by simp [LAY.layoutL, sizeL]
  | k :: ks, start => by
    rw [LAY.layoutL, sizeL]
    simp only [List.length_cons, List.length_append]
    have h1 := one_segment_per_non_root_node total k start
    have h2 := segments_of_children total p ks (start + (LAY.nLeaves k : Rat) / (total : Rat))
    omega
end

/-- the first child's segment: it hangs from the parent, its wedge starts where the parent's starts, has width
    `leaves(child)/leaves(root)`; the remaining siblings follow with a wedge starting exactly where this one
    ends (consecutive, hence disjoint, wedges in child order) and the child's own subtree is drawn inside its
    wedge start -/
theorem sibling_wedges_are_consecutive (total p : Nat) (k : Rose) (ks : List Rose) (start : Rat) :
    LAY.layoutL total p (k :: ks) start =
      { parent := p, id := k.id, start := start, width := (LAY.nLeaves k : Rat) / (total : Rat), len := k.len, name := k.name } ::
        (LAY.layout total k start ++ LAY.layoutL total p ks (start + (LAY.nLeaves k : Rat) / (total : Rat))) := by
  rw [LAY.layoutL]

/-- wedge widths of a list of siblings -/
def widths (total : Nat) (ks : List Rose) : List Rat := ks.map (fun k => (LAY.nLeaves k : Rat) / (total : Rat))

def sumR (l : List Rat) : Rat := l.foldr (· + ·) 0

/-- the sibling wedges together are exactly as wide as `leaves below them / leaves(root)`: the children of a
    node fill their parent's wedge exactly (nested), the children of the root fill the full turn -/
theorem wedges_fill_parent (total : Nat) : ∀ ks : List Rose,
    sumR (widths total ks) = (LAY.nLeavesL ks : Rat) / (total : Rat)
  | [] => by simp [widths, sumR, LAY.nLeavesL]; grind
  | k :: ks => by
    have ih := wedges_fill_parent total ks
    simp only [widths, List.map_cons, sumR, List.foldr_cons] at ih ⊢
    rw [ih, LAY.nLeavesL]
    have : ((LAY.nLeaves k + LAY.nLeavesL ks : Nat) : Rat) = (LAY.nLeaves k : Rat) + (LAY.nLeavesL ks : Rat) := by
      exact Rat.natCast_add _ _
    rw [this, Rat.div_def, Rat.div_def, Rat.div_def, Rat.add_mul]

theorem internal_node_leaves (i : Nat) (n : Option String) (l : Option Int) (d : Nat) (k : Rose) (ks : List Rose) :
    LAY.nLeaves (.node i n l d (k :: ks)) = LAY.nLeavesL (k :: ks) := by rw [LAY.nLeaves]

/-- the drawn branch has Euclidean length equal to the branch length: for any direction `(c, s)` on the unit
    circle, the segment from `(x, y)` to `(x + d·c, y + d·s)` has squared length `d²` -/
theorem branch_has_its_length (x y d c s : Rat) (h : c * c + s * s = 1) :
    ((x + d * c) - x) * ((x + d * c) - x) + ((y + d * s) - y) * ((y + d * s) - y) = d * d := by
  have : ((x + d * c) - x) * ((x + d * c) - x) + ((y + d * s) - y) * ((y + d * s) - y) = d * d * (c * c + s * s) := by
    grind
  rw [this, h]; grind

/-- uniform rescaling multiplies every coordinate by the factor (and commutes with the construction) -/
theorem rescale_commutes (k x d c : Rat) : k * (x + d * c) = k * x + (k * d) * c := by grind

/-- a missing length is refused -/
theorem missing_length_refused (t : Rose) (h : (LAY.layout (LAY.nLeaves t) t 0).any (fun s => s.len.isNone) = true) :
    LAY.radial t = .err "MissingBranchLengths" := by
  simp [LAY.radial, h]

/-- non-vacuity: the hypothesis of `branch_has_its_length` is satisfiable: (0, 1) and (1, 0) are on the unit circle -/
example : ((0 : Rat) * 0 + 1 * 1 = 1) ∧ ((1 : Rat) * 1 + 0 * 0 = 1) := by constructor <;> grind

end C19
