import PhyloModel.Upgma.ArenaLinkMain
/-! # C15 / C03 — the ARENA that `DistanceMatrix::upgma` builds, linked to the tree of the numeric model

`DistanceMatrix::upgma` does not assemble a tree value: it drives the arena API (`Tree::add`, `Tree::add_child`, one
`Tree::merge_children` per iteration, `node_ids[a] = new id`).  `UPG.upgmaShape` (Matrix/UpgmaArena.lean) performs exactly
these calls on the arena model `AR` while the numeric state is advanced by the same `UPG.stepC` that `UPG.upgmaC` runs;
every length the real code writes is replaced by the placeholder `0` (arena lengths are integers, UPGMA lengths are
rationals), a length it leaves absent stays absent.  This file links the two component models:

* `upgmaShape_same_outcome`, `upgmaShape_ok_iff`, `upgmaShape_succeeds` — the arena calls never refuse: the run with the arena
  succeeds exactly when the numeric run succeeds (and fails with the same error), for EVERY taxon list and vector;
* `merge_never_refuses` — the loop invariant behind it: the two merged ids are always two different live children of slot 0;
* `merge_children_order` — where `merge_children` puts things: the new node gets `[child1, child2]`, the parent loses both
  and gets the new node at the END of its child list;
* `upgmaShape_good` — C03 for UPGMA-built trees: the arena is one consistent rooted tree with root slot 0;
* `upgmaShape_represents` — the abstraction of the arena, ids and lengths erased, IS the tree `upgmaC` returns, lengths erased:
  same names, same order of the children under every node;
* `upgmaShape_slots`, `upgmaShape_leaves` — the layout: `2n − 1` slots, none removed, slots `1..n` are the tips carrying the
  taxa in order, every later slot is an unnamed node with two children, the root has two children; `get_leaves` lists
  exactly the slots `1..n`.

None of the theorems about a returned arena has a hypothesis on the matrix (size, signs): they hold whenever the run
returns.  No disagreement between the two models on any child order was found (it is now a theorem that there is none). -/
namespace C15
open UP UPG MX Tri MXS AR

/-- **Same outcome.**  For every taxon list and every vector, the run that also drives the arena ends like the numeric run:
    both succeed, or both fail with the same error, or both panic. -/
theorem upgmaShape_same_outcome (taxa : List String) (v : Array Rat) :
    (upgmaShape taxa v).outcome = (upgmaC taxa v).outcome :=
  UPG.upgmaShape_outcome taxa v

/-- `upgmaShape` returns an arena exactly when `upgmaC` returns a tree: no arena call (`add_child`, `merge_children`)
    ever refuses on a run whose numeric part goes through. -/
theorem upgmaShape_ok_iff (taxa : List String) (v : Array Rat) :
    (∃ A, upgmaShape taxa v = .ok A) ↔ (∃ r, upgmaC taxa v = .ok r) :=
  UPG.upgmaShape_ok_iff taxa v

/-- On the domain of the C15 master theorem (two or more taxa, a triangular vector of the right size, non-negative
    entries) the run with the arena succeeds. -/
theorem upgmaShape_succeeds (taxa : List String) (v : Array Rat) (h2 : 2 ≤ taxa.length) (hv : v.size = T taxa.length)
    (hpos : ∀ k, k < v.size → 0 ≤ v.getD k 0) : ∃ A, upgmaShape taxa v = .ok A :=
  UPG.upgmaShape_ok taxa v h2 hv hpos

/-- non-vacuity: taxa `a, b, c`, distances `a-b 2, a-c 4, b-c 4` satisfy the hypotheses, so the hypothesis
    `upgmaShape taxa v = .ok A` of the theorems below is satisfiable -/
example : ∃ A, upgmaShape ["a", "b", "c"] #[2, 4, 4] = .ok A :=
  upgmaShape_succeeds _ _ UPG.hyps_example.1 UPG.hyps_example.2.1 UPG.hyps_example.2.2

/-- **The `merge_children` call of an iteration never refuses.**  On a state satisfying the loop invariant `SInv`
    (the arena is well formed with the single root 0; `node_ids[i]`, for the unmerged `i`, are exactly the children of
    slot 0 in the order of `rootKids`, pairwise different; slot `node_ids[i]` holds the cluster tree of `i`), whenever the
    numeric iteration `stepC` succeeds the iteration with the arena succeeds with the same numeric state, and the invariant
    holds again. -/
theorem merge_never_refuses {taxa : List String} {s : ShSt} (hI : SInv taxa s) {st' : UPG.St} (hs : stepC s.st = .ok st') :
    ∃ s', stepShape s = .ok s' ∧ s'.st = st' ∧ SInv taxa s' :=
  UPG.stepShape_inv hI hs

/-- the invariant holds before the loop (the set-up phase — virtual root, one `add_child` per taxon — cannot fail) -/
theorem invariant_initially (taxa : List String) (v : Array Rat) :
    ∃ s0, initShape taxa v = .ok s0 ∧ s0.st = initSt taxa v ∧ SInv taxa s0 :=
  UPG.initShape_inv taxa v

/-- non-vacuity of `merge_never_refuses`: the state before the loop on `a, b, c` satisfies the invariant and its numeric
    iteration succeeds -/
example : ∃ s st', SInv ["a", "b", "c"] s ∧ stepC s.st = .ok st' := by
  obtain ⟨s0, _, he, hI⟩ := invariant_initially ["a", "b", "c"] #[2, 4, 4]
  have : (match stepC (initSt ["a", "b", "c"] #[2, 4, 4]) with | .ok _ => true | _ => false) = true := by decide +kernel
  cases hs : stepC (initSt ["a", "b", "c"] #[2, 4, 4]) with
  | ok st' => exact ⟨s0, st', hI, by rw [he]; exact hs⟩
  | err k => rw [hs] at this; cases this
  | panic => rw [hs] at this; cases this

/-- **Where `merge_children` puts things.**  In a well-formed arena, merging two different children `c1`, `c2` of a live
    node `q` succeeds and returns the fresh id `a.size`; the new node has the child list `[c1, c2]` (in the order of the
    arguments) and the parent `q`; `q` loses `c1` and `c2` and gets the new node at the END of its child list; `c1` and `c2`
    get the new node as parent; no other slot changes its liveness, name, child list or parent; the result is well
    formed. -/
theorem merge_children_order {a : Arena} (q c1 c2 : Nat) (e1 e2 pe : Option Int) (name : Option String) (g : Good a)
    (hlq : live a q) (hm1 : c1 ∈ (nd a q).children) (hm2 : c2 ∈ (nd a q).children) (h12 : c1 ≠ c2) :
    ∃ a', mergeChildren a c1 c2 e1 e2 pe name = (a', .ok (some a.size)) ∧ Good a' ∧ a'.size = a.size + 1 ∧
      (∀ i, (nd a' i).deleted = if i = a.size then false else (nd a i).deleted) ∧
      (∀ i, (nd a' i).name = if i = a.size then name else (nd a i).name) ∧
      (∀ i, (nd a' i).children = if i = a.size then [c1, c2]
          else if i = q then ((nd a q).children.erase c1).erase c2 ++ [a.size] else (nd a i).children) ∧
      (∀ i, (nd a' i).parent = if i = a.size then some q
          else if i = c1 ∨ i = c2 then some a.size else (nd a i).parent) :=
  UPG.mergeChildren_under q c1 c2 e1 e2 pe name g hlq hm1 hm2 h12

/-- non-vacuity of `merge_children_order`: the star tree on three tips, children 1 and 3 of the root; after the call the
    root holds `[2, 4]` and the new node `[1, 3]` -/
example : let a : Arena := runOps #[] [.add none, .addChild 0 none (some "a"), .addChild 0 none (some "b"),
      .addChild 0 none (some "c")]
    Good a ∧ live a 0 ∧ 1 ∈ (nd a 0).children ∧ 3 ∈ (nd a 0).children ∧ 1 ≠ 3 ∧
    (nd (mergeChildren a 1 3 (some 0) (some 0) none none).1 0).children = [2, 4] ∧
    (nd (mergeChildren a 1 3 (some 0) (some 0) none none).1 4).children = [1, 3] := by
  intro a
  exact ⟨runOps_good _ empty_good, (isLive_iff a 0).1 (by decide), by decide, by decide, by decide, by decide, by decide⟩

/-- **C03 for UPGMA-built trees.**  Whenever the run returns an arena, that arena satisfies the arena invariant
    (`AR.Good`: parent and child links mirror each other, cached depths and both records of every branch length agree,
    tombstones are blank), has at most one root, and its root is slot 0. -/
theorem upgmaShape_good (taxa : List String) (v : Array Rat) (A : Arena) (h : upgmaShape taxa v = .ok A) :
    Good A ∧ AtMostOneRoot A ∧ getRoot A = some 0 :=
  UPG.upgmaShape_good taxa v A h

/-- **The arena holds the tree of the numeric model.**  Whenever the run returns an arena `A`: the abstraction `absRoot A`
    exists, `upgmaC` returns a tree `u`, and after forgetting ids, cached depths and branch lengths on the arena side
    (`AR.erase`, then `eraseLen`) and branch lengths on the model side (`URose.shape`) the two are EQUAL — the same names
    and the same order of children under every node. -/
theorem upgmaShape_represents (taxa : List String) (v : Array Rat) (A : Arena) (h : upgmaShape taxa v = .ok A) :
    ∃ t u m tie dy, absRoot A = .ok t ∧ upgmaC taxa v = .ok (u, m, tie, dy) ∧ eraseLen (erase t) = u.shape :=
  UPG.upgmaShape_represents taxa v A h

/-- **The slot layout.**  Whenever the run returns an arena `A` on `n` taxa: `n ≥ 2`; `A` has `2n − 1` slots (one virtual
    root, `n` tips, `n − 2` merge nodes) and none of them is removed; slot 0 is unnamed, has no parent and has exactly two
    children; slot `i + 1` is a childless node named after taxon `i`; every slot after the tips is an unnamed node with
    exactly two children. -/
theorem upgmaShape_slots (taxa : List String) (v : Array Rat) (A : Arena) (h : upgmaShape taxa v = .ok A) :
    2 ≤ taxa.length ∧ A.size + 1 = 2 * taxa.length ∧ (∀ i, i < A.size → (nd A i).deleted = false) ∧
    (nd A 0).name = none ∧ (nd A 0).parent = none ∧ (nd A 0).children.length = 2 ∧
    (∀ i, i < taxa.length → (nd A (i + 1)).name = some (nameOf taxa i) ∧ (nd A (i + 1)).children = []) ∧
    (∀ i, taxa.length < i → i < A.size → (nd A i).name = none ∧ (nd A i).children.length = 2) :=
  UPG.upgmaShape_slots taxa v A h

/-- **The leaves are exactly the taxa.**  `Tree::get_leaves` on the returned arena lists the slots `1, .., n`, and their
    names, in that order, are the taxa. -/
theorem upgmaShape_leaves (taxa : List String) (v : Array Rat) (A : Arena) (h : upgmaShape taxa v = .ok A) :
    leaves A = (List.range taxa.length).map (· + 1) ∧ (leaves A).map (fun i => (nd A i).name) = taxa.map some :=
  UPG.upgmaShape_leaves taxa v A h

/-! ## concrete runs -/

/-- what a run looks like from outside: the arena passes the Boolean invariant checker, has one live root, the given
    number of slots, and both its abstraction and the tree of `upgmaC` have the given shape -/
def runHasShape (taxa : List String) (v : Array Rat) (slots : Nat) (expected : Shape) : Bool :=
  match upgmaShape taxa v, upgmaC taxa v with
  | .ok A, .ok (u, _) =>
    (match absRoot A with
      | .ok t => Shape.beq (eraseLen (erase t)) expected
      | _ => false) && Shape.beq u.shape expected && checkInv A && (liveRoots A).length == 1 && A.size == slots
  | _, _ => false

/-- three taxa, `a-b 2, a-c 4, b-c 4`: `(c,(b,a))` — the pair found by `min()` is `(1, 0)`, so `b` comes before `a`, and the
    new node goes to the end of the root's child list, after `c` -/
example : runHasShape ["a", "b", "c"] #[2, 4, 4] 5
    (.node none [.node (some "c") [], .node none [.node (some "b") [], .node (some "a") []]]) = true := by
  decide +kernel

/-- the child lists of that arena: the root holds `[3, 4]` (tip `c`, then the merge node), the merge node `[2, 1]` -/
example : (match upgmaShape ["a", "b", "c"] #[2, 4, 4] with
    | .ok A => (nd A 0).children == [3, 4] && (nd A 4).children == [2, 1] && (nd A 4).parent == some 0
    | _ => false) = true := by decide +kernel

/-- four taxa, all distances equal (every minimum is tied; the first cell in cell order wins): `(d,(c,(b,a)))` -/
example : runHasShape ["a", "b", "c", "d"] #[1, 1, 1, 1, 1, 1] 7
    (.node none [.node (some "d") [], .node none [.node (some "c") [], .node none [.node (some "b") [], .node (some "a") []]]])
    = true := by
  decide +kernel

/-- four taxa, two cherries `c-d 1`, `a-b 2`: `((d,c),(b,a))` -/
example : runHasShape ["a", "b", "c", "d"] #[2, 6, 6, 6, 6, 1] 7
    (.node none [.node none [.node (some "d") [], .node (some "c") []], .node none [.node (some "b") [], .node (some "a") []]])
    = true := by
  decide +kernel

/-- a vector that is too short: both runs fail, with the same error -/
example : (match upgmaShape ["a", "b", "c"] #[2, 4] with | .err k => k == "NonFinite" | _ => false) = true ∧
    (match upgmaC ["a", "b", "c"] #[2, 4] with | .err k => k == "NonFinite" | _ => false) = true := by
  constructor <;> decide +kernel

end C15
