import PhyloModel.Props.C15
import PhyloModel.Props.C15Det
import PhyloModel.Upgma.ClampAlways
/-! # C15 — the repaired `DistanceMatrix::upgma` (branch lengths clamped at zero)

The crate now clamps at zero every branch length it computes as a difference of heights (`fn non_negative`),
in the loop and at the final join, and raises the height of the reused index by the CLAMPED length.
`UPG.stepC` / `UPG.loopC` / `UPG.upgmaC` (Matrix/UpgmaClamp.lean) transcribe the repaired code and are what the
driver runs against the crate; `UPG.step` / `UPG.loop` / `UPG.upgma` (Matrix/Upgma.lean) are the code before the repair.

* `upgmaC_eq_upgma` — on the domain of the C15 theorems (two or more taxa, triangular vector of the right size,
  non-negative entries) the repaired function returns exactly what the original returns: by the monotone-heights
  invariant every clamped difference is already non-negative.  `stepC_eq_step` is the same for one iteration.
* `upgmaC_tree`, `upgmaC_ok_nonneg`, `upgmaC_recovers_ultrametric`, `upgmaC_taxon_order`, `upgmaC_taxon_order_input`,
  `tie_flagC_certifies_unambiguous`, `upgmaC_taxon_order_tie_free` — the results of Props/C15.lean and Props/C15Det.lean,
  restated for the function the driver now runs (`upgmaTr` is the instrumented run of the loop, the same for both on
  this domain).
* `upgmaC_lengths_nonneg_always` — what the clamp buys: with NO hypothesis on the matrix (size, signs) every branch
  length in a returned tree is present and non-negative.
* `clamp_changes_negative_input` — on a matrix with a negative entry the two functions differ, so the hypothesis of
  `upgmaC_eq_upgma` cannot be dropped. -/
namespace C15
open UP UPG MX Tri MXS

/-- **The clamp is the identity on the domain of C15.**  On two or more taxa, for a triangular vector of the right
    size with non-negative entries, the repaired `upgma` returns exactly what the original returns (tree, margin,
    tie flag, dyadic flag). -/
theorem upgmaC_eq_upgma (taxa : List String) (v : Array Rat) (h2 : 2 ≤ taxa.length) (hv : v.size = T taxa.length)
    (hpos : ∀ k, k < v.size → 0 ≤ v.getD k 0) : upgmaC taxa v = upgma taxa v :=
  UPG.upgmaC_eq_upgma taxa v h2 hv hpos

/-- non-vacuity of the common hypotheses: taxa `a, b, c`, distances `a-b 2, a-c 4, b-c 4` -/
example : 2 ≤ ["a", "b", "c"].length ∧ (#[2, 4, 4] : Array Rat).size = T ["a", "b", "c"].length ∧
    ∀ k, k < (#[2, 4, 4] : Array Rat).size → 0 ≤ (#[2, 4, 4] : Array Rat).getD k 0 := UPG.hyps_example

/-- one iteration: on a state satisfying the loop invariant (representation invariant, average linkage, monotone
    heights, partition) with more than two clusters left, the clamped iteration is the original iteration -/
theorem stepC_eq_step {d0 : Nat → Nat → Rat} (hd : ∀ x y, d0 x y = d0 y x) {n : Nat} {st : UPG.St}
    {mem : Nat → List Nat} (hI : LInv d0 n st mem) (hgt : 2 < st.nClusters) : stepC st = step st :=
  UPG.stepC_eq_step hd hI hgt

/-- non-vacuity of `stepC_eq_step`: the initial state of the run on `a, b, c` with `a-b 2, a-c 4, b-c 4` -/
example : LInv (d0of #[2, 4, 4]) 3 (initSt ["a", "b", "c"] #[2, 4, 4]) (fun i => [i]) ∧
    2 < (initSt ["a", "b", "c"] #[2, 4, 4]).nClusters :=
  ⟨init_linv ["a", "b", "c"] #[2, 4, 4] UPG.hyps_example.2.1 UPG.hyps_example.1 UPG.hyps_example.2.2, by decide⟩

/-- **C15 for the repaired function, combined.**  `UPG.upgmaC` succeeds, and the tree `t` it returns
    * is binary at every internal node, the root has exactly two children, every leaf is named, and the leaf
      names are a permutation of the taxa;
    * has all its leaves at one and the same distance from the root;
    * has a non-negative branch length on every non-root node;
    * has as internal nodes (leaf names below the node, height of the node above its leaves) exactly the
      merge events of a complete run of average-linkage clustering from its definition (`AvgRun`). -/
theorem upgmaC_tree (taxa : List String) (v : Array Rat) (h2 : 2 ≤ taxa.length) (hv : v.size = T taxa.length)
    (hpos : ∀ k, k < v.size → 0 ≤ v.getD k 0) :
    ∃ t m tie dy, upgmaC taxa v = .ok (t, m, tie, dy) ∧
      (isBin t = true ∧ t.kids.length = 2 ∧ (leafNames t).Perm (taxa.map some)) ∧
      (∃ h, ∀ d, d ∈ leafDepths t → d = h) ∧
      NonNegLens t ∧
      (∃ evs k cl, upgmaTr taxa v = .ok evs ∧
        AvgRun (d0of v) (List.range taxa.length) (fun i => [i]) evs [k] cl ∧
        (cl k).Perm (List.range taxa.length) ∧ evs.length = taxa.length - 1 ∧
        ∀ x, x ∈ nodeInfo t ↔ ∃ e, e ∈ evs ∧ x = evInfo taxa e) := by
  rw [upgmaC_eq_upgma taxa v h2 hv hpos]
  exact C15.upgma_tree taxa v h2 hv hpos

/-- success and non-negative lengths in the "whatever it returns" form: on the domain of C15 the repaired function
    returns neither an error nor a panic, and every branch length of whatever it returns is present and non-negative -/
theorem upgmaC_ok_nonneg (taxa : List String) (v : Array Rat) (h2 : 2 ≤ taxa.length) (hv : v.size = T taxa.length)
    (hpos : ∀ k, k < v.size → 0 ≤ v.getD k 0) :
    (∃ r, upgmaC taxa v = .ok r) ∧ ∀ t m tie dy, upgmaC taxa v = .ok (t, m, tie, dy) → NonNegLens t := by
  rw [upgmaC_eq_upgma taxa v h2 hv hpos]
  exact upgma_ok_nonneg taxa v h2 hv hpos

/-- **Ultrametric input.**  If moreover the input satisfies the three-point condition, the matrix of leaf-to-leaf
    path lengths of the tree the repaired function returns is the input matrix (`A` lists the taxon indices in
    leaf order). -/
theorem upgmaC_recovers_ultrametric (taxa : List String) (v : Array Rat) (h2 : 2 ≤ taxa.length)
    (hv : v.size = T taxa.length) (hpos : ∀ k, k < v.size → 0 ≤ v.getD k 0) (hu : Ultra (d0of v) taxa.length) :
    ∃ t m tie dy A, upgmaC taxa v = .ok (t, m, tie, dy) ∧ A.Perm (List.range taxa.length) ∧
      leafNames t = A.map (fun i => some (nameOf taxa i)) ∧ distM t = matOf (d0of v) A := by
  rw [upgmaC_eq_upgma taxa v h2 hv hpos]
  exact C15.upgma_recovers_ultrametric taxa v h2 hv hpos hu

/-- **Taxon order.**  The same labelled matrix in two taxon orders (`Reordered`), the run on one of the two
    presentations with an unambiguous minimum at every step: the repaired function succeeds on both, the merge
    events agree position by position, and the two trees have the same internal nodes (set of leaf names below
    the node, height of the node above its leaves). -/
theorem upgmaC_taxon_order (taxa taxa' : List String) (v v' : Array Rat) (σ : Nat → Nat)
    (h2 : 2 ≤ taxa.length) (hv : v.size = T taxa.length) (hpos : ∀ k, k < v.size → 0 ≤ v.getD k 0)
    (hv' : v'.size = T taxa'.length) (hpos' : ∀ k, k < v'.size → 0 ≤ v'.getD k 0)
    (hr : Reordered taxa v taxa' v' σ)
    (hu : (∀ evs, upgmaTr taxa v = .ok evs → Unamb (d0of v) (List.range taxa.length) (fun i => [i]) evs) ∨
      (∀ evs', upgmaTr taxa' v' = .ok evs' → Unamb (d0of v') (List.range taxa'.length) (fun i => [i]) evs')) :
    ∃ t m tie dy t' m' tie' dy' evs evs', upgmaC taxa v = .ok (t, m, tie, dy) ∧ upgmaC taxa' v' = .ok (t', m', tie', dy') ∧
      upgmaTr taxa v = .ok evs ∧ upgmaTr taxa' v' = .ok evs' ∧ All2 (EvSameVia σ) evs' evs ∧
      InfoSub (nodeInfo t') (nodeInfo t) ∧ InfoSub (nodeInfo t) (nodeInfo t') := by
  have h2' : 2 ≤ taxa'.length := by rw [hr.len]; exact h2
  rw [upgmaC_eq_upgma taxa v h2 hv hpos, upgmaC_eq_upgma taxa' v' h2' hv' hpos']
  exact C15.upgma_taxon_order taxa taxa' v v' σ h2 hv hpos hv' hpos' hr hu

/-- ... with the hypothesis on the input: some (equivalently: every) complete run of average-linkage clustering on
    `d0of v` has an unambiguous minimum at every step -/
theorem upgmaC_taxon_order_input (taxa taxa' : List String) (v v' : Array Rat) (σ : Nat → Nat)
    (h2 : 2 ≤ taxa.length) (hv : v.size = T taxa.length) (hpos : ∀ k, k < v.size → 0 ≤ v.getD k 0)
    (hv' : v'.size = T taxa'.length) (hpos' : ∀ k, k < v'.size → 0 ≤ v'.getD k 0)
    (hr : Reordered taxa v taxa' v' σ) (hu : UnambInput (d0of v) taxa.length) :
    ∃ t m tie dy t' m' tie' dy', upgmaC taxa v = .ok (t, m, tie, dy) ∧ upgmaC taxa' v' = .ok (t', m', tie', dy') ∧
      InfoSub (nodeInfo t') (nodeInfo t) ∧ InfoSub (nodeInfo t) (nodeInfo t') := by
  have h2' : 2 ≤ taxa'.length := by rw [hr.len]; exact h2
  rw [upgmaC_eq_upgma taxa v h2 hv hpos, upgmaC_eq_upgma taxa' v' h2' hv' hpos']
  exact C15.upgma_taxon_order_input taxa taxa' v v' σ h2 hv hpos hv' hpos' hr hu

/-- the `tie` flag of the repaired function certifies unambiguity: if it returns with `tie = false`, the run of
    average-linkage clustering it performed has an unambiguous minimum at every step -/
theorem tie_flagC_certifies_unambiguous (taxa : List String) (v : Array Rat) (h2 : 2 ≤ taxa.length)
    (hv : v.size = T taxa.length) (hpos : ∀ k, k < v.size → 0 ≤ v.getD k 0) {t : URose} {m : Option Rat} {dy : Bool}
    (hup : upgmaC taxa v = .ok (t, m, false, dy)) {evs : List Ev} (htr : upgmaTr taxa v = .ok evs) :
    Unamb (d0of v) (List.range taxa.length) (fun i => [i]) evs := by
  rw [upgmaC_eq_upgma taxa v h2 hv hpos] at hup
  exact C15.tie_flag_certifies_unambiguous taxa v h2 hv hpos hup htr

/-- ... hence: if the repaired function on `(taxa, v)` returns with `tie = false`, then on the same labelled matrix
    in any other taxon order it returns a tree with the same internal nodes, and the merge events agree position
    by position -/
theorem upgmaC_taxon_order_tie_free (taxa taxa' : List String) (v v' : Array Rat) (σ : Nat → Nat)
    (h2 : 2 ≤ taxa.length) (hv : v.size = T taxa.length) (hpos : ∀ k, k < v.size → 0 ≤ v.getD k 0)
    (hv' : v'.size = T taxa'.length) (hpos' : ∀ k, k < v'.size → 0 ≤ v'.getD k 0)
    (hr : Reordered taxa v taxa' v' σ) {t : URose} {m : Option Rat} {dy : Bool}
    (hup : upgmaC taxa v = .ok (t, m, false, dy)) :
    ∃ t' m' tie' dy' evs evs', upgmaC taxa' v' = .ok (t', m', tie', dy') ∧
      upgmaTr taxa v = .ok evs ∧ upgmaTr taxa' v' = .ok evs' ∧ All2 (EvSameVia σ) evs' evs ∧
      InfoSub (nodeInfo t') (nodeInfo t) ∧ InfoSub (nodeInfo t) (nodeInfo t') := by
  have h2' : 2 ≤ taxa'.length := by rw [hr.len]; exact h2
  rw [upgmaC_eq_upgma taxa v h2 hv hpos] at hup
  rw [upgmaC_eq_upgma taxa' v' h2' hv' hpos']
  exact C15.upgma_taxon_order_tie_free taxa taxa' v v' σ h2 hv hpos hv' hpos' hr hup

/-- **What the clamp buys.**  No hypothesis on the taxa or on the matrix — any size, any signs: whenever the
    repaired function returns a tree, every non-root node of it carries a branch length and that length is
    non-negative.  (For the original function this needs non-negative input; see `clamp_changes_negative_input`.) -/
theorem upgmaC_lengths_nonneg_always (taxa : List String) (v : Array Rat) (t : URose) (m : Option Rat)
    (ti dy : Bool) (h : upgmaC taxa v = .ok (t, m, ti, dy)) : NonNegLens t :=
  UPG.upgmaC_lengths_nonneg_always taxa v t m ti dy h

/-- non-vacuity of `upgmaC_lengths_nonneg_always` on an input outside the domain of C15: with `d(a,b) = -2` the
    repaired function does return a tree -/
example : ∃ t m ti dy, upgmaC ["a", "b", "c"] #[-2, 4, 4] = .ok (t, m, ti, dy) := by
  have h := UPG.neg_example_lens.2
  unfold lensOf at h
  split at h
  · next t m ti dy he => exact ⟨t, m, ti, dy, he⟩
  · cases h

/-- **The hypothesis of `upgmaC_eq_upgma` is needed.**  Taxa `a, b, c` with `d(a,b) = -2`, `d(a,c) = d(b,c) = 4`:
    the branch lengths of the original tree are `2, 3, -1, -1` (pre-order), those of the repaired one `2, 2, 0, 0`;
    the two functions differ. -/
theorem clamp_changes_negative_input :
    lensOf (upgma ["a", "b", "c"] #[-2, 4, 4]) = [some 2, some 3, some (-1), some (-1)] ∧
    lensOf (upgmaC ["a", "b", "c"] #[-2, 4, 4]) = [some 2, some 2, some 0, some 0] ∧
    upgmaC ["a", "b", "c"] #[-2, 4, 4] ≠ upgma ["a", "b", "c"] #[-2, 4, 4] :=
  ⟨UPG.neg_example_lens.1, UPG.neg_example_lens.2, UPG.neg_example_differs⟩

end C15
