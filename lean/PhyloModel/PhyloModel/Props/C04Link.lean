import PhyloModel.Props.C04
import PhyloModel.Link.ParsedArena
import PhyloModel.Link.WrittenText
import PhyloModel.Link.IntCodec
import PhyloModel.Link.Labels
import PhyloModel.Link.FinishPass
/-! # C04, composed over the writer and the parser

"After any edit history … every read-only query returns the same answer as on a tree FRESHLY PARSED FROM THE
CURRENT NEWICK TEXT."  `Props/C04.lean` states this against a stand-in (`freshArena'`, built by `add` /
`add_child`).  Here the stand-in is replaced by the real thing: the text is what the modelled
`Tree::to_newick` (`NW.toNewickF`) prints for the actual arena (seen through `LK.toNW`), the fresh tree is what
the modelled `Tree::from_newick` (`NW.parse`) returns for that text (seen as a library arena through
`LK.toAR`, which mirrors the parser's finishing pass).

Branch lengths are `Int` (the arena model's lengths) with an arbitrary codec `(parseLen, showLen)` satisfying
the three laws of `NW.Codec` (`LK.codecD`: decimal digits with a leading `-`, is one).  The label-domain
hypothesis `NW.WFT (toRTc a ta)` is exactly C01's domain: names non-empty and metacharacter-free or quoted,
comments non-empty and `]`-free.  It is given in three forms: on the abstract tree
(`same_answers_as_freshly_parsed`), slot by slot (`…_slots`), and — since no operation invents a label — as a
condition on the names the edit history supplies (`history_…_names`, `parsed_edited_…_names`); for a parsed and
unedited tree it holds unconditionally (`parsed_same_answers_as_reparsed`).  `lkBad` shows it cannot be dropped.
`same_answers_as_freshly_parsed_pass` is the main theorem with the parser's finishing pass run literally. -/
namespace C04
open AR SPM DMF LK

/-- the conjunction of id-free answers compared by C04 (the same list as in `C04_history_vs_fresh`) -/
def SameAnswers (a b : Arena) (ta tb : Rose) : Prop :=
    -- shape statistics
    nLeaves a = nLeaves b ∧ isRooted a = isRooted b ∧ isBinary a = isBinary b ∧
    totalLength a = totalLength b ∧ cherries a = cherries b ∧ colless a = colless b ∧ sackin a = sackin b ∧
    (∀ u, treeHeight a u = treeHeight b u) ∧ (∀ u, diameter a u = diameter b u) ∧
    -- leaf names and name searches
    ((leaves a).map (fun i => (nd a i).name)).Perm ((leaves b).map (fun i => (nd b i).name)) ∧
    (∀ n, (searchName a n).length = (searchName b n).length) ∧
    -- traversals and listings from the root, read as names
    qnames a (subtree a ta.id) = qnames b (subtree b tb.id) ∧
    qnames a (postorder a ta.id) = qnames b (postorder b tb.id) ∧
    qnames a (inorder a ta.id) = qnames b (inorder b tb.id) ∧
    qnames a (levelorderQ a ta.id) = qnames b (levelorderQ b tb.id) ∧
    qnames a (subtreeLeaves a ta.id) = qnames b (subtreeLeaves b tb.id) ∧
    qnames a (descendants a ta.id) = qnames b (descendants b tb.id) ∧
    -- bipartitions
    partitionsArena a = partitionsArena b ∧
    -- distance matrices
    dmRecursive a = dmRecursive b ∧ (∀ u, dmRose a u = dmRose b u) ∧
    -- node-to-node distances, nodes addressed by pre-order position
    (∀ (i j xa ya xb yb : Nat), (idsR ta)[i]? = some xa → (idsR ta)[j]? = some ya → (idsR tb)[i]? = some xb →
      (idsR tb)[j]? = some yb → distance a xa ya = distance b xb yb)

/-- two well-formed one-rooted arenas holding the same tree give the same answers (all refinement results of
    the C04 package, collected) -/
theorem sameAnswers_of_erase {a b : Arena} (ga : Good a) (gb : Good b) (ha : AtMostOneRoot a)
    (hb : AtMostOneRoot b) {ta tb : Rose} (hta : absRoot a = .ok ta) (htb : absRoot b = .ok tb)
    (he : erase ta = erase tb) : SameAnswers a b ta tb := by
  obtain ⟨s1, s2, s3, s4, s5, s6, s7, s8, s9, s10, s11⟩ := answers_depend_only_on_tree ga gb ha hb hta htb he
  obtain ⟨_, _, t1, t2, t3, t4, t5, t6⟩ := traversals_depend_only_on_tree ga gb ha hb hta htb he
  exact ⟨s1, s2, s3, s4, s5, s6, s7, s8, s9, s10, s11, t1, t2, t3, t4, t5, t6,
    (partitions_depend_only_on_tree ga gb ha hb hta htb he).2.2,
    dmRecursive_depends_only_on_tree ga gb ha hb hta htb he,
    fun u => dmRose_depends_only_on_tree ga gb ha hb hta htb he u,
    fun i j xa ya xb yb k1 k2 k3 k4 => distances_depend_only_on_tree ga gb ha hb hta htb he i j xa ya xb yb k1 k2 k3 k4⟩

variable {parseLen : NW.Label → Option Int} {showLen : Int → NW.Label}

/-- **C04 over the modelled writer and parser.**  Let `a` be a well-formed arena with at most one root (any
    slot layout, any number of removed slots) whose abstract tree `ta` has labels in C01's domain.  Then

    * the modelled `Tree::to_newick` prints a text `txt` for `a` (root = the slot `get_root` returns; the fuel
      the driver supplies or any larger one),
    * the modelled `Tree::from_newick` accepts `txt;` and returns an arena `a'`,
    * `b := toAR a'` (the returned arena as a library arena) is well formed, has one root, no removed slot, its
      abstract tree `tb` is `ta` up to ids and cached depths, and
    * every id-free read-only query answers on `a` exactly as on `b`. -/
theorem same_answers_as_freshly_parsed (hc : NW.Codec parseLen showLen) {a : Arena} (ga : Good a)
    (ha : AtMostOneRoot a) {ta : Rose} (hta : absRoot a = .ok ta) (hwf : NW.WFT (toRTc a ta)) :
    ∃ r txt a', getRoot a = some r ∧
      (∀ fuel, a.size ≤ fuel → NW.toNewickF showLen fuel .allFields (toNW a) r = some txt) ∧
      NW.parse parseLen (txt ++ [';']) = .done a' ∧
      Good (toAR a') ∧ AtMostOneRoot (toAR a') ∧ (∀ i, i < (toAR a').size → live (toAR a') i) ∧
      ∃ tb, absRoot (toAR a') = .ok tb ∧ erase tb = erase ta ∧ SameAnswers a (toAR a') ta tb := by
  obtain ⟨r, hr, _, hw⟩ := written_text (showLen := showLen) ga ha hta
  obtain ⟨a', hp, hl⟩ := C01.roundtrip hc (toRTc a ta) hwf
  obtain ⟨hs, _⟩ := (C02.parse_total_wf parseLen _).2 a' hp
  obtain ⟨gb, hb, tb, htb, he⟩ := layout_good_represents hs hl
  rw [eraseRT_toRTc] at he
  exact ⟨r, NW.write showLen (toRTc a ta), a', hr, hw, hp, gb, hb,
    fun i hi => (live_toAR a' i).2 (by simpa using hi), tb, htb, he,
    sameAnswers_of_erase ga gb ha hb hta htb he.symm⟩

/-- **C04 for edit histories**: the arena reached by any admissible edit history (started from the empty
    arena; `add` only on a rootless arena) answers every id-free query like the tree freshly parsed from its
    current Newick text -/
theorem history_same_answers_as_freshly_parsed (hc : NW.Codec parseLen showLen) (ops : List Op)
    (hadm : AdmissibleRun #[] ops) {ta : Rose} (hta : absRoot (runOps #[] ops) = .ok ta)
    (hwf : NW.WFT (toRTc (runOps #[] ops) ta)) :
    let a := runOps #[] ops
    ∃ r txt a', getRoot a = some r ∧
      (∀ fuel, a.size ≤ fuel → NW.toNewickF showLen fuel .allFields (toNW a) r = some txt) ∧
      NW.parse parseLen (txt ++ [';']) = .done a' ∧
      Good (toAR a') ∧ AtMostOneRoot (toAR a') ∧ (∀ i, i < (toAR a').size → live (toAR a') i) ∧
      ∃ tb, absRoot (toAR a') = .ok tb ∧ erase tb = erase ta ∧ SameAnswers a (toAR a') ta tb := by
  intro a
  have h0 : AtMostOneRoot #[] := by intro i j hi; exact absurd hi.1.1 (by simp)
  obtain ⟨ga, ha⟩ := runOps_oneRoot ops empty_good h0 hadm
  exact same_answers_as_freshly_parsed hc ga ha hta hwf

/-- the same with the label domain stated slot by slot: every live slot of `a` carries a name / comment in
    C01's domain (removed slots are not constrained) -/
theorem same_answers_as_freshly_parsed_slots (hc : NW.Codec parseLen showLen) {a : Arena} (ga : Good a)
    (ha : AtMostOneRoot a) {ta : Rose} (hta : absRoot a = .ok ta) (hlab : SlotLabelsOK a) :
    ∃ r txt a', getRoot a = some r ∧
      (∀ fuel, a.size ≤ fuel → NW.toNewickF showLen fuel .allFields (toNW a) r = some txt) ∧
      NW.parse parseLen (txt ++ [';']) = .done a' ∧
      Good (toAR a') ∧ AtMostOneRoot (toAR a') ∧ (∀ i, i < (toAR a').size → live (toAR a') i) ∧
      ∃ tb, absRoot (toAR a') = .ok tb ∧ erase tb = erase ta ∧ SameAnswers a (toAR a') ta tb :=
  same_answers_as_freshly_parsed hc ga ha hta (wft_of_slots ga ha hta hlab)

/-- every label the parser stores lies in the domain, so a parsed arena satisfies the slot-level domain
    hypothesis whatever the text was -/
theorem parsed_slotLabelsOK (cs : List Char) (p : PArena) (h : NW.parse parseLen cs = .done p) :
    SlotLabelsOK (toAR p) := by
  intro i hl
  have hi : i < p.size := (live_toAR p i).1 hl
  have := C02.labels_ok_all parseLen cs p h i
  rw [nd_toAR_lt p i hi]
  simp only [toARNode, map_toList_ofList]
  exact this

/-- **parse, edit, query**: the tree library's usual life cycle.  Parse ANY accepted text, apply any
    admissible edit history to the returned tree; provided the labels of the resulting tree are in C01's
    domain (true e.g. when no edit introduced a new name), every id-free query answers like the tree freshly
    parsed from the text the writer prints for the edited arena -/
theorem parsed_edited_same_answers_as_freshly_parsed (hc : NW.Codec parseLen showLen) (cs : List Char)
    (p : PArena) (hp : NW.parse parseLen cs = .done p) (ops : List Op) (hadm : AdmissibleRun (toAR p) ops)
    {ta : Rose} (hta : absRoot (runOps (toAR p) ops) = .ok ta) (hwf : NW.WFT (toRTc (runOps (toAR p) ops) ta)) :
    let a := runOps (toAR p) ops
    ∃ r txt a', getRoot a = some r ∧
      (∀ fuel, a.size ≤ fuel → NW.toNewickF showLen fuel .allFields (toNW a) r = some txt) ∧
      NW.parse parseLen (txt ++ [';']) = .done a' ∧
      Good (toAR a') ∧ AtMostOneRoot (toAR a') ∧ (∀ i, i < (toAR a').size → live (toAR a') i) ∧
      ∃ tb, absRoot (toAR a') = .ok tb ∧ erase tb = erase ta ∧ SameAnswers a (toAR a') ta tb := by
  intro a
  obtain ⟨g0, r0, _⟩ := parse_good parseLen cs p hp
  obtain ⟨ga, ha⟩ := runOps_oneRoot ops g0 r0 hadm
  exact same_answers_as_freshly_parsed hc ga ha hta hwf

/-- **re-parsing the written form of a parsed tree** needs no domain hypothesis at all: for ANY accepted text,
    the returned tree answers every id-free query like the tree parsed from its own written form -/
theorem parsed_same_answers_as_reparsed (hc : NW.Codec parseLen showLen) (cs : List Char)
    (p : PArena) (hp : NW.parse parseLen cs = .done p) :
    ∃ ta txt a', absRoot (toAR p) = .ok ta ∧
      (∀ fuel, p.size ≤ fuel → NW.toNewickF showLen fuel .allFields (toNW (toAR p)) 0 = some txt) ∧
      NW.parse parseLen (txt ++ [';']) = .done a' ∧
      Good (toAR a') ∧ AtMostOneRoot (toAR a') ∧
      ∃ tb, absRoot (toAR a') = .ok tb ∧ erase tb = erase ta ∧ SameAnswers (toAR p) (toAR a') ta tb := by
  obtain ⟨g0, r0, hroot, _, ta, hta⟩ := parse_good parseLen cs p hp
  obtain ⟨r, txt, a', hr, hw, hp', gb, hb, _, tb, htb, he, hs⟩ :=
    same_answers_as_freshly_parsed_slots hc g0 r0 hta (parsed_slotLabelsOK cs p hp)
  rw [hroot] at hr
  cases hr
  exact ⟨ta, txt, a', hta, fun fuel hf => hw fuel (by simpa using hf), hp', gb, hb, tb, htb, he, hs⟩

/-- **the printed text is a normal form**: writing the freshly parsed tree again (any sufficient fuel) reproduces
    the text it was parsed from — the text `txt` of `same_answers_as_freshly_parsed` is a fixed point of
    parse-then-write, and the writer's view of the parsed library arena is the parser's arena itself -/
theorem reparsed_writes_same_text (hc : NW.Codec parseLen showLen) {a : Arena} (ga : Good a)
    (ha : AtMostOneRoot a) {ta : Rose} (hta : absRoot a = .ok ta) (hwf : NW.WFT (toRTc a ta)) :
    ∃ r txt a', getRoot a = some r ∧
      NW.toNewickF showLen (a.size + 1) .allFields (toNW a) r = some txt ∧
      NW.parse parseLen (txt ++ [';']) = .done a' ∧ getRoot (toAR a') = some 0 ∧
      NW.toNewickF showLen ((toAR a').size + 1) .allFields (toNW (toAR a')) 0 = some txt := by
  obtain ⟨r, hr, _, hrep, hht⟩ := written_rep ga ha hta
  obtain ⟨txt, a', h1, h2, _, h4⟩ := C01.roundtrip_arena hc (toNW a) r _ hrep hwf (a.size + 1) (by omega)
  obtain ⟨_, _, hroot, _⟩ := parse_good parseLen _ a' h2
  exact ⟨r, txt, a', hr, h1, h2, hroot, by rw [toNW_toAR, size_toAR]; exact h4⟩

/-- **`get_by_name`** (which does not skip removed slots) finds a node on `a` iff it does on the freshly parsed
    tree, provided the removed slots of `a` carry no name (`BlankNames`, preserved by every history that
    renames live nodes only: `AR.runOps_blank`) -/
theorem getByName_as_freshly_parsed_partial (hc : NW.Codec parseLen showLen) {a : Arena} (ga : Good a)
    (ha : AtMostOneRoot a) (na : BlankNames a) {ta : Rose} (hta : absRoot a = .ok ta)
    (hwf : NW.WFT (toRTc a ta)) :
    ∃ a', NW.parse parseLen (NW.write showLen (toRTc a ta) ++ [';']) = .done a' ∧
      ∀ s, getByName a s = none ↔ getByName (toAR a') s = none := by
  obtain ⟨a', hp, hl⟩ := C01.roundtrip hc (toRTc a ta) hwf
  obtain ⟨hs, _⟩ := (C02.parse_total_wf parseLen _).2 a' hp
  obtain ⟨gb, hb, tb, htb, he⟩ := layout_good_represents hs hl
  rw [eraseRT_toRTc] at he
  exact ⟨a', hp, fun s => getByName_depends_only_on_tree_partial ga gb ha hb na (toAR_blank a') hta htb he.symm s⟩

/-- the same with the freshly parsed arena computed by the LITERAL finishing pass of `from_newick`
    (`LK.finishPass`: start without child edges, copy every present `parent_edge` into the parent's map with the
    library's `set_child_edge`, ids in increasing order) instead of the closed form `toAR` -/
theorem same_answers_as_freshly_parsed_pass (hc : NW.Codec parseLen showLen) {a : Arena} (ga : Good a)
    (ha : AtMostOneRoot a) {ta : Rose} (hta : absRoot a = .ok ta) (hwf : NW.WFT (toRTc a ta)) :
    ∃ r txt a', getRoot a = some r ∧
      (∀ fuel, a.size ≤ fuel → NW.toNewickF showLen fuel .allFields (toNW a) r = some txt) ∧
      NW.parse parseLen (txt ++ [';']) = .done a' ∧
      Good (finishPass a') ∧ AtMostOneRoot (finishPass a') ∧
      ∃ tb, absRoot (finishPass a') = .ok tb ∧ erase tb = erase ta ∧ SameAnswers a (finishPass a') ta tb := by
  obtain ⟨r, hr, _, hw⟩ := written_text (showLen := showLen) ga ha hta
  obtain ⟨a', hp, hl⟩ := C01.roundtrip hc (toRTc a ta) hwf
  obtain ⟨hs, _⟩ := (C02.parse_total_wf parseLen _).2 a' hp
  obtain ⟨gb, hb, tb, htb, he⟩ := finishPass_good_represents hs (NW.layout_rep a' _ 0 none hl)
  rw [eraseRT_toRTc] at he
  exact ⟨r, NW.write showLen (toRTc a ta), a', hr, hw, hp, gb, hb, tb, htb, he,
    sameAnswers_of_erase ga gb ha hb hta htb he.symm⟩

/-! ### the label domain as a condition on the history

No operation of the model invents a label (`AR.runOps_pay`): the labels in the arena after a history are labels
of the start arena or names the history supplied.  So the semantic domain hypothesis `NW.WFT (toRTc a ta)` can
be replaced by a syntactic one: every name an operation of the history supplies is in C01's domain. -/

/-- a name in C01's domain: absent, or non-empty and metacharacter-free outside double-quoted sections -/
def NameInDomain (n : Option String) : Prop := NW.nameWF (n.map String.toList)
/-- a comment in C01's domain: absent, or non-empty and without `]` -/
def CommentInDomain (c : Option String) : Prop := NW.commentWF (c.map String.toList)

theorem slotLabelsOK_of_pay {a : Arena} (h : Pay NameInDomain CommentInDomain a) : SlotLabelsOK a :=
  fun i _ => h i

/-- every slot of a parsed arena carries labels in the domain (whatever the text was) -/
theorem parsed_pay (cs : List Char) (p : PArena) (h : NW.parse parseLen cs = .done p) :
    Pay NameInDomain CommentInDomain (toAR p) := by
  intro i
  by_cases hi : i < p.size
  · have := C02.labels_ok_all parseLen cs p h i
    rw [nd_toAR_lt p i hi]
    simp only [NameInDomain, CommentInDomain, toARNode, map_toList_ofList]
    exact this
  · rw [nd_toAR_ge p i (by omega)]
    simp [NameInDomain, CommentInDomain, dead, NW.nameWF, NW.commentWF]

/-- **C04 for edit histories, domain stated on the history**: for ANY admissible edit history (from the empty
    arena) whose supplied names (`add`, `add_child`, `set_name`, `merge_children`) are in C01's domain, the
    reached arena answers every id-free query like the tree freshly parsed from its current Newick text -/
theorem history_same_answers_as_freshly_parsed_names (hc : NW.Codec parseLen showLen) (ops : List Op)
    (hadm : AdmissibleRun #[] ops) (hnames : ∀ op ∈ ops, NameInDomain op.givenName) {ta : Rose}
    (hta : absRoot (runOps #[] ops) = .ok ta) :
    let a := runOps #[] ops
    ∃ r txt a', getRoot a = some r ∧
      (∀ fuel, a.size ≤ fuel → NW.toNewickF showLen fuel .allFields (toNW a) r = some txt) ∧
      NW.parse parseLen (txt ++ [';']) = .done a' ∧
      Good (toAR a') ∧ AtMostOneRoot (toAR a') ∧ (∀ i, i < (toAR a').size → live (toAR a') i) ∧
      ∃ tb, absRoot (toAR a') = .ok tb ∧ erase tb = erase ta ∧ SameAnswers a (toAR a') ta tb := by
  intro a
  have h0 : AtMostOneRoot #[] := by intro i j hi; exact absurd hi.1.1 (by simp)
  obtain ⟨ga, ha⟩ := runOps_oneRoot ops empty_good h0 hadm
  have hN : NameInDomain none := by simp [NameInDomain, NW.nameWF]
  have hC : CommentInDomain none := by simp [CommentInDomain, NW.commentWF]
  have hpay : Pay NameInDomain CommentInDomain a := runOps_pay hN hC ops (pay_empty hN hC) hnames
  exact same_answers_as_freshly_parsed_slots hc ga ha hta (slotLabelsOK_of_pay hpay)

/-- **parse, edit, query — no hypothesis on the text**: parse ANY accepted text, apply any admissible edit
    history whose supplied names are in C01's domain; the reached arena answers every id-free query like the
    tree freshly parsed from the text the writer prints for it -/
theorem parsed_edited_same_answers_as_freshly_parsed_names (hc : NW.Codec parseLen showLen) (cs : List Char)
    (p : PArena) (hp : NW.parse parseLen cs = .done p) (ops : List Op) (hadm : AdmissibleRun (toAR p) ops)
    (hnames : ∀ op ∈ ops, NameInDomain op.givenName) {ta : Rose} (hta : absRoot (runOps (toAR p) ops) = .ok ta) :
    let a := runOps (toAR p) ops
    ∃ r txt a', getRoot a = some r ∧
      (∀ fuel, a.size ≤ fuel → NW.toNewickF showLen fuel .allFields (toNW a) r = some txt) ∧
      NW.parse parseLen (txt ++ [';']) = .done a' ∧
      Good (toAR a') ∧ AtMostOneRoot (toAR a') ∧ (∀ i, i < (toAR a').size → live (toAR a') i) ∧
      ∃ tb, absRoot (toAR a') = .ok tb ∧ erase tb = erase ta ∧ SameAnswers a (toAR a') ta tb := by
  intro a
  obtain ⟨g0, r0, _⟩ := parse_good parseLen cs p hp
  obtain ⟨ga, ha⟩ := runOps_oneRoot ops g0 r0 hadm
  have hN : NameInDomain none := by simp [NameInDomain, NW.nameWF]
  have hC : CommentInDomain none := by simp [CommentInDomain, NW.commentWF]
  have hpay : Pay NameInDomain CommentInDomain a := runOps_pay hN hC ops (parsed_pay cs p hp) hnames
  exact same_answers_as_freshly_parsed_slots hc ga ha hta (slotLabelsOK_of_pay hpay)

/-! ### non-vacuity -/

/-- the codec hypothesis is satisfiable on `Int`: decimal digits with a leading `-` -/
example : NW.Codec parseD showD := codecD

/-- the history with a removal (`exB`: slot 1 is a removed slot) satisfies all hypotheses -/
theorem exB_wf : NW.WFT (toRTc exB exTb) := by
  have h0 : (nd exB 0).comment = none := by decide
  have h2 : (nd exB 2).comment = none := by decide
  have h3 : (nd exB 3).comment = none := by decide
  simp [exTb, toRTc, toRTcL, h0, h2, h3, NW.WFT, NW.WFL, NW.nameWF, NW.commentWF, NW.nameOKFrom, NW.plain,
    NW.classify, NW.isWs]

/-- … its current Newick text is `(x:3,y:4)` (the removed slot is not written) … -/
example : NW.toNewickF showD exB.size .allFields (toNW exB) 0 = some "(x:3,y:4)".toList := by decide +kernel

/-- … and e.g. its bipartitions and distance matrix are those of the tree parsed from that text -/
example : ∃ a', NW.parse parseD ("(x:3,y:4)".toList ++ [';']) = .done a' ∧
    partitionsArena exB = partitionsArena (toAR a') ∧ dmRecursive exB = dmRecursive (toAR a') := by
  have hadm : AdmissibleRun #[] [.add none, .addChild 0 (some 9) (some "z"), .prune 1,
      .addChild 0 (some 3) (some "x"), .addChild 0 (some 4) (some "y")] := by
    simp only [AdmissibleRun, Admissible, and_true]
    intro i hi; exact absurd hi.1.1 (by simp)
  obtain ⟨r, txt, a', hr, hw, hp, _, _, _, tb, _, _, hs⟩ :=
    history_same_answers_as_freshly_parsed codecD _ hadm (ta := exTb) exB_abs exB_wf
  have hr0 : getRoot exB = some 0 := by decide
  have hr' : getRoot exB = some r := hr
  rw [hr0] at hr'
  cases hr'
  have htxt : NW.toNewickF showD exB.size .allFields (toNW exB) 0 = some "(x:3,y:4)".toList := by decide +kernel
  have := hw exB.size (Nat.le_refl _)
  have hw' : NW.toNewickF showD exB.size .allFields (toNW exB) 0 = some txt := this
  rw [htxt] at hw'
  cases hw'
  exact ⟨a', hp, hs.2.2.2.2.2.2.2.2.2.2.2.2.2.2.2.2.2.1, hs.2.2.2.2.2.2.2.2.2.2.2.2.2.2.2.2.2.2.1⟩

/-- parse a text with a comment, a quoted name, a negative and a root length; prune the tip `B` (slot 3 becomes
    a removed slot) and rename `A`: the hypotheses of `parsed_edited_same_answers_as_freshly_parsed` hold -/
def lkText : List Char := "((A:1,B:-2)C[hi]:3,\"D e\")R:10;".toList
def lkP : PArena := match NW.parse parseD lkText with | .done p => p | _ => #[]
theorem lkP_parse : NW.parse parseD lkText = .done lkP := by
  have hd : (match NW.parse parseD lkText with | .done _ => true | _ => false) = true := by decide
  unfold lkP
  cases h : NW.parse parseD lkText with
  | done p => rfl
  | cont s => rw [h] at hd; cases hd
  | err e => rw [h] at hd; cases hd
  | panic => rw [h] at hd; cases hd
def lkOps : List Op := [.prune 3, .setName 2 (some "A2")]
def lkE : Arena := runOps (toAR lkP) lkOps
def lkT : Rose := .node 0 (some "R") (some 10) 0
  [.node 1 (some "C") (some 3) 1 [.node 2 (some "A2") (some 1) 2 []], .node 4 (some "\"D e\"") none 1 []]
theorem lkE_abs : absRoot lkE = .ok lkT := absRoot_of_check _ _ (by decide +kernel)
theorem lkE_wf : NW.WFT (toRTc lkE lkT) := by
  have h0 : (nd lkE 0).comment = none := by decide +kernel
  have h1 : (nd lkE 1).comment = some "hi" := by decide +kernel
  have h2 : (nd lkE 2).comment = none := by decide +kernel
  have h4 : (nd lkE 4).comment = none := by decide +kernel
  simp [lkT, toRTc, toRTcL, h0, h1, h2, h4, NW.WFT, NW.WFL, NW.nameWF, NW.commentWF, NW.nameOKFrom, NW.plain,
    NW.classify, NW.isWs]
example : lkE.size = 5 ∧ isLive lkE 3 = false ∧
    NW.toNewickF showD lkE.size .allFields (toNW lkE) 0 = some "((A2:1)C:3[hi],\"D e\")R:10".toList := by
  decide +kernel
/-- the syntactic hypotheses on the history hold for `lkOps` (and for the history of `exB`) -/
example : (∀ op ∈ lkOps, NameInDomain op.givenName) ∧
    (∀ op ∈ [Op.add none, .addChild 0 (some 9) (some "z"), .prune 1, .addChild 0 (some 3) (some "x"),
      .addChild 0 (some 4) (some "y")], NameInDomain op.givenName) := by
  simp [lkOps, Op.givenName, NameInDomain, NW.nameWF, NW.nameOKFrom, NW.plain, NW.classify, NW.isWs]
example : ∃ a' tb, absRoot (toAR a') = .ok tb ∧ SameAnswers lkE (toAR a') lkT tb := by
  have hadm : AdmissibleRun (toAR lkP) lkOps := by simp [lkOps, AdmissibleRun, Admissible]
  obtain ⟨r, txt, a', _, _, _, _, _, _, tb, htb, _, hs⟩ :=
    parsed_edited_same_answers_as_freshly_parsed codecD lkText lkP lkP_parse lkOps hadm (ta := lkT) lkE_abs lkE_wf
  exact ⟨a', tb, htb, hs⟩

/-! ### boundary: the label-domain hypothesis cannot be dropped

A name containing an unquoted metacharacter is outside C01's domain, and for such a history the property is
false: the tip named `a,b` is written verbatim, the text `(a,b,c)` parses to three tips. -/

def lkBad : Arena := runOps #[] [.add none, .addChild 0 none (some "a,b"), .addChild 0 none (some "c")]

example : ¬ NameInDomain (some "a,b") := by
  simp [NameInDomain, NW.nameWF, NW.nameOKFrom, NW.plain, NW.classify, NW.isWs]

example : NW.toNewickF showD (lkBad.size + 1) .allFields (toNW lkBad) 0 = some "(a,b,c)".toList ∧
    (match NW.parse parseD ("(a,b,c)".toList ++ [';']) with | .done p => nLeaves (toAR p) | _ => 0) = 3 ∧
    nLeaves lkBad = 2 := by decide +kernel

end C04
