import PhyloModel.Props.C05
/-! # C06 — Robinson–Foulds distance is a symmetric, naming-independent split distance

`SPM.rf`, `SPM.rfNorm`, `SPM.compareTopologies` mirror `robinson_foulds`, `robinson_foulds_norm` and
`compare_topologies` of the repaired crate.  `Δ = |A| + |B| − 2|A∩B|` over the reported split sets. -/
namespace C06
open AR SPM

/-- the value computed before the root-placement correction -/
def delta (ps po : List Part) : Nat := po.length + ps.length - 2 * inter (sides po) (sides ps)

/-- the condition under which the correction of two is applied -/
def corrected (s o : Rose) (ls lo : List String) (d : Nat) : Bool :=
  isRootedR s && isRootedR o && d != 0 && !sameSet (rootSides ls s) (rootSides lo o)

/-- unfolding of `rf` on inputs where both bipartition sets exist -/
theorem rf_eq (s o : Rose) (ps po : List Part) (ls lo : List String)
    (hps : partitions s = .ok ps) (hpo : partitions o = .ok po)
    (hls : leafIndex s = .ok ls) (hlo : leafIndex o = .ok lo) :
    rf s o = if ls != lo then .err "DifferentTipIndices"
      else if corrected s o ls lo (delta ps po) then .ok (delta ps po + 2) else .ok (delta ps po) := by
  simp only [rf, hps, hpo, hls, hlo, QR.bind_ok, QR.pure_eq, delta, corrected, sides, List.length_map]
  split <;> rfl

/-- `Δ` is the number of non-trivial splits present in exactly one of the two trees -/
theorem delta_is_symmetric_difference (s o : Rose) (ps po : List Part)
    (hps : partitions s = .ok ps) (hpo : partitions o = .ok po) :
    delta ps po = ((sides ps).filter (fun x => !(sides po).contains x)).length
                + ((sides po).filter (fun x => !(sides ps).contains x)).length := by
  have h := delta_eq_symdiff (sides ps) (sides po) (C05.partitions_nodup s ps hps) (C05.partitions_nodup o po hpo)
  simpa [delta, sides] using h

/-- RF differs from the split count only by the fixed correction of two, applied only when both trees have a
    two-child root and their root splits differ -/
theorem rf_shape (s o : Rose) (ps po : List Part) (ls : List String)
    (hps : partitions s = .ok ps) (hpo : partitions o = .ok po)
    (hls : leafIndex s = .ok ls) (hlo : leafIndex o = .ok ls) :
    rf s o = .ok (delta ps po) ∨
    (rf s o = .ok (delta ps po + 2) ∧ isRootedR s = true ∧ isRootedR o = true ∧
      sameSet (rootSides ls s) (rootSides ls o) = false) := by
  rw [rf_eq s o ps po ls ls hps hpo hls hlo]
  simp only [bne_self_eq_false, Bool.false_eq_true, ↓reduceIte]
  by_cases hc : corrected s o ls ls (delta ps po) = true
  · right
    simp only [hc, ↓reduceIte, true_and]
    simp only [corrected, Bool.and_eq_true, Bool.not_eq_true'] at hc
    exact ⟨hc.1.1.1, hc.1.1.2, hc.2⟩
  · left; simp [hc]

/-- between trees whose roots are not both two-child roots, RF equals the split count -/
theorem rf_unrooted (s o : Rose) (ps po : List Part) (ls : List String)
    (hps : partitions s = .ok ps) (hpo : partitions o = .ok po)
    (hls : leafIndex s = .ok ls) (hlo : leafIndex o = .ok ls)
    (hroot : isRootedR s = false ∨ isRootedR o = false) : rf s o = .ok (delta ps po) := by
  rw [rf_eq s o ps po ls ls hps hpo hls hlo]
  have : corrected s o ls ls (delta ps po) = false := by
    rcases hroot with h | h <;> simp [corrected, h]
  simp [this]

theorem sameSet_symm (a b : List Side) : sameSet a b = sameSet b a := by
  simp only [sameSet, Bool.and_comm]

/-- RF is symmetric in its arguments -/
theorem rf_symmetric (s o : Rose) (ps po : List Part) (ls lo : List String)
    (hps : partitions s = .ok ps) (hpo : partitions o = .ok po)
    (hls : leafIndex s = .ok ls) (hlo : leafIndex o = .ok lo) : rf s o = rf o s := by
  rw [rf_eq s o ps po ls lo hps hpo hls hlo, rf_eq o s po ps lo ls hpo hps hlo hls]
  have hd : delta ps po = delta po ps := by
    unfold delta
    rw [inter_symm (sides po) (sides ps) (C05.partitions_nodup o po hpo) (C05.partitions_nodup s ps hps)]
    omega
  have hc : corrected s o ls lo (delta ps po) = corrected o s lo ls (delta po ps) := by
    unfold corrected
    rw [hd, sameSet_symm (rootSides ls s) (rootSides lo o), Bool.and_comm (isRootedR s) (isRootedR o)]
  by_cases hne : ls = lo
  · subst hne
    simp only [bne_self_eq_false, Bool.false_eq_true, ↓reduceIte]
    rw [hc, hd]
  · have h1 : (ls != lo) = true := by simpa using hne
    have h2 : (lo != ls) = true := by simpa using (fun h => hne h.symm)
    simp [h1, h2]

/-- trees on different leaf sets are rejected -/
theorem rf_rejects_different_leaf_sets (s o : Rose) (ps po : List Part) (ls lo : List String)
    (hps : partitions s = .ok ps) (hpo : partitions o = .ok po)
    (hls : leafIndex s = .ok ls) (hlo : leafIndex o = .ok lo) (hne : ls ≠ lo) :
    rf s o = .err "DifferentTipIndices" ∧ rfNorm s o = .err "DifferentTipIndices" := by
  have h1 : (ls != lo) = true := by simpa using hne
  have hr : rf s o = .err "DifferentTipIndices" := by
    rw [rf_eq s o ps po ls lo hps hpo hls hlo]; simp [h1]
  exact ⟨hr, by simp [rfNorm, hr]⟩

/-- the normalised distance is RF divided by the total number of splits; without the correction it lies in
    [0, 1] (the split count never exceeds the total) -/
theorem rf_norm_is_quotient (s o : Rose) (ps po : List Part) (d : Nat)
    (hps : partitions s = .ok ps) (hpo : partitions o = .ok po) (hrf : rf s o = .ok d) :
    rfNorm s o = .ok (d, po.length + ps.length) ∧ delta ps po ≤ po.length + ps.length := by
  refine ⟨by simp [rfNorm, hrf, hps, hpo], ?_⟩
  unfold delta; omega

/-- identical split sets and identical root splits give distance zero (in particular a tree against any
    child-reordering of itself, by C05's invariance) -/
theorem rf_zero_of_same_splits (s o : Rose) (ps po : List Part) (ls : List String)
    (hps : partitions s = .ok ps) (hpo : partitions o = .ok po)
    (hls : leafIndex s = .ok ls) (hlo : leafIndex o = .ok ls)
    (hsame : ∀ x, x ∈ sides ps ↔ x ∈ sides po) : rf s o = .ok 0 := by
  have hz : delta ps po = 0 := by
    rw [delta_is_symmetric_difference s o ps po hps hpo]
    have h1 : (sides ps).filter (fun x => !(sides po).contains x) = [] := by
      rw [List.filter_eq_nil_iff]; intro x hx; simp [(hsame x).mp hx]
    have h2 : (sides po).filter (fun x => !(sides ps).contains x) = [] := by
      rw [List.filter_eq_nil_iff]; intro x hx; simp [(hsame x).mpr hx]
    rw [h1, h2]; rfl
  rw [rf_eq s o ps po ls ls hps hpo hls hlo]
  simp [corrected, hz]

/-- the combined report carries the same RF value (all lengths present) -/
theorem rf_equals_report (s o : Rose) (ps po : List Part) (ls lo : List String)
    (ms mo : List (Side × Nat × Int))
    (hps : partitions s = .ok ps) (hpo : partitions o = .ok po)
    (hls : leafIndex s = .ok ls) (hlo : leafIndex o = .ok lo)
    (hms : withLengths ps = .ok ms) (hmo : withLengths po = .ok mo)
    (hms1 : ms.map (·.1) = sides ps) (hmo1 : mo.map (·.1) = sides po) :
    (do let r ← compareTopologies s o; pure r.1) = rf s o := by
  rw [rf_eq s o ps po ls lo hps hpo hls hlo]
  simp only [compareTopologies, hps, hpo, hls, hlo, hms, hmo, QR.bind_ok, QR.pure_eq]
  have hl1 : ms.length = ps.length := by rw [← List.length_map (f := (·.1)), hms1]; simp [sides]
  have hl2 : mo.length = po.length := by rw [← List.length_map (f := (·.1)), hmo1]; simp [sides]
  by_cases hne : ls = lo
  · subst hne
    simp only [bne_self_eq_false, Bool.false_eq_true, ↓reduceIte, hmo1, hms1, hl1, hl2, corrected, delta,
      QR.bind_ok, QR.pure_eq]
    split <;> simp_all
  · have h1 : (ls != lo) = true := by simpa using hne
    simp [h1]

/-- `withLengths` keeps the sides -/
theorem withLengths_sides (ps : List Part) (ms : List (Side × Nat × Int)) (h : withLengths ps = .ok ms) :
    ms.map (·.1) = sides ps := by
  unfold withLengths at h
  split at h
  · cases h
  · cases h; simp [sides, List.map_map, Function.comp_def]

/-- non-vacuity: the correction condition is satisfiable and refutable -/
example : inter [[false, true, true]] [[false, true, true], [false, false, true]] = 1 := by decide

end C06
