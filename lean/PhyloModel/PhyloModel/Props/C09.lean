import PhyloModel.Arena.PathFacts
/-! # C09 — paths, common ancestors and node-to-node distances are exact

`AR.pathFromRoot`, `AR.commonAncestor`, `AR.distance` mirror `get_path_from_root`, `get_common_ancestor`
(repaired: no common ancestor is an error) and `get_distance`.  `W a r` is the structural half of the arena
invariant (links mirrored, duplicate-free child lists, an acyclicity witness `r`); `Inv a` implies it with
`r = depth`.  `Path a l x` says `l` is the chain of ancestors of `x` from a root down to `x`;
`BelowK a m x k` says `x` lies exactly `k` edges below `m`. -/
namespace C09
open AR

/-- the root path of a node exists, is unique, starts at a root, ends at the node, links each entry to its
    parent, and is what the executable query returns -/
theorem root_path {a : Arena} {r : Nat → Nat} (w : W a r) (x : Nat) (hl : live a x) :
    ∃ l, Path a l x ∧ pathFromRoot a x = .ok l ∧ l.getLast? = some x ∧ (∀ l', Path a l' x → l' = l) := by
  obtain ⟨l, hp⟩ := Path.exists w (r x) x hl (Nat.le_refl _)
  exact ⟨l, hp, pathFromRoot_eq w hp, hp.last, fun l' h' => Path.unique h' hp⟩

theorem foldl_none (l : List (Option Int)) :
    l.foldl optAdd none = none := by
  induction l with
  | nil => rfl
  | cons x xs ih => simpa [optAdd] using ih

theorem foldl_some (l : List (Option Int)) (s : Int) :
    l.foldl optAdd (some s) =
      if l.all Option.isSome then some (s + (l.map (·.getD 0)).sum) else none := by
  induction l generalizing s with
  | nil => simp
  | cons x xs ih =>
    cases x with
    | none => simp [foldl_none, optAdd]
    | some v => simp only [List.foldl_cons, optAdd, ih]; simp [Int.add_assoc]

/-- the reported length is the sum of the branch lengths when all are present, and absent otherwise -/
theorem optSum_spec (l : List (Option Int)) :
    optSum l = if l.all Option.isSome then some ((l.map (·.getD 0)).sum) else none := by
  unfold optSum; rw [foldl_some]; simp

/-- **main theorem**: for two distinct live nodes in the same tree, the reported common ancestor `m` is their
    deepest shared ancestor, the reported edge count is the number of edges of the two legs `m → s`, `m → t` of
    the connecting path, and the reported length is the sum of the branch lengths on those legs, or absent
    when one of them lacks a length -/
theorem lca_and_distance {a : Arena} {r : Nat → Nat} (w : W a r) {p q : List Nat} {s t : Nat}
    (hp : Path a p s) (hq : Path a q t) (hroot : p.head? = q.head?) (hne : s ≠ t) :
    ∃ (m : Nat) (p2 q2 : List Nat), commonAncestor a s t = .ok m ∧
      BelowK a m s p2.length ∧ BelowK a m t q2.length ∧
      (∀ m' k k', BelowK a m' s k → BelowK a m' t k' → ∃ j, BelowK a m' m j) ∧
      distance a s t = .ok (optSum ((p2 ++ q2).map (fun i => (nd a i).pedge)), p2.length + q2.length) := by
  obtain ⟨m, c, p2, q2, h1, h2, h3, h4, h5, h6⟩ := lca_correct hp hq hroot
  have hps := pathFromRoot_eq w hp
  have hqs := pathFromRoot_eq w hq
  have hc : cursor p q = c.length + 1 := by rw [← h3]; simp
  refine ⟨m, p2, q2, ?_, h4, h5, h6, ?_⟩
  · simp only [commonAncestor, hne, ↓reduceIte, hps, hqs, QR.bind_ok, hc]
    have : p[c.length]?.getD 0 = m := by
      rw [h1]; simp
    simp [this]
  · simp only [distance, hne, ↓reduceIte, hps, hqs, QR.bind_ok, hc, QR.pure_eq]
    have d1 : p.drop (c.length + 1) = p2 := by rw [h1]; simp
    have d2 : q.drop (c.length + 1) = q2 := by rw [h2]; simp
    rw [d1, d2]
    simp

/-- a node is at distance zero from itself and is its own common ancestor -/
theorem same_node (a : Arena) (x : Nat) : distance a x x = .ok (some 0, 0) ∧ commonAncestor a x x = .ok x := by
  simp [distance, commonAncestor]

/-- unknown or removed node ids are reported as errors -/
theorem dead_node_rejected (a : Arena) (s t : Nat) (hne : s ≠ t) (h : ¬ live a s ∨ ¬ live a t) :
    (∃ k, distance a s t = .err k) ∧ (∃ k, commonAncestor a s t = .err k) := by
  rcases h with h | h
  · have := pathFromRoot_dead a s h
    exact ⟨⟨"NodeNotFound", by simp [distance, hne, this]⟩, ⟨"NodeNotFound", by simp [commonAncestor, hne, this]⟩⟩
  · have := pathFromRoot_dead a t h
    constructor
    · cases hs : pathFromRoot a s with
      | ok v => exact ⟨"NodeNotFound", by simp [distance, hne, hs, this]⟩
      | err k => exact ⟨k, by simp [distance, hne, hs]⟩
      | panic => simp [pathFromRoot, QR.ofOpt] at hs; split at hs <;> cases hs
    · cases hs : pathFromRoot a s with
      | ok v => exact ⟨"NodeNotFound", by simp [commonAncestor, hne, hs, this]⟩
      | err k => exact ⟨k, by simp [commonAncestor, hne, hs]⟩
      | panic => simp [pathFromRoot, QR.ofOpt] at hs; split at hs <;> cases hs

/-- the edge count and the length are symmetric in the two nodes -/
theorem symmetric {a : Arena} {r : Nat → Nat} (w : W a r) {p q : List Nat} {s t : Nat}
    (hp : Path a p s) (hq : Path a q t) (hroot : p.head? = q.head?) (hne : s ≠ t) :
    ∃ (p2 q2 : List Nat), distance a s t = .ok (optSum ((p2 ++ q2).map (fun i => (nd a i).pedge)), p2.length + q2.length) ∧
             distance a t s = .ok (optSum ((q2 ++ p2).map (fun i => (nd a i).pedge)), q2.length + p2.length) := by
  obtain ⟨m, c, p2, q2, h1, h2, h3, _, _, _⟩ := lca_correct hp hq hroot
  obtain ⟨m', c', q2', p2', g1, g2, g3, _, _, _⟩ := lca_correct hq hp hroot.symm
  have hps := pathFromRoot_eq w hp
  have hqs := pathFromRoot_eq w hq
  have hc : cursor p q = c.length + 1 := by rw [← h3]; simp
  have hcs : cursor q p = cursor p q := cursor_comm q p
  refine ⟨p2, q2, ?_, ?_⟩
  · simp only [distance, hne, ↓reduceIte, hps, hqs, QR.bind_ok, hc, QR.pure_eq]
    have d1 : p.drop (c.length + 1) = p2 := by rw [h1]; simp
    have d2 : q.drop (c.length + 1) = q2 := by rw [h2]; simp
    rw [d1, d2]; simp
  · have hne' : t ≠ s := fun h => hne h.symm
    simp only [distance, hne', ↓reduceIte, hps, hqs, QR.bind_ok, hcs, hc, QR.pure_eq]
    have d1 : p.drop (c.length + 1) = p2 := by rw [h1]; simp
    have d2 : q.drop (c.length + 1) = q2 := by rw [h2]; simp
    rw [d1, d2]; simp
where
  cursor_comm : ∀ (x y : List Nat), cursor x y = cursor y x
    | [], [] => rfl
    | [], _ :: _ => rfl
    | _ :: _, [] => rfl
    | u :: us, v :: vs => by
      simp only [cursor]
      by_cases h : u = v
      · subst h; simp [cursor_comm us vs]
      · have : ¬ v = u := fun h' => h h'.symm
        simp [h, this]

/-- non-vacuity: a two-leaf cherry satisfies the structural invariant's Boolean form, and the queries answer -/
example : (match distance ((addChildNamed (addChildNamed (add #[] none).1 0 (some 3) none).1 0 (some 4) none).1) 1 2 with
    | .ok (some 7, 2) => true | _ => false) = true := by decide

end C09
