import PhyloModel.Upgma.DeterminismAbs
import PhyloModel.Upgma.DeterminismTie
import PhyloModel.Upgma.DeterminismEx
/-! # C15 — UPGMA: the clusters and merge heights are those of average-linkage clustering, for any taxon order, whenever each minimum is unambiguous

`upgma_tree` says that the internal nodes of the returned tree are the events of SOME complete run of average-linkage
clustering from its definition (`UPG.AvgRun`).  This part makes the run unique: when each minimum is unambiguous
(`UPG.Unamb`: at every step, every active pair whose average linkage equals the minimum is the chosen pair, in one of the
two orders) the sequence of merges — read as (member set of the merged cluster, height), whichever index survives and in
whichever order a pair is listed — is determined by the matrix, and it does not depend on the order in which the taxa are
presented.  Definitions: `UPG.WFC` (well-formed clustering state), `UPG.StEqv` (same set of clusters, indices forgotten),
`UPG.EvSame` / `UPG.evKey` (an event with indices forgotten), `UPG.All2` (position-by-position relation of two lists),
`UPG.IsPermOf`, `UPG.reorder`, `UPG.EvSameVia`, `UPG.Reordered` (the same labelled matrix in another taxon order),
`UPG.InfoSub` (every node of one tree — leaf-name set, height — is a node of the other), `UPG.UnambInput`.

* `avglink_perm_invariant` — average linkage depends on the member lists only up to permutation
* `state_abstraction` — `StEqv` is "the lists of sorted member lists are permutations of each other"
* `average_linkage_deterministic` — the main theorem; `..._keys` (equal key lists), `..._complete` (complete runs, no
  length hypothesis)
* `unambiguity_is_of_the_input` — if one run is unambiguous, every run of that length from an equivalent state is
* `taxon_order_invariant` — runs on the reordered matrix and on the original matrix agree
* `upgma_taxon_order`, `upgma_taxon_order_input`, `upgma_taxon_order_tie_free` — the executable `UPG.upgma` on the same
  labelled matrix in two taxon orders returns trees with the same internal nodes; the hypothesis is, respectively, on the
  run the executable performs, on the input, or the `tie` flag the executable itself reports
* `tie_flag_certifies_unambiguous` — `tie = false` in the result of `UPG.upgma` implies `Unamb` for its run -/
namespace C15
open UPG MX Tri MXS

/-- the average linkage of two clusters depends on their member lists only up to permutation -/
theorem avglink_perm_invariant (d0 : Nat → Nat → Rat) {A A' B B' : List Nat} (hA : A.Perm A') (hB : B.Perm B') :
    avgLink d0 A B = avgLink d0 A' B' :=
  avgLink_perm d0 hA hB

/-- the index-free reading of a state: for well-formed states (no repeated active index, active clusters non-empty and
    pairwise disjoint) "same set of clusters" is "the lists of the sorted member lists of the active clusters are
    permutations of each other" -/
theorem state_abstraction {act1 act2 : List Nat} {cl1 cl2 : Nat → List Nat} (w1 : WFC act1 cl1) (w2 : WFC act2 cl2) :
    StEqv act1 cl1 act2 cl2 ↔ (absState act1 cl1).Perm (absState act2 cl2) :=
  stEqv_iff_perm w1 w2

/-- **Determinism of average-linkage clustering under unambiguous minima.**  Two runs on the same `d0`, from
    well-formed equivalent states, with the same number of events, the second with an unambiguous minimum at every step
    (the first may be any run): the event lists agree position by position on (members of the merged cluster up to
    permutation, height), and the end states are equivalent and well formed. -/
theorem average_linkage_deterministic {d0 : Nat → Nat → Rat} {act1 act1' act2 act2' : List Nat}
    {cl1 cl1' cl2 cl2' : Nat → List Nat} {evs1 evs2 : List Ev}
    (r1 : AvgRun d0 act1 cl1 evs1 act1' cl1') (r2 : AvgRun d0 act2 cl2 evs2 act2' cl2')
    (u2 : Unamb d0 act2 cl2 evs2) (w1 : WFC act1 cl1) (w2 : WFC act2 cl2)
    (e : StEqv act1 cl1 act2 cl2) (hlen : evs1.length = evs2.length) :
    All2 EvSame evs1 evs2 ∧ StEqv act1' cl1' act2' cl2' ∧ WFC act1' cl1' ∧ WFC act2' cl2' := by
  obtain ⟨h1, h2⟩ := avgRun_deterministic_one r1 r2 u2 w1 w2 e hlen
  exact ⟨h1, h2, r1.wfc w1, r2.wfc w2⟩

/-- ... with the member sets as sorted lists: the lists of (sorted members of the merged cluster, height) are EQUAL, in
    order -/
theorem average_linkage_deterministic_keys {d0 : Nat → Nat → Rat} {act1 act1' act2 act2' : List Nat}
    {cl1 cl1' cl2 cl2' : Nat → List Nat} {evs1 evs2 : List Ev}
    (r1 : AvgRun d0 act1 cl1 evs1 act1' cl1') (r2 : AvgRun d0 act2 cl2 evs2 act2' cl2')
    (u2 : Unamb d0 act2 cl2 evs2) (w1 : WFC act1 cl1) (w2 : WFC act2 cl2)
    (e : StEqv act1 cl1 act2 cl2) (hlen : evs1.length = evs2.length) :
    evs1.map evKey = evs2.map evKey :=
  avgRun_keys_eq r1 r2 u2 w1 w2 e hlen

/-- ... for complete runs (down to one cluster) the length hypothesis is not needed, and the final clusters have the
    same members -/
theorem average_linkage_deterministic_complete {d0 : Nat → Nat → Rat} {act1 act2 : List Nat}
    {cl1 cl1' cl2 cl2' : Nat → List Nat} {evs1 evs2 : List Ev} {k1 k2 : Nat}
    (r1 : AvgRun d0 act1 cl1 evs1 [k1] cl1') (r2 : AvgRun d0 act2 cl2 evs2 [k2] cl2')
    (u2 : Unamb d0 act2 cl2 evs2) (w1 : WFC act1 cl1) (w2 : WFC act2 cl2) (e : StEqv act1 cl1 act2 cl2) :
    All2 EvSame evs1 evs2 ∧ evs1.map evKey = evs2.map evKey ∧ (cl1' k1).Perm (cl2' k2) :=
  avgRun_deterministic_complete r1 r2 u2 w1 w2 e

/-- unambiguity is a property of the input, not of the run: if one run has an unambiguous minimum at every step, so has
    every run of the same length from an equivalent state -/
theorem unambiguity_is_of_the_input {d0 : Nat → Nat → Rat} {act1 act1' act2 act2' : List Nat}
    {cl1 cl1' cl2 cl2' : Nat → List Nat} {evs1 evs2 : List Ev}
    (r1 : AvgRun d0 act1 cl1 evs1 act1' cl1') (r2 : AvgRun d0 act2 cl2 evs2 act2' cl2')
    (u2 : Unamb d0 act2 cl2 evs2) (w1 : WFC act1 cl1) (w2 : WFC act2 cl2)
    (e : StEqv act1 cl1 act2 cl2) (hlen : evs1.length = evs2.length) : Unamb d0 act1 cl1 evs1 :=
  unamb_of_one r1 r2 u2 w1 w2 e hlen

/-- **Taxon order.**  `σ` permutes `0 .. n-1`; a complete run on the reordered matrix `fun i j => d0 (σ i) (σ j)` and a
    complete run on `d0`, both from the singletons, one of the two unambiguous: the `i`-th merge of the first, its member
    set mapped through `σ`, is the `i`-th merge of the second, at the same height. -/
theorem taxon_order_invariant (d0 : Nat → Nat → Rat) {n : Nat} {σ : Nat → Nat} (hσ : IsPermOf n σ)
    {evs evs' : List Ev} {k k' : Nat} {cl cl' : Nat → List Nat}
    (r : AvgRun d0 (List.range n) (fun i => [i]) evs [k] cl)
    (r' : AvgRun (reorder d0 σ) (List.range n) (fun i => [i]) evs' [k'] cl')
    (u : Unamb d0 (List.range n) (fun i => [i]) evs ∨ Unamb (reorder d0 σ) (List.range n) (fun i => [i]) evs') :
    All2 (EvSameVia σ) evs' evs :=
  taxon_order_invariance d0 hσ r r' u

/-- ... in the form: complete runs from the singletons over index lists that are permutations of each other agree -/
theorem taxon_order_invariant_index_lists {d0 : Nat → Nat → Rat} {act1 act2 : List Nat} (hp : act1.Perm act2)
    (hn : act1.Nodup) {evs1 evs2 : List Ev} {k1 k2 : Nat} {cl1 cl2 : Nat → List Nat}
    (r1 : AvgRun d0 act1 (fun i => [i]) evs1 [k1] cl1) (r2 : AvgRun d0 act2 (fun i => [i]) evs2 [k2] cl2)
    (u2 : Unamb d0 act2 (fun i => [i]) evs2) :
    All2 EvSame evs1 evs2 ∧ evs1.map evKey = evs2.map evKey ∧ (cl1 k1).Perm (cl2 k2) :=
  avgRun_singletons_perm hp hn r1 r2 u2

/-- **The executable UPGMA and the taxon order.**  `(taxa', v')` is the labelled matrix `(taxa, v)` in another taxon
    order (`Reordered`: `taxa'[i] = taxa[σ i]`, `d0of v' i j = d0of v (σ i) (σ j)`, `σ` a permutation of the positions);
    symmetric non-negative input on two or more taxa; the run the executable performs on ONE of the two presentations
    has an unambiguous minimum at every step.  Then `UPG.upgma` succeeds on both, its merge events agree position by
    position, and the two trees have the same internal nodes read as (set of leaf names below the node, height of the
    node above its leaves). -/
theorem upgma_taxon_order (taxa taxa' : List String) (v v' : Array Rat) (σ : Nat → Nat)
    (h2 : 2 ≤ taxa.length) (hv : v.size = T taxa.length) (hpos : ∀ k, k < v.size → 0 ≤ v.getD k 0)
    (hv' : v'.size = T taxa'.length) (hpos' : ∀ k, k < v'.size → 0 ≤ v'.getD k 0)
    (hr : Reordered taxa v taxa' v' σ)
    (hu : (∀ evs, upgmaTr taxa v = .ok evs → Unamb (d0of v) (List.range taxa.length) (fun i => [i]) evs) ∨
      (∀ evs', upgmaTr taxa' v' = .ok evs' → Unamb (d0of v') (List.range taxa'.length) (fun i => [i]) evs')) :
    ∃ t m tie dy t' m' tie' dy' evs evs', upgma taxa v = .ok (t, m, tie, dy) ∧ upgma taxa' v' = .ok (t', m', tie', dy') ∧
      upgmaTr taxa v = .ok evs ∧ upgmaTr taxa' v' = .ok evs' ∧ All2 (EvSameVia σ) evs' evs ∧
      InfoSub (nodeInfo t') (nodeInfo t) ∧ InfoSub (nodeInfo t) (nodeInfo t') :=
  UPG.upgma_taxon_order taxa taxa' v v' σ h2 hv hpos hv' hpos' hr hu

/-- ... with the hypothesis on the input: some (equivalently: every) complete run of average-linkage clustering on
    `d0of v` has an unambiguous minimum at every step -/
theorem upgma_taxon_order_input (taxa taxa' : List String) (v v' : Array Rat) (σ : Nat → Nat)
    (h2 : 2 ≤ taxa.length) (hv : v.size = T taxa.length) (hpos : ∀ k, k < v.size → 0 ≤ v.getD k 0)
    (hv' : v'.size = T taxa'.length) (hpos' : ∀ k, k < v'.size → 0 ≤ v'.getD k 0)
    (hr : Reordered taxa v taxa' v' σ) (hu : UnambInput (d0of v) taxa.length) :
    ∃ t m tie dy t' m' tie' dy', upgma taxa v = .ok (t, m, tie, dy) ∧ upgma taxa' v' = .ok (t', m', tie', dy') ∧
      InfoSub (nodeInfo t') (nodeInfo t) ∧ InfoSub (nodeInfo t) (nodeInfo t') :=
  UPG.upgma_taxon_order_input taxa taxa' v v' σ h2 hv hpos hv' hpos' hr hu

/-- the `tie` flag certifies the hypothesis: if `UPG.upgma` returns with `tie = false` (no chosen minimum was held by more
    than one cell of the store), the run of average-linkage clustering it performed has an unambiguous minimum at every
    step -/
theorem tie_flag_certifies_unambiguous (taxa : List String) (v : Array Rat) (h2 : 2 ≤ taxa.length)
    (hv : v.size = T taxa.length) (hpos : ∀ k, k < v.size → 0 ≤ v.getD k 0) {t : URose} {m : Option Rat} {dy : Bool}
    (hup : upgma taxa v = .ok (t, m, false, dy)) {evs : List Ev} (htr : upgmaTr taxa v = .ok evs) :
    Unamb (d0of v) (List.range taxa.length) (fun i => [i]) evs :=
  upgma_tie_free_unamb taxa v h2 hv hpos hup htr

/-- ... hence: if `UPG.upgma` on `(taxa, v)` returns with `tie = false`, then on the same labelled matrix in any other taxon
    order it returns a tree with the same internal nodes (set of leaf names below the node, height), and the merge events
    agree position by position -/
theorem upgma_taxon_order_tie_free (taxa taxa' : List String) (v v' : Array Rat) (σ : Nat → Nat)
    (h2 : 2 ≤ taxa.length) (hv : v.size = T taxa.length) (hpos : ∀ k, k < v.size → 0 ≤ v.getD k 0)
    (hv' : v'.size = T taxa'.length) (hpos' : ∀ k, k < v'.size → 0 ≤ v'.getD k 0)
    (hr : Reordered taxa v taxa' v' σ) {t : URose} {m : Option Rat} {dy : Bool}
    (hup : upgma taxa v = .ok (t, m, false, dy)) :
    ∃ t' m' tie' dy' evs evs', upgma taxa' v' = .ok (t', m', tie', dy') ∧
      upgmaTr taxa v = .ok evs ∧ upgmaTr taxa' v' = .ok evs' ∧ All2 (EvSameVia σ) evs' evs ∧
      InfoSub (nodeInfo t') (nodeInfo t) ∧ InfoSub (nodeInfo t) (nodeInfo t') :=
  UPG.upgma_taxon_order_tie_free taxa taxa' v v' σ h2 hv hpos hv' hpos' hr hup

/-- non-vacuity of the determinism theorems: `UPG.dEx` (four taxa, `d(0,1) = 2`, `d(2,3) = 4`, all other distances `8`)
    has a complete run with an unambiguous minimum at every step -/
example : UnambInput dEx 4 := dEx_unamb

/-- non-vacuity of the taxon-order theorems: the matrix `a-b 2, a-c 4, b-c 4` in the orders `a, b, c` and `c, a, b`; each
    minimum is unambiguous; the executable returns with `tie = false` -/
example : Reordered ["a", "b", "c"] #[2, 4, 4] ["c", "a", "b"] #[4, 4, 2] rot3 ∧ UnambInput (d0of #[2, 4, 4]) 3 ∧
    ∃ t m dy, upgma ["a", "b", "c"] #[2, 4, 4] = .ok (t, m, false, dy) :=
  ⟨ex_reordered, ex_unamb_input, tieFree_spec (by decide +kernel)⟩

end C15
