import PhyloModel.Props.C02
import PhyloModel.Props.C14
import PhyloModel.Props.C17
import PhyloModel.Props.C08
import PhyloModel.Props.C15
import PhyloModel.Props.C18
import PhyloModel.Props.C03
import PhyloModel.Arena.DepthBound
import PhyloModel.Arena.PruneBTop
import PhyloModel.Arena.ResetTop
/-! # C20 — failures are reported as errors, never as panics or hangs

In the model every partial operation of the Rust code (unwrap, index, checked arithmetic, `unreachable!`) is an
explicit `.panic` outcome, and unbounded recursion is running out of fuel (`none` / `.diverge`).  This file
collects, per function family, the theorems that no such outcome is reachable: the parser (all strings), the
Phylip parsers (all texts), the generators (all oracles, n ≥ 1 iterations), the recursive arena functions
(termination under the forest invariant `Inv` — which has no single-root clause — from the depth bound
`depth < size`), and the read-only arena queries (no `.panic` constructor is reachable for ANY arena, because
dead or out-of-range ids are tested before use).  The cross product of every public function with every
class of degenerate value is executed on the real crate on every run, each call isolated.
Not exhibitable by the model: stack exhaustion on extremely deep trees, allocation failure for absurd sizes. -/
namespace C20
open AR

def QR.isPanic {α : Type} : QR α → Bool
  | .panic => true
  | _ => false

@[simp] theorem isPanic_ok {α : Type} (v : α) : QR.isPanic (QR.ok v) = false := rfl
@[simp] theorem isPanic_err {α : Type} (k : String) : QR.isPanic (QR.err k : QR α) = false := rfl
@[simp] theorem isPanic_bind {α β : Type} (x : QR α) (f : α → QR β) :
    QR.isPanic (x >>= f) = (QR.isPanic x || match x with | .ok v => QR.isPanic (f v) | _ => false) := by
  cases x <;> simp [QR.isPanic, bind]
@[simp] theorem isPanic_ofOpt {α : Type} (o : Option α) (k : String) : QR.isPanic (QR.ofOpt o k) = false := by
  cases o <;> simp [QR.ofOpt]
@[simp] theorem isPanic_pure {α : Type} (v : α) : QR.isPanic (pure v : QR α) = false := rfl

/-- the Newick parser never panics, for every string (from C02) -/
theorem parser_never_panics {L : Type} (parseLen : NW.Label → Option L) (cs : List Char) :
    NW.parse parseLen cs ≠ .panic := (C02.parse_total_wf parseLen cs).1

/-- the triangular Phylip parser never panics, for every text (from C14) -/
theorem phylip_tril_never_panics {L : Type} [Inhabited L] (cd : PHY.Codec L) (text : PHY.Text) :
    PHY.fromPhylipTril cd text ≠ .panic := C14.tril_total cd text

/-- the generator loops never fail, for every outcome of the random choices (from C17) -/
theorem generators_never_fail (bs : List Bool) : ∃ s, GEN.runG GEN.init bs = some s := by
  obtain ⟨s, h, _⟩ := C17.ete3_valid bs
  exact ⟨s, h⟩

/-- recursive `prune` terminates with the model's fuel on every well-formed arena (forest invariant) -/
theorem prune_terminates (a : Arena) (hinv : Inv a) (ht : Tomb a) (x : Nat) (hl : live a x) :
    ∃ a', pruneF (fuelOf a) a x = some a' := by
  obtain ⟨a', h, _⟩ := prune_main2 (fuelOf a) a.size a x hinv ht hl (depth_le_size hinv) (by unfold fuelOf; omega)
  exact ⟨a', h⟩

/-- `reset_depth_impl` terminates with the model's fuel on every well-formed arena -/
theorem reset_terminates (a : Arena) (hinv : Inv a) (x d : Nat) (hl : live a x) :
    ∃ a', resetF (fuelOf a) a x d = some a' := by
  obtain ⟨a', h, _⟩ := reset_main (fuelOf a) a.size (fun i => (nd a i).depth) a x d hinv.toW hl
    (depth_le_size hinv) (by unfold fuelOf; omega)
  exact ⟨a', h⟩

/-- the path / ancestor / distance queries never panic, for ANY arena and ANY ids (dead, removed, out of
    range, different components): every failure is an `err` -/
theorem path_queries_never_panic (a : Arena) (s t : Nat) :
    QR.isPanic (pathFromRoot a s) = false ∧ QR.isPanic (commonAncestor a s t) = false ∧
    QR.isPanic (distance a s t) = false := by
  have h1 : ∀ x, QR.isPanic (pathFromRoot a x) = false := fun x => by simp [pathFromRoot]
  refine ⟨h1 s, ?_, ?_⟩
  · unfold commonAncestor
    split
    · rfl
    · simp only [isPanic_bind, h1, Bool.false_or]
      cases pathFromRoot a s with
      | ok ps =>
        simp only
        cases pathFromRoot a t with
        | ok pt => simp only; split <;> rfl
        | err k => rfl
        | panic => rfl
      | err k => rfl
      | panic => rfl
  · unfold distance
    split
    · rfl
    · simp only [isPanic_bind, h1, Bool.false_or]
      cases pathFromRoot a s with
      | ok ps =>
        simp only
        cases pathFromRoot a t with
        | ok pt => rfl
        | err k => rfl
        | panic => rfl
      | err k => rfl
      | panic => rfl

/-- root and rootedness queries never panic, for any arena (empty, all removed, several roots) -/
theorem root_queries_never_panic (a : Arena) :
    QR.isPanic (root a) = false ∧ QR.isPanic (isRooted a) = false := by
  have h1 : QR.isPanic (root a) = false := by simp [root]
  refine ⟨h1, ?_⟩
  unfold isRooted
  simp only [isPanic_bind, h1, Bool.false_or]
  cases root a <;> rfl

/-- the traversals never panic, for any arena and any start id -/
theorem traversals_never_panic (a : Arena) (x : Nat) :
    QR.isPanic (subtree a x) = false ∧ QR.isPanic (postorder a x) = false ∧
    QR.isPanic (levelorderQ a x) = false := by
  simp [subtree, postorder, levelorderQ]

/-- the strict Phylip parser never panics either, for every text and both layouts — the positional fill never indexes
    outside the triangular vector (from C14) -/
theorem phylip_strict_never_panics {L : Type} [Inhabited L] (cd : PHY.Codec L) (text : PHY.Text) (square : Bool) :
    PHY.fromPhylipStrict cd text square ≠ .panic := C14.strict_total cd text square

/-- the fast distance matrix on ANY well-formed arena (forest invariant: several roots, removed slots, unnamed or
    repeated leaf names, missing lengths, an emptied arena) answers `UnnamedLeaves`, `RootNotFound` or a matrix: the
    `unwrap` of the cache lookups, the missing-cache error and the index computation are unreachable (from C08) -/
theorem distance_matrix_total (a : Arena) (unit : Int) (hinv : Inv a) :
    (DMF.dmFast a unit = .err "UnnamedLeaves" ∧ ∃ l ∈ leaves a, (nd a l).name = none) ∨
    (DMF.dmFast a unit = .err "RootNotFound" ∧ getRoot a = none ∧ ∀ i, ¬ live a i) ∨
    (∃ names cells, DMF.dmFast a unit = .ok (names, cells)) :=
  C08.dm_fast_total a unit hinv

/-- one iteration of the UPGMA loop on a well-formed state with two or more live clusters cannot fail: the minimum
    search finds a finite cell whose two indices are live (from C15) -/
theorem upgma_step_total {n : Nat} {st : UPG.St} {mem : Nat → List Nat} (h : UPG.WFSt n st mem)
    (h2 : 2 ≤ (UPG.actOf n st).length) : ∃ st', UPG.step st = .ok st' :=
  C15.step_total h h2

/-- ... and `upgma` on every non-negative matrix on two or more taxa returns a tree (from C15) -/
theorem upgma_total (taxa : List String) (v : Array Rat) (h2 : 2 ≤ taxa.length) (hv : v.size = Tri.T taxa.length)
    (hpos : ∀ k, k < v.size → 0 ≤ v.getD k 0) : ∃ r, UPG.upgma taxa v = .ok r :=
  (UPG.upgma_ok_nonneg taxa v h2 hv hpos).1

/-- EVERY editing operation of the model with ARBITRARY arguments (removed or out-of-range ids, equal arguments,
    non-siblings, ill-formed oracles) on a well-formed arena terminates — the recursion fuel is never exhausted — and
    leaves a well-formed arena, whether it succeeds or returns an error (from C03) -/
theorem edits_total (a : Arena) (op : Op) (g : Good a) :
    (applyOp a op).2 ≠ .diverge ∧ Good (applyOp a op).1 :=
  ⟨(applyOp_good op g).2, (applyOp_good op g).1⟩

/-- the command-line `collapse` on a well-formed arena with a root always ends with a tree (from C18) -/
theorem cli_collapse_total {a : Arena} (g : Good a) {r : Nat} (hr : getRoot a = some r) (thr : Int) (ex : Bool) :
    ∃ a', cliCollapse a thr ex = .ok a' := by
  obtain ⟨a', h, _⟩ := C18.collapse_whole_loop g hr thr ex
  exact ⟨a', h⟩

end C20
