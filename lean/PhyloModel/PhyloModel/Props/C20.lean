import PhyloModel.Props.C02
import PhyloModel.Props.C14
import PhyloModel.Props.C17
import PhyloModel.Arena.DepthBound
import PhyloModel.Arena.PruneBTop
import PhyloModel.Arena.ResetTop
/-! # C20 — failures are reported as errors, never as panics or hangs

In the model every partial operation of the Rust code (unwrap, index, checked arithmetic, `unreachable!`) is an
explicit `.panic` outcome, and unbounded recursion is running out of fuel (`none` / `.diverge`).  This file
collects, per function family, the theorems that no such outcome is reachable: the parser (all strings), the
Phylip parsers (all texts), the generators (all oracles, n ≥ 1 iterations), the recursive arena functions
(termination under the forest invariant `Inv` — which has no single-root clause — from the depth bound
`depth < size`), and the read-only arena queries (no `.panic` constructor is reachable for ANY arena, because
dead or out-of-range ids are tested before use).  The cross product of every public function with every
class of degenerate value is executed on the real crate on every run, each call isolated.
Not exhibitable by the model: stack exhaustion on extremely deep trees, allocation failure for absurd sizes. -/
namespace C20
open AR

def QR.isPanic {α : Type} : QR α → Bool
  | .panic => true
  | _ => false

@[simp] theorem isPanic_ok {α : Type} (v : α) : QR.isPanic (QR.ok v) = false := rfl
@[simp] theorem isPanic_err {α : Type} (k : String) : QR.isPanic (QR.err k : QR α) = false := rfl
@[simp] theorem isPanic_bind {α β : Type} (x : QR α) (f : α → QR β) :
    QR.isPanic (x >>= f) = (QR.isPanic x || match x with | .ok v => QR.isPanic (f v) | _ => false) := by
  cases x <;> simp [QR.isPanic, bind]
@[simp] theorem isPanic_ofOpt {α : Type} (o : Option α) (k : String) : QR.isPanic (QR.ofOpt o k) = false := by
  cases o <;> simp [QR.ofOpt]
@[simp] theorem isPanic_pure {α : Type} (v : α) : QR.isPanic (pure v : QR α) = false := rfl

/-- the Newick parser never panics, for every string (from C02) -/
theorem parser_never_panics {L : Type} (parseLen : NW.Label → Option L) (cs : List Char) :
    NW.parse parseLen cs ≠ .panic := (C02.parse_total_wf parseLen cs).1

/-- the triangular Phylip parser never panics, for every text (from C14) -/
theorem phylip_tril_never_panics {L : Type} [Inhabited L] (cd : PHY.Codec L) (text : PHY.Text) :
    PHY.fromPhylipTril cd text ≠ .panic := C14.tril_total cd text

/-- the generator loops never fail, for every outcome of the random choices (from C17) -/
theorem generators_never_fail (bs : List Bool) : ∃ s, GEN.runG GEN.init bs = some s := by
  obtain ⟨s, h, _⟩ := C17.ete3_valid bs
  exact ⟨s, h⟩

/-- recursive `prune` terminates with the model's fuel on every well-formed arena (forest invariant) -/
theorem prune_terminates (a : Arena) (hinv : Inv a) (ht : Tomb a) (x : Nat) (hl : live a x) :
    ∃ a', pruneF (fuelOf a) a x = some a' := by
  obtain ⟨a', h, _⟩ := prune_main2 (fuelOf a) a.size a x hinv ht hl (depth_le_size hinv) (by unfold fuelOf; omega)
  exact ⟨a', h⟩

/-- `reset_depth_impl` terminates with the model's fuel on every well-formed arena -/
theorem reset_terminates (a : Arena) (hinv : Inv a) (x d : Nat) (hl : live a x) :
    ∃ a', resetF (fuelOf a) a x d = some a' := by
  obtain ⟨a', h, _⟩ := reset_main (fuelOf a) a.size (fun i => (nd a i).depth) a x d hinv.toW hl
    (depth_le_size hinv) (by unfold fuelOf; omega)
  exact ⟨a', h⟩

/-- the path / ancestor / distance queries never panic, for ANY arena and ANY ids (dead, removed, out of
    range, different components): every failure is an `err` -/
theorem path_queries_never_panic (a : Arena) (s t : Nat) :
    QR.isPanic (pathFromRoot a s) = false ∧ QR.isPanic (commonAncestor a s t) = false ∧
    QR.isPanic (distance a s t) = false := by
  have h1 : ∀ x, QR.isPanic (pathFromRoot a x) = false := fun x => by simp [pathFromRoot]
  refine ⟨h1 s, ?_, ?_⟩
  · unfold commonAncestor
    split
    · rfl
    · simp only [isPanic_bind, h1, Bool.false_or]
      cases pathFromRoot a s with
      | ok ps =>
        simp only
        cases pathFromRoot a t with
        | ok pt => simp only; split <;> rfl
        | err k => rfl
        | panic => rfl
      | err k => rfl
      | panic => rfl
  · unfold distance
    split
    · rfl
    · simp only [isPanic_bind, h1, Bool.false_or]
      cases pathFromRoot a s with
      | ok ps =>
        simp only
        cases pathFromRoot a t with
        | ok pt => rfl
        | err k => rfl
        | panic => rfl
      | err k => rfl
      | panic => rfl

/-- root and rootedness queries never panic, for any arena (empty, all removed, several roots) -/
theorem root_queries_never_panic (a : Arena) :
    QR.isPanic (root a) = false ∧ QR.isPanic (isRooted a) = false := by
  have h1 : QR.isPanic (root a) = false := by simp [root]
  refine ⟨h1, ?_⟩
  unfold isRooted
  simp only [isPanic_bind, h1, Bool.false_or]
  cases root a <;> rfl

/-- the traversals never panic, for any arena and any start id -/
theorem traversals_never_panic (a : Arena) (x : Nat) :
    QR.isPanic (subtree a x) = false ∧ QR.isPanic (postorder a x) = false ∧
    QR.isPanic (levelorderQ a x) = false := by
  simp [subtree, postorder, levelorderQ]

end C20
