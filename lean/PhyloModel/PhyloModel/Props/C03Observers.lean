import PhyloModel.Props.C03
import PhyloModel.Arena.QueryMoreRefine
/-! # C03 (continued) — the invariant as seen through the public observers of `Node`

C03 names its observation points in terms of the crate's API: `Node::get_child_edge`, `Node::is_root`,
`Node::is_tip`, `Node::get_depth` (models: `Arena/QueryMore.lean`).  The theorems below restate the clauses of
the arena invariant `AR.Inv` for these observers, for any arena satisfying it and hence
(`observers_after_every_history`) after every edit history. -/
namespace C03
open AR

/-- **the two records of a branch length agree**: for every node `p` of the tree and every child `c` it lists,
    `p.get_child_edge(c)` is the `parent_edge` recorded on `c` (both absent, or both the same number) -/
theorem child_edge_agrees_with_parent_edge {a : Arena} (hinv : Inv a) {p c : Nat} (hp : live a p)
    (hc : c ∈ (nd a p).children) : getChildEdge a p c = (nd a c).pedge :=
  getChildEdge_child hinv hp hc

/-- the same seen from the child: the node a live node names as its parent reports the child's `parent_edge` -/
theorem child_edge_seen_from_child {a : Arena} (hinv : Inv a) {i p : Nat} (hl : live a i)
    (hp : (nd a i).parent = some p) : getChildEdge a p i = (nd a i).pedge :=
  getChildEdge_parent hinv hl hp

/-- the parent-side table has no stale entries: `get_child_edge` answers `Some` only for a current child, and
    `None` for everything that is not a child -/
theorem child_edge_only_for_children {a : Arena} (hinv : Inv a) (p c : Nat) :
    (∀ v, getChildEdge a p c = some v → c ∈ (nd a p).children) ∧
    (c ∉ (nd a p).children → getChildEdge a p c = none) :=
  ⟨fun _ h => getChildEdge_some_child hinv h, fun h => getChildEdge_not_child hinv h⟩

/-- `is_root` is "has no parent"; on a well-formed arena with one root it holds, among the nodes of the tree,
    exactly for the node `get_root` returns -/
theorem is_root_iff_get_root {a : Arena} (g : Good a) (h1 : AtMostOneRoot a) {i : Nat} (hl : live a i) :
    (isRootNode a i = true ↔ (nd a i).parent = none) ∧ (isRootNode a i = true ↔ root a = .ok i) :=
  ⟨isRootNode_iff a i, isRootNode_iff_root g h1 hl⟩

/-- `is_tip` is "has no children"; among the nodes of the tree it holds exactly for those `get_leaves` lists -/
theorem is_tip_iff_listed_leaf (a : Arena) {i : Nat} (hl : live a i) :
    (isTip a i = true ↔ (nd a i).children = []) ∧ (isTip a i = true ↔ i ∈ leaves a) :=
  ⟨isTip_iff a i, isTip_iff_leaf a hl⟩

/-- **`get_depth` counts the edges to the root**: the root path of a node of the tree — which is what
    `get_path_from_root` returns — has `get_depth + 1` nodes; a root has depth 0 and a child one more than its
    parent -/
theorem get_depth_counts_edges {a : Arena} (hinv : Inv a) (i : Nat) (hl : live a i) :
    (∃ l, Path a l i ∧ pathFromRoot a i = .ok l ∧ l.length = getDepth a i + 1) ∧
    (isRootNode a i = true → getDepth a i = 0) ∧
    (∀ c ∈ (nd a i).children, getDepth a c = getDepth a i + 1) :=
  ⟨getDepth_path hinv i hl, getDepth_root hinv hl, fun _ hc => getDepth_child hinv hl hc⟩

/-- with one root: every node of the tree lies exactly `get_depth` parent links below the node `get_root`
    returns (`BelowK a r i k`: `i` is reached from `r` by `k` child steps), and that number of levels is unique -/
theorem get_depth_levels_below_root {a : Arena} (g : Good a) (h1 : AtMostOneRoot a) (i : Nat) (hl : live a i) :
    ∃ r, root a = .ok r ∧ BelowK a r i (getDepth a i) ∧ ∀ k, BelowK a r i k → k = getDepth a i := by
  obtain ⟨r, hr, hb⟩ := getDepth_levels g h1 i hl
  exact ⟨r, hr, hb, fun k hk => BelowK.level_unique g.1.toW hk hb⟩

/-- `tree.get(id)` followed by the observers answers for exactly the nodes of the tree; removed and
    never-allocated ids are refused (`NodeNotFound`) -/
theorem observers_need_a_live_node (a : Arena) (i c : Nat) :
    (live a i → nodeInfo a i = .ok (isTip a i, isRootNode a i, getDepth a i) ∧
      childEdgeQ a i c = .ok (getChildEdge a i c)) ∧
    (¬ live a i → nodeInfo a i = .err "NodeNotFound" ∧ childEdgeQ a i c = .err "NodeNotFound") :=
  ⟨fun h => ⟨nodeInfo_live h, childEdgeQ_live c h⟩, fun h => ⟨nodeInfo_dead h, childEdgeQ_dead c h⟩⟩

/-- **after every history** (any sequence of operations with arbitrary arguments, from the empty arena): for
    every node `p` of the tree and every child `c` it lists, the branch length `p` reports for `c` is the one
    recorded on `c`, `c` is one level deeper than `p`, and the depth of `p` is its number of edges to the root -/
theorem observers_after_every_history (ops : List Op) (p : Nat) (hp : live (runOps #[] ops) p) :
    let a := runOps #[] ops
    (∀ c ∈ (nd a p).children, getChildEdge a p c = (nd a c).pedge ∧ getDepth a c = getDepth a p + 1) ∧
    (∀ c v, getChildEdge a p c = some v → c ∈ (nd a p).children) ∧
    (∃ l, Path a l p ∧ pathFromRoot a p = .ok l ∧ l.length = getDepth a p + 1) := by
  intro a
  have hinv : Inv a := (every_history ops).1
  exact ⟨fun c hc => ⟨getChildEdge_child hinv hp hc, getDepth_child hinv hp hc⟩,
    fun c _ h => getChildEdge_some_child hinv h, getDepth_path hinv p hp⟩

/-! ### non-vacuity -/

/-- a history with a removal and a regrouping: root 0, a pruned child, tips `x` (length 3) and `y` (no
    length) merged under a new node with lengths 1 and 2 -/
def exObs : Arena := runOps #[] [.add none, .addChild 0 (some 9) (some "z"), .prune 1,
  .addChild 0 (some 3) (some "x"), .addChild 0 none (some "y"), .addChild 0 (some 5) (some "w"),
  .merge 2 3 (some 1) (some 2) (some 7) none]

/-- the hypotheses hold for node 5 (the new inner node, a child of the root) and the observers return the
    expected values: it is neither tip nor root, has depth 1, reports lengths 1 and 2 for its children 2 and 3
    (equal to their `parent_edge`), and nothing for the removed slot 1 or for its own parent -/
example : live exObs 5 ∧ (nd exObs 5).children = [2, 3] ∧
    nodeInfo exObs 5 = .ok (false, false, 1) ∧ nodeInfo exObs 1 = .err "NodeNotFound" ∧
    getChildEdge exObs 5 2 = some 1 ∧ (nd exObs 2).pedge = some 1 ∧
    getChildEdge exObs 5 3 = (nd exObs 3).pedge ∧ getChildEdge exObs 5 1 = none ∧ getChildEdge exObs 5 0 = none ∧
    getChildEdge exObs 0 5 = some 7 ∧ getDepth exObs 2 = 2 ∧ isRootNode exObs 0 = true ∧ isTip exObs 2 = true := by
  have hl : live exObs 5 := (isLive_iff _ _).1 (by decide)
  have hd : ¬ live exObs 1 := fun h => absurd ((isLive_iff _ _).2 h) (by decide)
  have hk : (nd exObs 5).children = [2, 3] := by decide
  obtain ⟨k1, _, _⟩ := observers_after_every_history _ 5 hl
  have m2 : 2 ∈ (nd exObs 5).children := by rw [hk]; simp
  have m3 : 3 ∈ (nd exObs 5).children := by rw [hk]; simp
  have e2 : getChildEdge exObs 5 2 = (nd exObs 2).pedge := (k1 2 m2).1
  have e3 : getChildEdge exObs 5 3 = (nd exObs 3).pedge := (k1 3 m3).1
  have hp2 : (nd exObs 2).pedge = some 1 := by decide
  refine ⟨hl, hk, ?_, nodeInfo_dead hd, e2.trans hp2, hp2, e3, by decide, by decide, by decide, by decide,
    by decide, by decide⟩
  rw [nodeInfo_live hl]
  have : (isTip exObs 5, isRootNode exObs 5, getDepth exObs 5) = (false, false, 1) := by decide
  rw [this]

end C03
