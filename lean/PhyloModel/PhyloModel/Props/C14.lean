import PhyloModel.Matrix.Phylip
import PhyloModel.Matrix.StoreLemmas
import PhyloModel.Matrix.PhylipRT
import PhyloModel.Matrix.PhylipRows
import PhyloModel.Matrix.PhylipTotal
import PhyloModel.Matrix.PhylipStrictRT
import PhyloModel.Matrix.PhylipStrictSym
import PhyloModel.Matrix.PhylipStrictAccept
/-! # C14 — Phylip round trip is lossless; the parsers are total and strict

`PHY.toPhylip`, `PHY.fromPhylipTril`, `PHY.fromPhylipStrict` mirror `to_phylip`, `from_phylip_tril`,
`from_phylip_strict` of the repaired crate on `List Char`, with `str::lines` / `str::split_whitespace` /
`usize::from_str` transcribed (`PH.lines`, `PH.splitWs`, `PHY.parseUsize`).  Entries are values of any type
with a codec (`showL`, `parseL`, `numEq`, `isZero`).  The cell-for-cell round trip is a theorem for the triangular layout read by
`from_phylip_tril` (`tril_roundtrip`, including the size line: `usize` `Display`/`FromStr` is proved from the
core library's digit lemmas, not assumed); for the square layout and for `from_phylip_strict` (which fills the
matrix through the by-name `get`/`set`) it is decided on every run by the bit-exact correspondence and the
round-trip oracle (f32 and f64, both layouts, three entry points).  The hypothesis "taxon names are non-empty
words" is forced by the proof; the real code was run at the excluded point (an empty name) and fails there: a
recorded known finding. -/
namespace C14
open PHY MXS MX Tri

variable {L : Type} [Inhabited L] (cd : Codec L)

/-- strictness of the row loop, in the form used below -/
theorem strict_go (size : Nat) (square : Bool) :
    ∀ (ls : List Text) (i : Nat) (names : List String) (rows : List (List L)) (names' : List String)
      (rows' : List (List L)),
      names.length = i → rows.length = i →
      (∀ k (r : List L), rows[k]? = some r → (if square then r.length = size else r.length = k) ∧
          (square = true → cd.isZero (r.getD k default) = true)) →
      strictGo cd size square ls i names rows = .ok (names', rows') →
      names'.length = i + ls.length ∧ rows'.length = i + ls.length ∧ (ls ≠ [] → i + ls.length ≤ size) ∧
      (∀ k (r : List L), rows'[k]? = some r → (if square then r.length = size else r.length = k) ∧
          (square = true → cd.isZero (r.getD k default) = true)) :=
  PHY.strict_go cd size square

/-- **strictness**: a text accepted by the strict parser has exactly as many rows as its declared size, every
    row has exactly the required number of distances (`size` for square, the row number for triangular), and
    in the square layout the diagonal entries are zero -/
theorem strict_accepts_only_well_shaped (text : Text) (square : Bool) (m : Mat L)
    (h : fromPhylipStrict cd text square = .ok m) :
    ∃ (first : Text) (rest : List Text) (size : Nat) (names : List String) (rows : List (List L)),
      PH.lines text = first :: rest ∧ parseUsize first = some size ∧
      rest.length = size ∧ names.length = size ∧ rows.length = size ∧
      (∀ k (r : List L), rows[k]? = some r → (if square then r.length = size else r.length = k) ∧
          (square = true → cd.isZero (r.getD k default) = true)) := by
  unfold fromPhylipStrict at h
  split at h
  · cases h
  · next first rest hlines =>
    split at h
    · cases h
    · next size hsize =>
      split at h
      · next names rows hgo =>
        split at h
        · cases h
        · next hlen =>
          have := strict_go cd size square rest 0 [] [] names rows rfl rfl (by intro k r hk; simp at hk) hgo
          obtain ⟨h1, h2, _, h4⟩ := this
          have hlen' : names.length = size := by simpa using hlen
          exact ⟨first, rest, size, names, rows, hlines, hsize, by omega, hlen', by omega, h4⟩
      · cases h
      · cases h

theorem readRow_no_panic (row : Text) (limit : Nat) : readRow cd row limit ≠ .panic :=
  PHY.readRow_no_panic cd row limit

theorem trilGo_no_panic : ∀ (ls : List Text) (i : Nat) (taxa : List String) (vals : List L),
    trilGo cd ls i taxa vals ≠ .panic
  | [], _, _, _ => by simp [trilGo]
  | l :: ls, i, taxa, vals => by
    simp only [trilGo]
    split
    · split
      · simp
      · exact trilGo_no_panic ls _ _ _
    · simp
    · next h => exact absurd h (readRow_no_panic cd l i)

/-- **totality** of the triangular parser: for every text it returns a matrix or an error, never a panic -/
theorem tril_total (text : Text) : fromPhylipTril cd text ≠ .panic := by
  unfold fromPhylipTril
  split
  · simp
  · split
    · simp
    · split
      · split
        · simp
        · split <;> simp
      · simp
      · next h => exact absurd h (trilGo_no_panic cd _ _ _ _)

theorem strictGo_no_panic (size : Nat) (square : Bool) (ls : List Text) (i : Nat) (names : List String)
    (rows : List (List L)) : strictGo cd size square ls i names rows ≠ .panic :=
  PHY.strictGo_no_panic cd size square ls i names rows

/-- text without any line, or whose first line is not an unsigned integer, is rejected by every entry point -/
theorem header_required (text : Text) (square : Bool)
    (h : PH.lines text = [] ∨ ∃ f r, PH.lines text = f :: r ∧ parseUsize f = none) :
    (∃ k, fromPhylipStrict cd text square = .err k) ∧ (∃ k, fromPhylipTril cd text = .err k) := by
  rcases h with h | ⟨f, r, h1, h2⟩
  · exact ⟨⟨"EmptyMatrixFile", by simp [fromPhylipStrict, h]⟩, ⟨"EmptyMatrixFile", by simp [fromPhylipTril, h]⟩⟩
  · exact ⟨⟨"SizeParseError", by simp [fromPhylipStrict, h1, h2]⟩, ⟨"SizeParseError", by simp [fromPhylipTril, h1, h2]⟩⟩

/-- the string layer of the round trip: the writer's rows (non-empty whitespace-free fields joined by
    blanks) split back into exactly those fields, and its newline-terminated lines come back as lines -/
theorem row_fields_roundtrip (sep : List Char) (hsep : PH.Sep sep) (ws : List (List Char))
    (h : ∀ w ∈ ws, PH.Word w) : PH.splitWs (PH.joinSep sep ws) = ws :=
  PH.split_join sep hsep ws h

/-- `usize::from_str` accepts what `Display` for `usize` prints (decimal digits, no sign) -/
example : parseUsize "12".toList = some 12 ∧ parseUsize "+3".toList = some 3 ∧ parseUsize "-0".toList = none ∧
    parseUsize "".toList = none ∧ parseUsize "3 ".toList = none := by decide

/-- **triangular round trip**: writing any matrix whose taxon names are non-empty and whitespace-free in
    triangular form and reading it back with `from_phylip_tril` reproduces the taxa (same order) and every
    cell, for every entry type whose `Display`/`FromStr` pair satisfies the two codec laws (what is written
    parses back to the same value; what is written is a non-empty whitespace-free word) -/
theorem tril_roundtrip (hl : Laws cd) (m : Mat L) (hnames : ∀ nm ∈ m.taxa, PH.Word nm.toList)
    (hsz : m.v.size = T2 m.taxa.length) (hn : m.taxa.length < 2 ^ 64) :
    fromPhylipTril cd (toPhylip cd m false) = .ok m :=
  PHY.tril_roundtrip cd hl m hnames hsz hn

/-- the size line round-trips for every size a `usize` can hold -/
theorem size_line_roundtrip (n : Nat) (hn : n < 2 ^ 64) : parseUsize (toString n).toList = some n :=
  header_roundtrip n hn

/-- non-vacuity: a two-valued entry type whose codec satisfies both laws -/
example : Laws ({ showL := fun b => if b then ['1'] else ['0'],
                  parseL := fun t => if t = ['1'] then some true else if t = ['0'] then some false else none,
                  numEq := fun a b => a == b, isZero := fun b => !b, zero := false } : Codec Bool) := by
  constructor
  · intro x; cases x <;> simp
  · intro x; cases x <;> exact ⟨by simp, by intro c hc; simp at hc; subst hc; decide⟩


/-! ## C14, strict parser (positional fill) — totality, round trip in both layouts, symmetry clause

`from_phylip_strict(text, square)` (model `PHY.fromPhylipStrict`) fills the matrix cell by cell BY POSITION
(`PHY.fillCell` over `PHY.cellsOf rows`); row labels play no role in the fill, so nothing below assumes
that the names are pairwise different.

* `strict_total`: for EVERY text and both layouts the result is a matrix or an error; the indexing
  `matrix.matrix[idx]` is never out of range.
* `strict_roundtrip`: `from_phylip_strict (to_phylip m sq) sq = m` for both layouts when the names are
  non-empty and whitespace-free and (square layout only) every stored value equals itself (no NaN);
  `strict_roundtrip_tril`: the triangular layout needs only the two `Display`/`FromStr` laws.
* `strict_square_symmetric`, `strict_rejects_asymmetric`: an accepted square text is symmetric and has a
  zero diagonal, and the result stores exactly the parsed upper triangle; an asymmetric text is answered with an
  error.  `strict_accepts_iff`: the exact acceptance criterion. -/

open PHY MXS MX Tri

variable {L : Type} [Inhabited L] (cd : Codec L)

/-- **totality of the strict parser** -/
theorem strict_total (text : Text) (square : Bool) : fromPhylipStrict cd text square ≠ .panic :=
  PHY.strict_total cd text square

/-- **strict round trip, both layouts** (names may repeat) -/
theorem strict_roundtrip (hl : Laws2 cd) (m : Mat L) (square : Bool) (hnames : ∀ nm ∈ m.taxa, PH.Word nm.toList)
    (hsz : m.v.size = T2 m.taxa.length) (hn : m.taxa.length < 2 ^ 64)
    (hrefl : square = true → ∀ x ∈ m.v.toList, cd.numEq x x = true) :
    fromPhylipStrict cd (toPhylip cd m square) square = .ok m :=
  PHY.strict_roundtrip cd hl m square hnames hsz hn hrefl

/-- the triangular layout through the strict parser: no condition on the symmetry test or on zero -/
theorem strict_roundtrip_tril (hl : Laws cd) (m : Mat L) (hnames : ∀ nm ∈ m.taxa, PH.Word nm.toList)
    (hsz : m.v.size = T2 m.taxa.length) (hn : m.taxa.length < 2 ^ 64) :
    fromPhylipStrict cd (toPhylip cd m false) false = .ok m :=
  PHY.strict_roundtrip_tril cd hl m hnames hsz hn

/-- **strictness, symmetry clause**: every accepted square text -/
theorem strict_square_symmetric (text : Text) (m : Mat L) (h : fromPhylipStrict cd text true = .ok m) :
    ∃ (first : Text) (rest : List Text) (size : Nat),
      PH.lines text = first :: rest ∧ parseUsize first = some size ∧ rest.length = size ∧
      (∀ l ∈ rest, readRow cd l (size + 1) = .ok (parseLine cd size l)) ∧
      m.taxa = parsedNames cd size rest ∧ m.v.size = T2 size ∧
      (∀ i, i < size → ((parsedRows cd size rest).getD i []).length = size) ∧
      (∀ i, i < size → cd.isZero (entry (parsedRows cd size rest) i i) = true) ∧
      (∀ i j, i < j → j < size →
        cd.numEq (entry (parsedRows cd size rest) i j) (entry (parsedRows cd size rest) j i) = true) ∧
      (∀ i j, i < j → j < size → m.v.getD (cell i j) default = entry (parsedRows cd size rest) i j) :=
  PHY.strict_square_symmetric cd text m h

/-- every accepted triangular text: the result stores exactly the parsed rows -/
theorem strict_tril_stored (text : Text) (m : Mat L) (h : fromPhylipStrict cd text false = .ok m) :
    ∃ (first : Text) (rest : List Text) (size : Nat),
      PH.lines text = first :: rest ∧ parseUsize first = some size ∧ rest.length = size ∧
      (∀ l ∈ rest, readRow cd l (size + 1) = .ok (parseLine cd size l)) ∧
      m.taxa = parsedNames cd size rest ∧ m.v.size = T2 size ∧
      (∀ i, i < size → ((parsedRows cd size rest).getD i []).length = i) ∧
      (∀ i j, j < i → i < size → m.v.getD (cell i j) default = entry (parsedRows cd size rest) i j) :=
  PHY.strict_tril_stored cd text m h

/-- **asymmetric input is rejected** -/
theorem strict_rejects_asymmetric (text first : Text) (rest : List Text) (size : Nat)
    (hlines : PH.lines text = first :: rest) (hsize : parseUsize first = some size)
    (i j : Nat) (hij : i < j) (hj : j < size)
    (hasym : cd.numEq (entry (parsedRows cd size rest) i j) (entry (parsedRows cd size rest) j i) = false) :
    ∃ k, fromPhylipStrict cd text true = .err k :=
  PHY.strict_rejects_asymmetric cd text first rest size hlines hsize i j hij hj hasym

/-- **acceptance criterion**: exactly the well-shaped, zero-diagonal, symmetric texts are accepted -/
theorem strict_accepts_iff (text first : Text) (rest : List Text) (size : Nat) (square : Bool)
    (hlines : PH.lines text = first :: rest) (hsize : parseUsize first = some size) :
    (∃ m, fromPhylipStrict cd text square = .ok m) ↔
      rest.length = size ∧
      (∀ l ∈ rest, ∃ p, readRow cd l (size + 1) = .ok p) ∧
      (∀ k, k < size → ((parsedRows cd size rest).getD k []).length = if square then size else k) ∧
      (square = true →
        (∀ k, k < size → cd.isZero (entry (parsedRows cd size rest) k k) = true) ∧
        (∀ i j, i < j → j < size →
          cd.numEq (entry (parsedRows cd size rest) i j) (entry (parsedRows cd size rest) j i) = true)) :=
  PHY.strict_accepts_iff cd text first rest size square hlines hsize

/-! ### non-vacuity and sharpness of the hypotheses, on a two-valued entry type -/

def bc : Codec Bool := { showL := fun b => if b then ['1'] else ['0'], parseL := fun t => if t = ['1'] then some true else if t = ['0'] then some false else none, numEq := fun a b => a == b, isZero := fun b => !b, zero := false }

theorem bc_laws : Laws bc := by
  constructor
  · intro x; cases x <;> simp [bc]
  · intro x; cases x <;> exact ⟨by simp [bc], by intro c hc; simp [bc] at hc; subst hc; decide⟩

theorem bc_laws2 : Laws2 bc := ⟨bc_laws, rfl⟩

def m3 : Mat Bool := { taxa := ["a", "b", "c"], v := #[true, false, true] }
/-- a matrix with a repeated label -/
def mdup : Mat Bool := { taxa := ["a", "b", "a"], v := #[true, false, true] }

/-- what a result looks like (for `decide`) -/
def view (r : PRes (Mat Bool)) : Option (List String × List Bool) ⊕ String :=
  match r with
  | .ok m => .inl (some (m.taxa, m.v.toList))
  | .err k => .inr k
  | .panic => .inl none

/-- the hypotheses of `strict_roundtrip` hold for a three-taxon matrix with non-zero entries, and for one with
    a repeated label -/
example : Laws2 bc ∧ (∀ nm ∈ m3.taxa, PH.Word nm.toList) ∧ m3.v.size = T2 m3.taxa.length ∧
    m3.taxa.length < 2 ^ 64 ∧ (∀ x ∈ m3.v.toList, bc.numEq x x = true) ∧
    (∀ nm ∈ mdup.taxa, PH.Word nm.toList) ∧ mdup.v.size = T2 mdup.taxa.length := by
  refine ⟨bc_laws2, ?_, by decide, by decide, ?_, ?_, by decide⟩
  · intro nm h
    simp only [m3, List.mem_cons, List.not_mem_nil, or_false] at h
    rcases h with rfl | rfl | rfl <;> exact ⟨by decide, by decide⟩
  · intro x _; cases x <;> rfl
  · intro nm h
    simp only [mdup, List.mem_cons, List.not_mem_nil, or_false] at h
    rcases h with rfl | rfl | rfl <;> exact ⟨by decide, by decide⟩

/-- ... and the model computes the conclusion on them (both layouts): repeated labels round-trip -/
example : view (fromPhylipStrict bc (toPhylip bc m3 true) true) = .inl (some (m3.taxa, m3.v.toList)) ∧
    view (fromPhylipStrict bc (toPhylip bc m3 false) false) = .inl (some (m3.taxa, m3.v.toList)) ∧
    view (fromPhylipStrict bc (toPhylip bc mdup true) true) = .inl (some (mdup.taxa, mdup.v.toList)) ∧
    view (fromPhylipStrict bc (toPhylip bc mdup false) false) = .inl (some (mdup.taxa, mdup.v.toList)) := by
  decide

/-- the two-taxon matrix with twice the same label, which the by-name fill could not read back -/
def maa : Mat Bool := { taxa := ["a", "a"], v := #[true] }
example : view (fromPhylipStrict bc (toPhylip bc maa true) true) = .inl (some (["a", "a"], [true])) ∧
    view (fromPhylipStrict bc (toPhylip bc maa false) false) = .inl (some (["a", "a"], [true])) := by decide

/-- an accepted square text (hypothesis of `strict_square_symmetric`) -/
example : ∃ m, fromPhylipStrict bc "3\na 0 1 0\nb 1 0 1\nc 0 1 0\n".toList true = .ok m := by
  have hv : view (fromPhylipStrict bc "3\na 0 1 0\nb 1 0 1\nc 0 1 0\n".toList true)
      = .inl (some (["a", "b", "c"], [true, false, true])) := by decide
  cases hr : fromPhylipStrict bc "3\na 0 1 0\nb 1 0 1\nc 0 1 0\n".toList true with
  | ok m => exact ⟨m, rfl⟩
  | err k => rw [hr] at hv; simp [view] at hv
  | panic => rw [hr] at hv; simp [view] at hv

/-- the hypotheses of `strict_rejects_asymmetric` are satisfiable: `d(a,b) = 1` but `d(b,a) = 0` -/
example : PH.lines "2\na 0 1\nb 0 0\n".toList = "2".toList :: ["a 0 1".toList, "b 0 0".toList] ∧
    parseUsize "2".toList = some 2 ∧
    bc.numEq (entry (parsedRows bc 2 ["a 0 1".toList, "b 0 0".toList]) 0 1)
      (entry (parsedRows bc 2 ["a 0 1".toList, "b 0 0".toList]) 1 0) = false := by decide

example : view (fromPhylipStrict bc "2\na 0 1\nb 0 0\n".toList true) = .inr "NonSymmetric" := by decide

/-- the asymmetric text with the labels `a b a` that the by-name fill used to accept (entry (1,2) is 1, entry
    (2,1) is 0) is now rejected; its symmetric variant is accepted -/
example : view (fromPhylipStrict bc "3\na 0 1 0\nb 1 0 1\na 0 0 0\n".toList true) = .inr "NonSymmetric" ∧
    view (fromPhylipStrict bc "3\na 0 1 0\nb 1 0 1\na 0 1 0\n".toList true)
      = .inl (some (["a", "b", "a"], [true, false, true])) := by decide

/-- direction of the symmetry test: the stored entry above the diagonal is the FIRST argument.  With the test
    `numEq a b := a || !b`, upper 1 / lower 0 is accepted and upper 0 / lower 1 is rejected -/
def bd : Codec Bool := { bc with numEq := fun a b => a || !b }
example : view (fromPhylipStrict bd "2\na 0 1\nb 0 0\n".toList true) = .inl (some (["a", "b"], [true])) ∧
    view (fromPhylipStrict bd "2\na 0 0\nb 1 0\n".toList true) = .inr "NonSymmetric" := by decide

/-- necessity of "every value equals itself" for the square layout: with a symmetry test that fails on equal
    values (NaN) the square round trip is rejected, the triangular one is not -/
def bn : Codec Bool := { bc with numEq := fun _ _ => false }
example : view (fromPhylipStrict bn (toPhylip bn m3 true) true) = .inr "NonSymmetric" ∧
    view (fromPhylipStrict bn (toPhylip bn m3 false) false) = .inl (some (m3.taxa, m3.v.toList)) := by decide

end C14
