import PhyloModel.Matrix.Phylip
import PhyloModel.Matrix.StoreLemmas
import PhyloModel.Matrix.PhylipRT
/-! # C14 — Phylip round trip is lossless; the parsers are total and strict

`PHY.toPhylip`, `PHY.fromPhylipTril`, `PHY.fromPhylipStrict` mirror `to_phylip`, `from_phylip_tril`,
`from_phylip_strict` of the repaired crate on `List Char`, with `str::lines` / `str::split_whitespace` /
`usize::from_str` transcribed (`PH.lines`, `PH.splitWs`, `PHY.parseUsize`).  Entries are values of any type
with a codec (`showL`, `parseL`, `numEq`, `isZero`).  The cell-for-cell round trip is a theorem for the triangular layout read by
`from_phylip_tril` (`tril_roundtrip`, including the size line: `usize` `Display`/`FromStr` is proved from the
core library's digit lemmas, not assumed); for the square layout and for `from_phylip_strict` (which fills the
matrix through the by-name `get`/`set`) it is decided on every run by the bit-exact correspondence and the
round-trip oracle (f32 and f64, both layouts, three entry points).  The hypothesis "taxon names are non-empty
words" is forced by the proof; the real code was run at the excluded point (an empty name) and fails there: a
recorded known finding. -/
namespace C14
open PHY MXS MX Tri

variable {L : Type} [Inhabited L] (cd : Codec L)

/-- strictness of the row loop, in the form used below -/
theorem strict_go (size : Nat) (square : Bool) :
    ∀ (ls : List Text) (i : Nat) (names : List String) (rows : List (List L)) (names' : List String)
      (rows' : List (List L)),
      names.length = i → rows.length = i →
      (∀ k (r : List L), rows[k]? = some r → (if square then r.length = size else r.length = k) ∧
          (square = true → cd.isZero (r.getD k default) = true)) →
      strictGo cd size square ls i names rows = .ok (names', rows') →
      names'.length = i + ls.length ∧ rows'.length = i + ls.length ∧ (ls ≠ [] → i + ls.length ≤ size) ∧
      (∀ k (r : List L), rows'[k]? = some r → (if square then r.length = size else r.length = k) ∧
          (square = true → cd.isZero (r.getD k default) = true)) := by
  intro ls
  induction ls with
  | nil =>
    intro i names rows names' rows' hn hr hrows h
    simp only [strictGo, PRes.ok.injEq, Prod.mk.injEq] at h
    obtain ⟨rfl, rfl⟩ := h
    exact ⟨by simpa using hn, by simpa using hr, by simp, hrows⟩
  | cons l ls ih =>
    intro i names rows names' rows' hn hr hrows h
    simp only [strictGo] at h
    split at h
    · cases h
    · next hlt =>
      split at h
      · next name ds hrow =>
        split at h
        · cases h
        · next hlen =>
          split at h
          · cases h
          · next hdiag =>
            have hlen' : (if square then ds.length = size else ds.length = i) := by
              cases square <;> simp_all
            have := ih (i + 1) (names ++ [String.ofList name]) (rows ++ [ds]) names' rows'
              (by simp [hn]) (by simp [hr])
              (by
                intro k r hk
                by_cases hki : k < rows.length
                · rw [List.getElem?_append_left hki] at hk; exact hrows k r hk
                · have hk' : k = rows.length := by
                    have := List.getElem?_eq_some_iff.mp hk
                    obtain ⟨hb, _⟩ := this
                    simp at hb; omega
                  subst hk'
                  simp at hk; subst hk
                  rw [hr]
                  refine ⟨hlen', ?_⟩
                  intro hsq; subst hsq
                  simpa using hdiag)
              h
            obtain ⟨h1, h2, h3, h4⟩ := this
            refine ⟨by simp at h1 ⊢; omega, by simp at h2 ⊢; omega, ?_, h4⟩
            intro _
            by_cases hls : ls = []
            · subst hls; simp; omega
            · have := h3 hls; simp; omega
      · cases h
      · cases h

/-- **strictness**: a text accepted by the strict parser has exactly as many rows as its declared size, every
    row has exactly the required number of distances (`size` for square, the row number for triangular), and
    in the square layout the diagonal entries are zero -/
theorem strict_accepts_only_well_shaped (text : Text) (square : Bool) (m : Mat L)
    (h : fromPhylipStrict cd text square = .ok m) :
    ∃ (first : Text) (rest : List Text) (size : Nat) (names : List String) (rows : List (List L)),
      PH.lines text = first :: rest ∧ parseUsize first = some size ∧
      rest.length = size ∧ names.length = size ∧ rows.length = size ∧
      (∀ k (r : List L), rows[k]? = some r → (if square then r.length = size else r.length = k) ∧
          (square = true → cd.isZero (r.getD k default) = true)) := by
  unfold fromPhylipStrict at h
  split at h
  · cases h
  · next first rest hlines =>
    split at h
    · cases h
    · next size hsize =>
      split at h
      · next names rows hgo =>
        split at h
        · cases h
        · next hlen =>
          have := strict_go cd size square rest 0 [] [] names rows rfl rfl (by intro k r hk; simp at hk) hgo
          obtain ⟨h1, h2, _, h4⟩ := this
          have hlen' : names.length = size := by simpa using hlen
          exact ⟨first, rest, size, names, rows, hlines, hsize, by omega, hlen', by omega, h4⟩
      · cases h
      · cases h

theorem readRow_no_panic (row : Text) (limit : Nat) : readRow cd row limit ≠ .panic := by
  unfold readRow
  split
  · simp
  · split <;> simp

theorem trilGo_no_panic : ∀ (ls : List Text) (i : Nat) (taxa : List String) (vals : List L),
    trilGo cd ls i taxa vals ≠ .panic
  | [], _, _, _ => by simp [trilGo]
  | l :: ls, i, taxa, vals => by
    simp only [trilGo]
    split
    · split
      · simp
      · exact trilGo_no_panic ls _ _ _
    · simp
    · next h => exact absurd h (readRow_no_panic cd l i)

/-- **totality** of the triangular parser: for every text it returns a matrix or an error, never a panic -/
theorem tril_total (text : Text) : fromPhylipTril cd text ≠ .panic := by
  unfold fromPhylipTril
  split
  · simp
  · split
    · simp
    · split
      · split
        · simp
        · split <;> simp
      · simp
      · next h => exact absurd h (trilGo_no_panic cd _ _ _ _)

theorem strictGo_no_panic (size : Nat) (square : Bool) : ∀ (ls : List Text) (i : Nat) (names : List String)
    (rows : List (List L)), strictGo cd size square ls i names rows ≠ .panic
  | [], _, _, _ => by simp [strictGo]
  | l :: ls, i, names, rows => by
    simp only [strictGo]
    split
    · simp
    · split
      · split
        · simp
        · split
          · simp
          · exact strictGo_no_panic size square ls _ _ _
      · simp
      · next h => exact absurd h (readRow_no_panic cd l (size + 1))

/-- text without any line, or whose first line is not an unsigned integer, is rejected by every entry point -/
theorem header_required (text : Text) (square : Bool)
    (h : PH.lines text = [] ∨ ∃ f r, PH.lines text = f :: r ∧ parseUsize f = none) :
    (∃ k, fromPhylipStrict cd text square = .err k) ∧ (∃ k, fromPhylipTril cd text = .err k) := by
  rcases h with h | ⟨f, r, h1, h2⟩
  · exact ⟨⟨"EmptyMatrixFile", by simp [fromPhylipStrict, h]⟩, ⟨"EmptyMatrixFile", by simp [fromPhylipTril, h]⟩⟩
  · exact ⟨⟨"SizeParseError", by simp [fromPhylipStrict, h1, h2]⟩, ⟨"SizeParseError", by simp [fromPhylipTril, h1, h2]⟩⟩

/-- the string layer of the round trip: the writer's rows (non-empty whitespace-free fields joined by
    blanks) split back into exactly those fields, and its newline-terminated lines come back as lines -/
theorem row_fields_roundtrip (sep : List Char) (hsep : PH.Sep sep) (ws : List (List Char))
    (h : ∀ w ∈ ws, PH.Word w) : PH.splitWs (PH.joinSep sep ws) = ws :=
  PH.split_join sep hsep ws h

/-- `usize::from_str` accepts what `Display` for `usize` prints (decimal digits, no sign) -/
example : parseUsize "12".toList = some 12 ∧ parseUsize "+3".toList = some 3 ∧ parseUsize "-0".toList = none ∧
    parseUsize "".toList = none ∧ parseUsize "3 ".toList = none := by decide

/-- **triangular round trip**: writing any matrix whose taxon names are non-empty and whitespace-free in
    triangular form and reading it back with `from_phylip_tril` reproduces the taxa (same order) and every
    cell, for every entry type whose `Display`/`FromStr` pair satisfies the two codec laws (what is written
    parses back to the same value; what is written is a non-empty whitespace-free word) -/
theorem tril_roundtrip (hl : Laws cd) (m : Mat L) (hnames : ∀ nm ∈ m.taxa, PH.Word nm.toList)
    (hsz : m.v.size = T2 m.taxa.length) (hn : m.taxa.length < 2 ^ 64) :
    fromPhylipTril cd (toPhylip cd m false) = .ok m :=
  PHY.tril_roundtrip cd hl m hnames hsz hn

/-- the size line round-trips for every size a `usize` can hold -/
theorem size_line_roundtrip (n : Nat) (hn : n < 2 ^ 64) : parseUsize (toString n).toList = some n :=
  header_roundtrip n hn

/-- non-vacuity: a two-valued entry type whose codec satisfies both laws -/
example : Laws ({ showL := fun b => if b then ['1'] else ['0'],
                  parseL := fun t => if t = ['1'] then some true else if t = ['0'] then some false else none,
                  numEq := fun a b => a == b, isZero := fun b => !b, zero := false } : Codec Bool) := by
  constructor
  · intro x; cases x <;> simp
  · intro x; cases x <;> exact ⟨by simp, by intro c hc; simp at hc; subst hc; decide⟩

end C14
