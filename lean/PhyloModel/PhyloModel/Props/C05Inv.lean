import PhyloModel.Split.Reorder
import PhyloModel.Split.Unary
import PhyloModel.Split.RootStyle
import PhyloModel.Split.RenameNames
import PhyloModel.Split.LeafCounts
import PhyloModel.Split.SameUnrooted
/-! # C05 — invariances of the reported bipartition set, for the EXECUTABLE model `SPM.partitions`

The reported set (the members of `sides ps`; the ORDER of the list may change) is unchanged by
reordering children (`SPM.ReorderR`), by inserting/removing unary nodes (`SPM.UnaryEq`, also above the root),
by drawing the same unrooted tree with a two-child root `[X, Y]` or with `X` dissolved into the root, and it is
transported to the image split set by any injective renaming of the taxa (`SPM.renameR`), although the leaf
index is re-sorted and every bit position may change.  All proofs are about the executable functions; the
leaf index (and every error outcome) is shown unchanged / transported as well. -/
namespace C05
open AR SPM

/-- **exactness in terms of leaves** (complements `partitions_exact`, which counts bits): a side is reported iff
    it is the stored side of a non-root internal node with at least two leaves below it and at least two
    leaves elsewhere; read back as names it lists the leaves below that node or exactly the others -/
theorem reported_iff_leaf_counts (t : Rose) (all : List String) (ps : List Part) (hall : leafIndex t = .ok all)
    (hps : partitions t = .ok ps) (x : Side) :
    (x ∈ sides ps ↔ ∃ v ∈ inner t, x = sideOf all v ∧ 2 ≤ (names v).length ∧ (names v).length + 2 ≤ all.length) ∧
    (∀ v, x = sideOf all v →
      (∀ z, z ∈ namesOf all x ↔ (z ∈ all ∧ z ∈ names v)) ∨ (∀ z, z ∈ namesOf all x ↔ (z ∈ all ∧ z ∉ names v))) := by
  refine ⟨partitions_exact_leaves t all ps hall hps x, ?_⟩
  rintro v rfl
  exact namesOf_canon_mask all (names v)

/-- **child reordering**: same leaf index (or the same error); the reordered tree reports the same set of
    bipartitions (as a set: membership iff; as lists: a permutation), each with the same accumulated length;
    a tree without a bipartition set keeps its error -/
theorem reorder_invariant {t t' : Rose} (h : ReorderR t t') :
    leafIndex t' = leafIndex t ∧
    (∀ ps, partitions t = .ok ps → ∃ ps', partitions t' = .ok ps' ∧
      (∀ x, x ∈ sides ps ↔ x ∈ sides ps') ∧ (sides ps).Perm (sides ps') ∧
      (∀ p ∈ ps, ∀ p' ∈ ps', p.side = p'.side → p.len = p'.len)) ∧
    (∀ e, partitions t = .err e → partitions t' = .err e) := by
  refine ⟨leafIndex_reorder h, ?_, partitions_reorder_err h⟩
  intro ps hps
  obtain ⟨ps', h1, h2⟩ := partitions_reorder h ps hps
  exact ⟨ps', h1, h2.mem, h2.perm, h2.len⟩

/-- **unary nodes**: inserting or removing nodes with exactly one child (at any child position, the root
    staying the root; `UnaryEq` also allows changing ids, lengths, depths and internal names, which the set
    never reads) changes neither the leaf index nor the reported set -/
theorem unary_invariant {t t' : Rose} (h : UnaryEq t t') :
    leafIndex t' = leafIndex t ∧
    (∀ ps, partitions t = .ok ps → ∃ ps', partitions t' = .ok ps' ∧ ∀ x, x ∈ sides ps ↔ x ∈ sides ps') ∧
    (∀ e, partitions t = .err e → partitions t' = .err e) :=
  ⟨leafIndex_unary h, partitions_unary h, partitions_unary_err h⟩

/-- ... and a unary node above the ROOT does not change the reported set either: the old root's branch has
    every leaf on one side and is filtered by the (repaired) trivial-split test -/
theorem unary_root_invariant (iu : Nat) (nu : Option String) (lu : Option Int) (du : Nat) (t : Rose)
    (ps : List Part) (hps : partitions t = .ok ps) :
    ∃ ps', partitions (.node iu nu lu du [t]) = .ok ps' ∧ ∀ x, x ∈ sides ps ↔ x ∈ sides ps' :=
  partitions_unary_root iu nu lu du t ps hps

/-- **root style**: the two-child drawing `[X, Y]` (X internal with children `kx`) and the drawing with `X`
    dissolved into the root (`kx ++ [Y]`, any root fields) have the same leaf index and report the same set -/
theorem root_style_invariant (i : Nat) (n : Option String) (l : Option Int) (d : Nat)
    (ix : Nat) (nx : Option String) (lx : Option Int) (dx : Nat) (kx : List Rose) (Y : Rose)
    (i' : Nat) (n' : Option String) (l' : Option Int) (d' : Nat) (hkx : kx ≠ []) :
    leafIndex (.node i' n' l' d' (kx ++ [Y])) = leafIndex (.node i n l d [.node ix nx lx dx kx, Y]) ∧
    (∀ ps, partitions (.node i n l d [.node ix nx lx dx kx, Y]) = .ok ps →
      ∃ ps', partitions (.node i' n' l' d' (kx ++ [Y])) = .ok ps' ∧ ∀ x, x ∈ sides ps ↔ x ∈ sides ps') ∧
    (∀ e, partitions (.node i n l d [.node ix nx lx dx kx, Y]) = .err e →
      partitions (.node i' n' l' d' (kx ++ [Y])) = .err e) :=
  ⟨leafIndex_root_style i n l d ix nx lx dx kx Y i' n' l' d' hkx,
   partitions_root_style i n l d ix nx lx dx kx Y i' n' l' d' hkx,
   partitions_root_style_err i n l d ix nx lx dx kx Y i' n' l' d' hkx⟩

/-- **the three shape invariances composed**: any two drawings of the same unrooted leaf-labelled tree (closure
    of child reordering, unary nodes / decoration, and re-drawing the root) have the same leaf index, the same
    reported set and the same error outcome; their RF distance is zero -/
theorem unrooted_topology_invariant {t t' : Rose} (h : SameUnrooted t t') :
    leafIndex t' = leafIndex t ∧
    (∀ ps, partitions t = .ok ps → ∃ ps', partitions t' = .ok ps' ∧ (∀ x, x ∈ sides ps ↔ x ∈ sides ps') ∧
      rf t t' = .ok 0) ∧
    (∀ e, partitions t = .err e → partitions t' = .err e) := by
  have hr := sameUnrooted_report h
  refine ⟨hr.1, ?_, hr.err⟩
  intro ps hps
  obtain ⟨ps', h1, h2⟩ := hr.2 ps hps
  exact ⟨ps', h1, h2, rf_sameUnrooted_zero h ps hps⟩

/-- **renaming, the leaf index**: the sorted image of the leaf index; every error is kept -/
theorem rename_leaf_index {f : String → String} (hf : Function.Injective f) (g : Option String → Option String)
    (t : Rose) :
    (∀ all, leafIndex t = .ok all → leafIndex (renameR f g t) = .ok (sigma f all)) ∧
    (∀ e, leafIndex t = .err e → leafIndex (renameR f g t) = .err e) ∧
    (∀ e, partitions t = .err e → partitions (renameR f g t) = .err e) :=
  ⟨leafIndex_renameR_ok hf g t, leafIndex_renameR_err hf g t, partitions_renameR_err hf g t⟩

/-- **renaming, the partition map**: entry by entry (same order, depths, lengths) the partition map of the tree
    with every side transported by `phi`; `phi` sends the stored side of the split `{A, rest}` to the stored side
    of `{f A, rest}` over the re-sorted index and is injective on stored sides -/
theorem rename_partitions {f : String → String} (hf : Function.Injective f) (g : Option String → Option String)
    (t : Rose) (all : List String) (ps : List Part) (hall : leafIndex t = .ok all) (hps : partitions t = .ok ps) :
    partitions (renameR f g t) = .ok (ps.map (mapP f all)) ∧
    (∀ A, phi f all (canon (maskOf all A)) = canon (maskOf (sigma f all) (A.map f))) ∧
    (∀ A B, phi f all (canon (maskOf all A)) = phi f all (canon (maskOf all B)) ↔
      canon (maskOf all A) = canon (maskOf all B)) :=
  ⟨partitions_renameR hf g t all ps hall hps, phi_canon_mask hf all,
   fun A B => phi_inj hf all _ _ ⟨A, rfl⟩ ⟨B, rfl⟩⟩

/-- **renaming, name-set reading**: the split of the leaf set into the names `A` and the rest is reported for
    the tree iff the split into `f A` and the rest is reported for the renamed tree; and every reported side is
    the stored side of the names below some non-root internal node -/
theorem rename_reported_iff {f : String → String} (hf : Function.Injective f) (g : Option String → Option String)
    (t : Rose) (all : List String) (ps ps' : List Part) (hall : leafIndex t = .ok all)
    (hps : partitions t = .ok ps) (hps' : partitions (renameR f g t) = .ok ps') :
    (∀ A, canon (maskOf (sigma f all) (A.map f)) ∈ sides ps' ↔ canon (maskOf all A) ∈ sides ps) ∧
    (∀ x ∈ sides ps, ∃ v ∈ inner t, x = canon (maskOf all (names v))) := by
  refine ⟨reported_renameR_iff hf g t all ps ps' hall hps hps', ?_⟩
  intro x hx
  obtain ⟨v, hv, hxv, _⟩ := (partitions_exact t all ps hall hps x).1 hx
  exact ⟨v, hv, hxv⟩

/-- **renaming, `namesOf` reading**: the reported sides of the renamed tree are exactly the transported reported
    sides; read back as names, a transported side lists the `f`-image of the names its original lists, or the
    `f`-image of the complementary names (the unordered pair {names, complement} is the image pair) -/
theorem rename_reported_names {f : String → String} (hf : Function.Injective f)
    (g : Option String → Option String) (t : Rose) (all : List String) (ps ps' : List Part)
    (hall : leafIndex t = .ok all) (hps : partitions t = .ok ps) (hps' : partitions (renameR f g t) = .ok ps') :
    (∀ x', x' ∈ sides ps' ↔ ∃ x ∈ sides ps, x' = phi f all x) ∧
    (∀ x ∈ sides ps,
      (∀ y, y ∈ namesOf (sigma f all) (phi f all x) ↔ ∃ z, z ∈ namesOf all x ∧ f z = y) ∨
      (∀ y, y ∈ namesOf (sigma f all) (phi f all x) ↔ ∃ z, z ∈ all ∧ z ∉ namesOf all x ∧ f z = y)) :=
  reported_renameR_names hf g t all ps ps' hall hps hps'

/-! ### non-vacuity: a five-taxon tree with a two-child root -/

def exLf (n : String) (l : Int) : Rose := .node 0 (some n) (some l) 1 []
def exNd (l : Int) (ks : List Rose) : Rose := .node 0 none (some l) 1 ks
/-- `((a,b),(c,(d,e)))` -/
def ex1 : Rose := exNd 0 [exNd 1 [exLf "a" 1, exLf "b" 2], exNd 2 [exLf "c" 1, exNd 3 [exLf "d" 1, exLf "e" 1]]]
/-- `(((e,d),c),(a,b))`: the children of three nodes swapped -/
def ex2 : Rose := exNd 0 [exNd 2 [exNd 3 [exLf "e" 1, exLf "d" 1], exLf "c" 1], exNd 1 [exLf "a" 1, exLf "b" 2]]
/-- `(a,b,(c,(d,e)))`: the first root child dissolved -/
def ex3 : Rose := exNd 7 [exLf "a" 1, exLf "b" 2, exNd 2 [exLf "c" 1, exNd 3 [exLf "d" 1, exLf "e" 1]]]
/-- `((a,b),((c),(d,e)))`: a unary node above `c` -/
def ex4 : Rose := exNd 0 [exNd 1 [exLf "a" 1, exLf "b" 2],
  exNd 2 [.node 9 (some "u") none 5 [exLf "c" 1], exNd 3 [exLf "d" 1, exLf "e" 1]]]
/-- swap the names `a` and `e` -/
def exF (x : String) : String := if x = "a" then "e" else if x = "e" then "a" else x

theorem exF_inj : Function.Injective exF := by
  intro x y h
  unfold exF at h
  split at h <;> split at h <;> (try split at h) <;> (try split at h) <;> simp_all

theorem ex1_names : names ex1 = ["a", "b", "c", "d", "e"] := by
  simp [names, ex1, exNd, exLf, tipNames, tipNamesL]

theorem ex1_leafIndex : leafIndex ex1 = .ok ["a", "b", "c", "d", "e"] := by
  rw [leafIndex_ok_iff, ex1_names]
  refine ⟨by simp [ex1, exNd, exLf, tipNames, tipNamesL], by decide, ?_⟩
  symm
  exact List.mergeSort_of_pairwise (by decide)

theorem ex1_partitions : partitions ex1 = .ok
    [{ side := [false, false, true, true, true], depth := 1, len := some 3 },
     { side := [false, false, false, true, true], depth := 1, len := some 3 }] := by
  simp only [partitions, ex1_leafIndex, QR.bind_ok, QR.pure_eq]
  rfl

theorem ex12_reorder : ReorderR ex1 ex2 := by
  unfold ex1 ex2 exNd
  -- swap the root's children, then the children of `(c,(d,e))`, then of `(d,e)`
  refine .trans (.here (List.Perm.swap _ _ [])) ?_
  refine .inside (l1 := []) ?_
  refine .trans (.here (List.Perm.swap _ _ [])) ?_
  exact .inside (l1 := []) (.here (List.Perm.swap _ _ []))

theorem ex14_unary : UnaryEq ex1 ex4 := by
  unfold ex1 ex4 exNd
  exact .step (.inside (l1 := [_]) (l2 := []) (.here (l1 := [])))

/-- the hypotheses of `reorder_invariant` hold for two different trees, with a non-empty reported set -/
example : ReorderR ex1 ex2 ∧ ex1.kids.map Rose.len ≠ ex2.kids.map Rose.len ∧
    ∃ ps, partitions ex1 = .ok ps ∧ ps.length = 2 :=
  ⟨ex12_reorder, by decide, _, ex1_partitions, rfl⟩

/-- the hypotheses of `unary_invariant` hold -/
example : UnaryEq ex1 ex4 ∧ ∃ ps, partitions ex1 = .ok ps ∧ ps.length = 2 :=
  ⟨ex14_unary, _, ex1_partitions, rfl⟩

/-- the hypotheses of `root_style_invariant` hold: `ex1` is a two-child drawing whose first root child is
    internal, `ex3` the drawing with that child dissolved -/
example : ∃ kx Y, kx ≠ [] ∧ ex1 = .node 0 none (some 0) 1 [.node 0 none (some 1) 1 kx, Y] ∧
    ex3 = .node 0 none (some 7) 1 (kx ++ [Y]) ∧ ∃ ps, partitions ex1 = .ok ps ∧ ps.length = 2 :=
  ⟨_, _, by simp, rfl, rfl, _, ex1_partitions, rfl⟩

/-- the hypotheses of the renaming theorems hold for a renaming that changes the sorted order; the renamed
    tree reports (bit for bit different) sides -/
example : Function.Injective exF ∧ exF "a" = "e" ∧
    (∃ all ps, leafIndex ex1 = .ok all ∧ partitions ex1 = .ok ps ∧ ps.length = 2) :=
  ⟨exF_inj, by decide, _, _, ex1_leafIndex, ex1_partitions, rfl⟩

/-- the hypothesis of `unrooted_topology_invariant` holds between the reordered two-child drawing `ex2` and the
    three-child drawing `ex3` -/
example : SameUnrooted ex2 ex3 :=
  .trans (.symm (.reorder ex12_reorder)) (.rootStyle (by simp))

/-- the renamed example: its leaf index is again `[a..e]` (the image set is the same), but both reported sides
    are different bit patterns from those of `ex1` (`{c,d,e}` became `{a,c,d}`, stored as its complement `{b,e}`) -/
theorem ex1_renamed_partitions : partitions (renameR exF id ex1) = .ok
    [{ side := [false, true, false, false, true], depth := 1, len := some 3 },
     { side := [false, true, true, false, true], depth := 1, len := some 3 }] := by
  have hidx : leafIndex (renameR exF id ex1) = .ok ["a", "b", "c", "d", "e"] :=
    leafIndex_of_sorted _ _ (by simp [ex1, exNd, exLf, tipNames, tipNamesL, renameR, renameL])
      (by simp [names, ex1, exNd, exLf, tipNames, tipNamesL, renameR, renameL, exF]; decide) (by decide) (by decide)
  simp only [partitions, hidx, QR.bind_ok, QR.pure_eq]
  rfl

/-- `rename_partitions` instantiated: the transport `phi` maps the two reported sides of `ex1` to the two
    reported sides of the renamed tree -/
example : [[false, false, true, true, true], [false, false, false, true, true]].map
      (phi exF ["a", "b", "c", "d", "e"]) =
    [[false, true, false, false, true], [false, true, true, false, true]] := by
  have h := (rename_partitions exF_inj id ex1 _ _ ex1_leafIndex ex1_partitions).1
  rw [ex1_renamed_partitions] at h
  have h' := congrArg (fun r => match r with | QR.ok ps => sides ps | _ => []) h
  simpa [sides, mapP] using h'.symm

end C05
