import PhyloModel.Props.C06
import PhyloModel.Split.Symm
/-! # C07 — weighted RF and branch-score distances match their definitions

`SPM.wrf`, `SPM.kf2`, `SPM.compareTopologies`, `SPM.compareBranches` mirror `weighted_robinson_foulds`,
`khuner_felsenstein` (squared: the model returns KF², the harness applies the one remaining `sqrt`),
`compare_topologies` and `compare_branch_lengths`.  Lengths are exact integers (multiples of 2^-10 in the
correspondence); floating-point rounding is modelled, not verified. -/
namespace C07
open AR SPM

/-- by definition both distances are sums over the union of the two split sets of a function of the
    difference of the split's lengths, with 0 for an absent split -/
theorem wrf_kf2_definition (s o : Rose) (ps po : List Part) (ms mo : List (Side × Nat × Int))
    (hps : partitions s = .ok ps) (hpo : partitions o = .ok po)
    (hms : withLengths ps = .ok ms) (hmo : withLengths po = .ok mo) :
    wrf s o = .ok (sumOver iabs ms mo) ∧ kf2 s o = .ok (sumOver (fun x => x * x) ms mo) := by
  simp [wrf, kf2, hps, hpo, hms, hmo]

/-- a two-child root's two branches (any two branches inducing the same split) count as ONE split with
    their summed length; a missing length on either makes the sum missing -/
theorem split_len_accumulates (m : List Part) (s : Side) (d : Nat) (l : Option Int) (p : Part)
    (h : m.find? (fun q => q.side == s) = some p) :
    insertPart m s d l = (m.filter (fun q => q.side != s)) ++ [{ side := s, depth := d, len := accLen l p.len }] ∧
    (∀ a b : Int, accLen (some a) (some b) = some (b + a)) ∧
    (∀ x, accLen none x = none) ∧ (∀ x, accLen x none = none) := by
  refine ⟨by simp [insertPart, h], fun _ _ => rfl, fun x => by cases x <;> rfl, fun x => by cases x <;> rfl⟩

/-- a missing length on any branch inducing a non-trivial split yields the missing-length error -/
theorem missing_length_rejected (s o : Rose) (ps : List Part) (hps : partitions s = .ok ps)
    (hmiss : ps.any (fun p => p.len.isNone) = true) :
    wrf s o = .err "MissingBranchLengths" ∧ kf2 s o = .err "MissingBranchLengths" ∧
    compareTopologies s o = .err "MissingBranchLengths" := by
  have h : withLengths ps = .err "MissingBranchLengths" := by simp [withLengths, hmiss]
  simp [wrf, kf2, compareTopologies, hps, h]

/-- the combined report carries exactly these two values -/
theorem report_agrees (s o : Rose) (ps po : List Part) (ms mo : List (Side × Nat × Int)) (ls : List String)
    (hps : partitions s = .ok ps) (hpo : partitions o = .ok po)
    (hms : withLengths ps = .ok ms) (hmo : withLengths po = .ok mo)
    (hls : leafIndex s = .ok ls) (hlo : leafIndex o = .ok ls) :
    ∃ r, compareTopologies s o = .ok r ∧ wrf s o = .ok r.2.2.1 ∧ kf2 s o = .ok r.2.2.2 := by
  simp [compareTopologies, wrf, kf2, hps, hpo, hms, hmo, hls, hlo]

def scaleM (k : Int) (m : List (Side × Nat × Int)) : List (Side × Nat × Int) := m.map (fun p => (p.1, p.2.1, k * p.2.2))

theorem lookup_scale (k : Int) (m : List (Side × Nat × Int)) (x : Side) :
    lookup (scaleM k m) x = (lookup m x).map (fun q => (q.1, k * q.2)) := by
  unfold lookup scaleM
  induction m with
  | nil => simp
  | cons p m ih =>
    simp only [List.map_cons, List.find?_cons]
    by_cases h : p.1 == x
    · simp [h]
    · simp only [h]; exact ih

theorem sum_map_mul (k : Int) (l : List Int) : (l.map (fun x => k * x)).sum = k * l.sum := by
  induction l with
  | nil => simp
  | cons a l ih => simp [ih, Int.mul_add]

/-- common rescaling: for any `f` with `f (k·x) = c·f x`, the sum scales by `c` -/
theorem sumOver_scale (f : Int → Int) (k c : Int) (hf : ∀ x, f (k * x) = c * f x)
    (ms mo : List (Side × Nat × Int)) :
    sumOver f (scaleM k ms) (scaleM k mo) = c * sumOver f ms mo := by
  unfold sumOver
  rw [Int.mul_add]
  congr 1
  · rw [← sum_map_mul]
    simp only [scaleM, List.map_map]
    congr 1
    apply List.map_congr_left
    intro p _
    simp only [Function.comp]
    have := lookup_scale k mo p.1
    simp only [scaleM] at this
    rw [this]
    cases lookup mo p.1 with
    | none => simp [hf]
    | some q => simp only [Option.map_some]; rw [← Int.mul_sub, hf]
  · rw [← sum_map_mul]
    have hfil : (scaleM k mo).filter (fun p => (lookup (scaleM k ms) p.1).isNone) =
        scaleM k (mo.filter (fun p => (lookup ms p.1).isNone)) := by
      simp only [scaleM, List.filter_map]
      congr 1
      apply List.filter_congr
      intro p _
      simp only [Function.comp]
      have := lookup_scale k ms p.1
      simp only [scaleM] at this
      rw [this]
      cases lookup ms p.1 <;> simp
    rw [hfil]
    simp only [scaleM, List.map_map]
    congr 1
    apply List.map_congr_left
    intro p _
    simp [hf]

theorem iabs_mul (k x : Int) : iabs (k * x) = iabs k * iabs x := by
  unfold iabs
  rcases Int.lt_trichotomy k 0 with hk | hk | hk <;> rcases Int.lt_trichotomy x 0 with hx | hx | hx
  all_goals first
    | (subst hk; simp)
    | (subst hx; simp)
    | skip
  · have : ¬ k * x < 0 := Int.not_lt.mpr (Int.le_of_lt (Int.mul_pos_of_neg_of_neg hk hx))
    simp [hk, hx, this, Int.neg_mul_neg]
  · have : k * x < 0 := Int.mul_neg_of_neg_of_pos hk hx
    have hx' : ¬ x < 0 := Int.not_lt.mpr (Int.le_of_lt hx)
    simp [hk, hx', this, Int.neg_mul]
  · have : k * x < 0 := Int.mul_neg_of_pos_of_neg hk hx
    have hk' : ¬ k < 0 := Int.not_lt.mpr (Int.le_of_lt hk)
    simp [hk', hx, this, Int.mul_neg]
  · have : ¬ k * x < 0 := Int.not_lt.mpr (Int.le_of_lt (Int.mul_pos hk hx))
    have hk' : ¬ k < 0 := Int.not_lt.mpr (Int.le_of_lt hk)
    have hx' : ¬ x < 0 := Int.not_lt.mpr (Int.le_of_lt hx)
    simp [hk', hx', this]

/-- weighted RF scales linearly (by `|k|`) and the squared branch score by `k²` under a common rescaling -/
theorem rescaling (k : Int) (ms mo : List (Side × Nat × Int)) :
    sumOver iabs (scaleM k ms) (scaleM k mo) = iabs k * sumOver iabs ms mo ∧
    sumOver (fun x => x * x) (scaleM k ms) (scaleM k mo) = (k * k) * sumOver (fun x => x * x) ms mo :=
  ⟨sumOver_scale iabs k (iabs k) (iabs_mul k) ms mo,
   sumOver_scale (fun x => x * x) k (k * k) (fun x => by grind) ms mo⟩

/-- the branch listing without tips contains exactly: the splits only in the first tree, only in the second,
    and the common ones, each with the lengths of the partition maps -/
theorem branch_listing (s o : Rose) (ps po : List Part) (ms mo : List (Side × Nat × Int)) (ls : List String)
    (hps : partitions s = .ok ps) (hpo : partitions o = .ok po)
    (hms : withLengths ps = .ok ms) (hmo : withLengths po = .ok mo) (hls : leafIndex s = .ok ls) :
    ∃ r, compareBranches s o false = .ok r ∧
      r.1.map (·.2) = (ms.filter (fun p => (lookup mo p.1).isNone)).map (·.2.2) ∧
      r.2.1.map (·.2) = (mo.filter (fun p => (lookup ms p.1).isNone)).map (·.2.2) ∧
      r.2.2.map (·.2) = ms.filterMap (fun p => (lookup mo p.1).map (fun q => (p.2.2, q.2))) := by
  simp only [compareBranches, hps, hpo, hms, hmo, hls, QR.bind_ok, QR.pure_eq, Bool.not_false, ↓reduceIte]
  refine ⟨_, rfl, ?_, ?_, ?_⟩
  · simp [List.map_map, Function.comp_def]
  · simp [List.map_map, Function.comp_def]
  · simp only [List.map_filterMap]
    congr 1
    funext p
    cases lookup mo p.1 <;> simp

/-- non-vacuity: |2·3 − 2·5| = 2·|3 − 5| on a one-split example -/
example : sumOver iabs (scaleM 2 [([false, true, true, false], 1, 3)]) (scaleM 2 [([false, true, true, false], 1, 5)]) = 4 := by decide

/-- **symmetry**: both distances do not depend on the order of the two trees (whenever they are defined) -/
theorem symmetric (s o : Rose) (v : Int) :
    (wrf s o = .ok v → wrf o s = .ok v) ∧ (kf2 s o = .ok v → kf2 o s = .ok v) := by
  have key : ∀ (f : Int → Int), (∀ x, f (-x) = f x) →
      ((do let ms ← (partitions s) >>= withLengths
           let mo ← (partitions o) >>= withLengths
           pure (sumOver f ms mo) : QR Int) = .ok v) →
      ((do let ms ← (partitions o) >>= withLengths
           let mo ← (partitions s) >>= withLengths
           pure (sumOver f ms mo) : QR Int) = .ok v) := by
    intro f hf h
    cases hps : partitions s with
    | err e => simp [hps] at h
    | panic => simp [hps] at h
    | ok ps =>
      cases hms : withLengths ps with
      | err e => simp [hps, hms] at h
      | panic => simp [hps, hms] at h
      | ok ms =>
        cases hpo : partitions o with
        | err e => simp [hps, hms, hpo] at h
        | panic => simp [hps, hms, hpo] at h
        | ok po =>
          cases hmo : withLengths po with
          | err e => simp [hps, hms, hpo, hmo] at h
          | panic => simp [hps, hms, hpo, hmo] at h
          | ok mo =>
            simp only [hps, hms, hpo, hmo, QR.bind_ok, QR.pure_eq, QR.ok.injEq] at h ⊢
            rw [← h]
            exact sumOver_symm f hf mo ms
              (by rw [withLengths_keys po mo hmo]; exact C05.partitions_nodup o po hpo)
              (by rw [withLengths_keys ps ms hms]; exact C05.partitions_nodup s ps hps)
  exact ⟨key iabs iabs_neg, key (fun x => x * x) (fun x => Int.neg_mul_neg x x)⟩

end C07
