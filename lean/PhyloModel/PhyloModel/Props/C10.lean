import PhyloModel.Arena.Traverse
import PhyloModel.Arena.QRLemmas
import PhyloModel.Arena.LevelFacts
import PhyloModel.Arena.Inorder
/-! # C10 — traversals and subtree listings enumerate exactly the subtree, in order

`Rep a i t` says that arena slot `i` represents the rose tree `t` (ids at the nodes, children in child-list
order), whatever the ids are and whatever removed slots lie in between; under the arena invariant every live
slot represents exactly one tree (`rep_exists`, `rep_unique`).  The traversal models mirror the Rust code:
recursive pre-order, post-order and in-order, queue-based level order. -/
namespace C10
open AR

/-- every live slot of a well-formed arena represents exactly one rose tree -/
theorem abstraction_total_unique (a : Arena) (hinv : Inv a) (D : Nat) (hD : ∀ i, live a i → (nd a i).depth ≤ D)
    (i : Nat) (hl : live a i) : ∃ t, Rep a i t ∧ ∀ t', Rep a i t' → t' = t := by
  obtain ⟨t, ht⟩ := rep_exists a hinv D hD (D - (nd a i).depth) i hl (Nat.le_refl _)
  exact ⟨t, ht, fun t' h' => rep_unique a t' t i h' ht⟩

/-- pre-order = the node, then the pre-orders of its children in child order (so every parent precedes its
    children and siblings appear in child order); `get_subtree` is the same list -/
theorem preorder_refines (a : Arena) (t : RTI) (f i : Nat) (h : Rep a i t) (hf : height t ≤ f) :
    preorderF f a i = some (pre t) ∧
    (∀ j ks, pre (.node j ks) = j :: preL ks) ∧ (∀ k ks, preL (k :: ks) = pre k ++ preL ks) :=
  ⟨preorder_rep a t f i h hf, fun j ks => by rw [pre], fun k ks => by rw [preL]⟩

/-- post-order = the post-orders of the children in child order, then the node; it lists exactly the nodes
    pre-order lists (a permutation) -/
theorem postorder_refines (a : Arena) (t : RTI) (f i : Nat) (h : Rep a i t) (hf : height t ≤ f) :
    postorderF f a i = some (post t) ∧ (post t).Perm (pre t) ∧
    (∀ j ks, post (.node j ks) = postL ks ++ [j]) ∧ (∀ k ks, postL (k :: ks) = post k ++ postL ks) :=
  ⟨postorder_rep a t f i h hf, post_perm t, fun j ks => by rw [post], fun k ks => by rw [postL]⟩

/-- level order: the arena queue loop emits exactly the ids the rose-level queue loop emits, and the levels
    (edges below the start node) of the emitted nodes never decrease -/
theorem levelorder_refines (a : Arena) (t : RTI) (f i : Nat) (h : Rep a i t) (hf : szR t ≤ f) :
    levelF f a [i] [] = some ((LV.bfsD f [(toLV t, 0)]).map (·.1)) ∧
    ((LV.bfsD f [(toLV t, 0)]).map (·.2)).Pairwise (· ≤ ·) := by
  constructor
  · have := levelF_rep a f [i] [(t, 0)] [] (by simp [RepL, h]) (by simp [szQ, szRL]; exact hf)
    simpa [lvq] using this
  · exact LV.bfsD_sorted f _ (LV.qinv_single _ _)

/-- the listings are defined from the traversals: `get_subtree` = pre-order, `get_subtree_leaves` = its tips -/
theorem listings (a : Arena) (x : Nat) :
    subtree a x = QR.ofOpt (preorderF (fuelOf a) a x) "NodeNotFound" ∧
    subtreeLeaves a x = (do let l ← subtree a x; pure (l.filter (fun i => (nd a i).children.isEmpty))) :=
  ⟨rfl, rfl⟩

/-- a removed or unknown start node is an error for every traversal -/
theorem dead_start_rejected (a : Arena) (x : Nat) (h : ¬ live a x) :
    preorderF (fuelOf a) a x = none ∧ postorderF (fuelOf a) a x = none ∧ levelorder a x = none ∧
    inorder a x = .err "NodeNotFound" := by
  have hl : isLive a x = false := by
    cases hh : isLive a x with
    | false => rfl
    | true => exact absurd ((isLive_iff a x).mp hh) h
  have h' : ¬ (x < a.size ∧ (nd a x).deleted = false) := h
  refine ⟨?_, ?_, ?_, ?_⟩
  · unfold fuelOf; rw [preorderF]; simp [h']
  · unfold fuelOf; rw [postorderF]; simp [hl]
  · unfold levelorder fuelOf; rw [levelF]; simp [hl]
  · unfold inorder fuelOf; rw [inorderF]; simp [hl]

/-- in-order refuses a node with more than two children -/
theorem inorder_refuses_polytomy (a : Arena) (x c1 c2 c3 : Nat) (rest : List Nat) (hl : live a x)
    (hk : (nd a x).children = c1 :: c2 :: c3 :: rest) : inorder a x = .err "IsNotBinary" := by
  have hl' : isLive a x = true := (isLive_iff a x).mpr hl
  unfold inorder fuelOf; rw [inorderF]; simp [hl', hk]

/-- removed slots are never listed: everything a traversal lists is a node of the represented tree -/
theorem only_subtree_nodes (a : Arena) (t : RTI) (f i : Nat) (h : Rep a i t) (hf : height t ≤ f) (y : Nat) :
    (∃ l, postorderF f a i = some l ∧ y ∈ l) ↔ y ∈ pre t := by
  rw [postorder_rep a t f i h hf]
  constructor
  · rintro ⟨l, hl, hy⟩; cases hl; exact (post_perm t).mem_iff.mp hy
  · intro hy; exact ⟨post t, rfl, (post_perm t).mem_iff.mpr hy⟩

/-- **closed form under the invariant** (no fuel or representation hypothesis left): on any arena satisfying
    the invariant and any live start node, pre-order and post-order succeed with the fuel the executable
    model supplies, and each lists exactly the nodes below the start node — every one of them, nothing else
    (in particular no removed slot), each exactly once. -/
theorem recursive_traversals_exact (a : Arena) (hinv : Inv a) (i : Nat) (hl : live a i) :
    ∃ t, Rep a i t ∧ preorderF (fuelOf a) a i = some (pre t) ∧ postorderF (fuelOf a) a i = some (post t) ∧
      (pre t).Nodup ∧ (post t).Nodup ∧ (∀ v, v ∈ pre t ↔ ∃ k, BelowK a i v k) ∧
      (∀ v, v ∈ post t ↔ ∃ k, BelowK a i v k) :=
  traversals_total hinv i hl

/-- the same for level order: it succeeds, starts with the start node and lists exactly the nodes below
    it, each exactly once -/
theorem levelorder_exact (a : Arena) (hinv : Inv a) (i : Nat) (hl : live a i) :
    ∃ l, levelorder a i = some l ∧ l.Nodup ∧ (∀ v, v ∈ l ↔ ∃ k, BelowK a i v k) ∧ l.head? = some i :=
  levelorder_closed hinv i hl

/-- the represented tree of a live slot never has more nodes than the arena has slots, so the fuel
    `fuelOf` of every executable traversal suffices -/
theorem fuel_suffices (a : Arena) (hinv : Inv a) (i : Nat) (hl : live a i) :
    ∃ t, Rep a i t ∧ szR t ≤ a.size ∧ height t ≤ fuelOf a ∧ szR t ≤ fuelOf a :=
  rep_total hinv i hl

/-- **in-order**: on any arena satisfying the invariant and any live start node the executable in-order is
    the rose-level in-order of the represented tree — left subtree, then the node, then the right subtree, a
    single child counting as a left child (the three defining equations) — which lists exactly the nodes
    pre-order lists; a node with more than two children anywhere below the start node is refused -/
theorem inorder_exact (a : Arena) (hinv : Inv a) (i : Nat) (hl : live a i) :
    ∃ t, Rep a i t ∧ inorder a i = inoQ t ∧ (∀ l, ino t = some l → l.Perm (pre t)) ∧
      (∀ j, ino (.node j []) = some [j]) ∧
      (∀ j k, ino (.node j [k]) = (ino k).map (· ++ [j])) ∧
      (∀ j k1 k2, ino (.node j [k1, k2]) = (ino k1).bind fun x => (ino k2).map fun y => x ++ [j] ++ y) ∧
      (∀ j k1 k2 k3 ks, ino (.node j (k1 :: k2 :: k3 :: ks)) = none) := by
  obtain ⟨t, ht, he⟩ := inorder_closed hinv i hl
  exact ⟨t, ht, he, ino_perm t, fun j => by rw [ino], fun j k => by rw [ino], fun j k1 k2 => by rw [ino],
    fun j k1 k2 k3 ks => by rw [ino]⟩

/-- non-vacuity: `((1,2)0,(4)3)` laid out with an unused slot -/
example : (LV.bfsD 10 [(toLV (.node 0 [.node 1 [.node 2 [], .node 3 []], .node 5 [.node 6 []]]), 0)]).map (·.1)
    = [0, 1, 5, 2, 3, 6] := by decide

end C10
