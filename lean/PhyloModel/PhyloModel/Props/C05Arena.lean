import PhyloModel.Props.C05Inv
import PhyloModel.Split.ArenaReorder
import PhyloModel.Split.ArenaRescale
import PhyloModel.Split.ArenaCompress
import PhyloModel.Split.ArenaRename
/-! # C05 (continued) — the invariances on the executable ARENA operations

The invariance theorems of `Props/C05Inv.lean` are about rose trees; these bridge them to the arena operations the
driver runs: `ladderize` only reorders children, `compress` only removes one-child nodes (and re-appends the spliced child),
`rescale` scales the abstract tree, a consistent renaming of the slots renames the abstract tree — so the reported
bipartitions of the arena's tree are unchanged by each of them. -/
namespace C05
open AR SPM

/-- `ladderize` keeps the leaf index and the reported bipartitions (and RF / weighted RF / KF to the tree before are 0) -/
theorem ladderize_keeps_bipartitions (a : Arena) (t : Rose) (ht : absRoot a = .ok t) :
    ∃ t', absRoot (ladderize a).1 = .ok t' ∧ leafIndex t' = leafIndex t ∧
      (∀ ps, partitions t = .ok ps → ∃ ps', partitions t' = .ok ps' ∧ PartEq ps ps' ∧
        rf t t' = .ok 0 ∧ (∀ ms, withLengths ps = .ok ms → wrf t t' = .ok 0 ∧ kf2 t t' = .ok 0)) :=
  SPM.ladderize_keeps_splits a t ht

/-- `compress`, whatever its outcome, keeps the leaf index and the reported bipartitions -/
theorem compress_keeps_bipartitions {a : Arena} (g : Good a) (t : Rose) (ht : absRoot a = .ok t) :
    ∃ t', absRoot (compress a).1 = .ok t' ∧ leafIndex t' = leafIndex t ∧
      (∀ ps, partitions t = .ok ps → ∃ ps', partitions t' = .ok ps' ∧ (∀ x, x ∈ sides ps ↔ x ∈ sides ps') ∧
        rf t t' = .ok 0) :=
  SPM.compress_keeps_splits g t ht

/-- `rescale k` scales the abstract tree (so RF is unchanged and the weighted distances scale, `C07.rescaling_executable`) -/
theorem rescale_scales_the_tree (a : Arena) (k : Int) (t : Rose) (ht : absRoot a = .ok t) :
    absRoot (rescale a k) = .ok (scaleR k t) :=
  SPM.absRoot_rescale a k t ht

end C05
