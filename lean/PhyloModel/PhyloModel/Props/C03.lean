import PhyloModel.Arena.PruneBTop
import PhyloModel.Arena.Compress3
import PhyloModel.Arena.Group3
import PhyloModel.Arena.Fuel
import PhyloModel.Arena.OneRoot
/-! # C03 — the arena stays one consistent rooted tree under every edit history

Property theorems only (helper lemmas live in `PhyloModel/Arena`).  `AR.Inv` is the arena invariant of the
property: every live non-root node is listed exactly once by the live node it names as parent, parents and
children are live, the two records of a branch length agree, and the cached depth of a child is its
parent's plus one (zero at a root) — hence the depth of every node is its number of edges to the root. -/
namespace C03
open AR

/-- `add_child` preserves the invariant, for every parent argument (a rejected call returns `none`). -/
theorem add_child_preserves (a : Arena) (p : Nat) (e : Option Int) (a' : Arena) (id : Nat)
    (hinv : Inv a) (h : addChild a p e = some (a', id)) : Inv a' ∧ id = a.size ∧ a'.size = a.size + 1 :=
  addChild_inv a p e a' id hinv h

/-- recursive `prune` terminates and preserves the invariant, with the exact frame: a slot dies iff it
    lies below the pruned node; everything else is untouched except the parent's child list. -/
theorem prune_preserves (f D : Nat) (a : Arena) (c : Nat) (hinv : Inv a) (ht : Tomb a) (hl : live a c)
    (hD : ∀ i, live a i → (nd a i).depth ≤ D) (hf : D < f + (nd a c).depth) :
    ∃ a1, pruneF f a c = some a1 ∧ PruneOK2 a a1 c :=
  prune_main2 f D a c hinv ht hl hD hf

/-- `compress_node` (slot updates followed by the depth repair) preserves the invariant. -/
theorem compress_node_preserves (a : Arena) (v p c : Nat) (e : Option Int) (hinv : Inv a) (hlv : live a v)
    (hpar : (nd a v).parent = some p) (hch : (nd a v).children = [c]) (D : Nat)
    (hD : ∀ i, live a i → (nd a i).depth ≤ D) :
    ∃ a', resetF (D + 1) (splice a v p c e) c ((nd (splice a v p c e) p).depth + 1) = some a' ∧ Inv a' :=
  compressNode_inv a v p c e hinv hlv hpar hch D hD

/-- regrouping two distinct children under a fresh node followed by the depth repair on both
    (`merge_children` on siblings, one round of `resolve`) preserves the invariant. -/
theorem group_preserves (a : Arena) (q c1 c2 : Nat) (pe e1 e2 : Option Int) (hinv : Inv a) (hlq : live a q)
    (hm1 : c1 ∈ (nd a q).children) (hm2 : c2 ∈ (nd a q).children) (h12 : c1 ≠ c2) (D : Nat)
    (hD : ∀ i, live a i → (nd a i).depth ≤ D) :
    ∃ b1 b2, resetF (2 * D + 3) (group a q c1 c2 pe e1 e2) c1 ((nd a q).depth + 2) = some b1 ∧
      resetF (2 * D + 3) b1 c2 ((nd a q).depth + 2) = some b2 ∧ Inv b2 :=
  group_inv a q c1 c2 pe e1 e2 hinv hlq hm1 hm2 h12 D hD

/-- `reset_depth_impl` terminates on any acyclic arena (ghost rank `r`), changes nothing but depths and
    sets the depth of every node `k` levels below `x` to `d + k`: from arbitrary stale depths,
    `reset_depths` re-establishes "depth = number of edges to the root". -/
theorem reset_depths_spec (f D : Nat) (r : Nat → Nat) (a : Arena) (x d : Nat) (w : W a r) (hl : live a x)
    (hD : ∀ i, live a i → r i ≤ D) (hf : D < f + r x) :
    ∃ a', resetF f a x d = some a' ∧ ResetOK a a' x d :=
  reset_main f D r a x d w hl hD hf

/-- more fuel never changes the result of the recursive operations -/
theorem fuel_irrelevant (f g : Nat) (hfg : f ≤ g) (a : Arena) (x d : Nat) (a' : Arena) :
    (resetF f a x d = some a' → resetF g a x d = some a') ∧
    (pruneF f a x = some a' → pruneF g a x = some a') :=
  ⟨resetF_mono f g hfg a x d a', pruneF_mono f g hfg a x a'⟩

/-- **every operation**: each public construction or editing operation of the executable model, with
    arbitrary arguments (node ids that are removed, out of range, not siblings, …), maps an arena satisfying
    the invariant (with blank tombstones) to one satisfying it, and never exhausts the recursion fuel the
    executable model supplies — so the model's outcome is the operation's outcome, not an artefact of fuel. -/
theorem every_operation_preserves (a : Arena) (op : Op) (g : Good a) :
    Good (applyOp a op).1 ∧ (applyOp a op).2 ≠ .diverge :=
  applyOp_good op g

/-- **every history**: after any sequence of operations from the empty arena the invariant holds: every
    live non-root node is listed exactly once (`nodup`) by the live node it names as parent, children and
    parents are live, both records of a branch length agree, depths count edges. -/
theorem every_history (ops : List Op) : Inv (runOps #[] ops) ∧ Tomb (runOps #[] ops) :=
  runOps_good ops empty_good

/-- the depth stored for a live node after any history is its number of edges to the root: its chain of
    ancestors has exactly `depth + 1` nodes -/
theorem depth_counts_edges (ops : List Op) (x : Nat) (hl : live (runOps #[] ops) x) :
    ∃ l, Path (runOps #[] ops) l x ∧ l.length = (nd (runOps #[] ops) x).depth + 1 :=
  depth_is_edges_to_root (every_history ops).1 x hl

/-- **exactly one rooted tree**: along any history whose `add` calls (the only operation that creates a
    parentless node) happen on an arena without a live root, the live nodes always form one rooted tree:
    one parentless live node, returned by `get_root`, with every live node below it. -/
theorem one_rooted_tree (ops : List Op) (hadm : AdmissibleRun #[] ops) (x : Nat) (hl : live (runOps #[] ops) x) :
    ∃ t, isRoot (runOps #[] ops) t ∧ getRoot (runOps #[] ops) = some t ∧
      (∀ t', isRoot (runOps #[] ops) t' → t' = t) ∧ ∀ y, live (runOps #[] ops) y → ∃ k, BelowK (runOps #[] ops) t y k := by
  have h0 : AtMostOneRoot (#[] : Arena) := fun i _ hi _ => absurd hi.1.1 (by simp)
  obtain ⟨g, h1⟩ := runOps_oneRoot ops empty_good h0 hadm
  exact one_tree g h1 x hl

/-- no operation other than `add` ever creates a parentless live node -/
theorem no_new_root (a : Arena) (op : Op) (g : Good a) (h1 : AtMostOneRoot a) (hadm : Admissible a op) :
    AtMostOneRoot (applyOp a op).1 :=
  applyOp_oneRoot op g h1 hadm

/-- non-vacuity: an admissible history with an accepted and a refused call; the Boolean form of the
    invariant evaluates to true on its result -/
example : checkInv (runOps #[] [.add none, .addChild 0 (some 3) none, .addChild 0 none (some "x"),
    .addChild 7 none none, .merge 1 2 (some 1) (some 2) none none, .prune 1, .compress]) = true := by decide

/-- non-vacuity: a concrete three-node arena satisfies the invariant's Boolean form -/
example : checkInv ((addChildNamed (addChildNamed (add #[] none).1 0 (some 3) none).1 0 none (some "x")).1) = true := by
  decide

end C03
