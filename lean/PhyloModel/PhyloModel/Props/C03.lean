import PhyloModel.Arena.PruneBTop
import PhyloModel.Arena.Compress3
import PhyloModel.Arena.Group3
import PhyloModel.Arena.Fuel
/-! # C03 — the arena stays one consistent rooted tree under every edit history

Property theorems only (helper lemmas live in `PhyloModel/Arena`).  `AR.Inv` is the arena invariant of the
property: every live non-root node is listed exactly once by the live node it names as parent, parents and
children are live, the two records of a branch length agree, and the cached depth of a child is its
parent's plus one (zero at a root) — hence the depth of every node is its number of edges to the root. -/
namespace C03
open AR

/-- `add_child` preserves the invariant, for every parent argument (a rejected call returns `none`). -/
theorem add_child_preserves (a : Arena) (p : Nat) (e : Option Int) (a' : Arena) (id : Nat)
    (hinv : Inv a) (h : addChild a p e = some (a', id)) : Inv a' ∧ id = a.size ∧ a'.size = a.size + 1 :=
  addChild_inv a p e a' id hinv h

/-- recursive `prune` terminates and preserves the invariant, with the exact frame: a slot dies iff it
    lies below the pruned node; everything else is untouched except the parent's child list. -/
theorem prune_preserves (f D : Nat) (a : Arena) (c : Nat) (hinv : Inv a) (ht : Tomb a) (hl : live a c)
    (hD : ∀ i, live a i → (nd a i).depth ≤ D) (hf : D < f + (nd a c).depth) :
    ∃ a1, pruneF f a c = some a1 ∧ PruneOK2 a a1 c :=
  prune_main2 f D a c hinv ht hl hD hf

/-- `compress_node` (slot updates followed by the depth repair) preserves the invariant. -/
theorem compress_node_preserves (a : Arena) (v p c : Nat) (e : Option Int) (hinv : Inv a) (hlv : live a v)
    (hpar : (nd a v).parent = some p) (hch : (nd a v).children = [c]) (D : Nat)
    (hD : ∀ i, live a i → (nd a i).depth ≤ D) :
    ∃ a', resetF (D + 1) (splice a v p c e) c ((nd (splice a v p c e) p).depth + 1) = some a' ∧ Inv a' :=
  compressNode_inv a v p c e hinv hlv hpar hch D hD

/-- regrouping two distinct children under a fresh node followed by the depth repair on both
    (`merge_children` on siblings, one round of `resolve`) preserves the invariant. -/
theorem group_preserves (a : Arena) (q c1 c2 : Nat) (pe e1 e2 : Option Int) (hinv : Inv a) (hlq : live a q)
    (hm1 : c1 ∈ (nd a q).children) (hm2 : c2 ∈ (nd a q).children) (h12 : c1 ≠ c2) (D : Nat)
    (hD : ∀ i, live a i → (nd a i).depth ≤ D) :
    ∃ b1 b2, resetF (2 * D + 3) (group a q c1 c2 pe e1 e2) c1 ((nd a q).depth + 2) = some b1 ∧
      resetF (2 * D + 3) b1 c2 ((nd a q).depth + 2) = some b2 ∧ Inv b2 :=
  group_inv a q c1 c2 pe e1 e2 hinv hlq hm1 hm2 h12 D hD

/-- `reset_depth_impl` terminates on any acyclic arena (ghost rank `r`), changes nothing but depths and
    sets the depth of every node `k` levels below `x` to `d + k`: from arbitrary stale depths,
    `reset_depths` re-establishes "depth = number of edges to the root". -/
theorem reset_depths_spec (f D : Nat) (r : Nat → Nat) (a : Arena) (x d : Nat) (w : W a r) (hl : live a x)
    (hD : ∀ i, live a i → r i ≤ D) (hf : D < f + r x) :
    ∃ a', resetF f a x d = some a' ∧ ResetOK a a' x d :=
  reset_main f D r a x d w hl hD hf

/-- more fuel never changes the result of the recursive operations -/
theorem fuel_irrelevant (f g : Nat) (hfg : f ≤ g) (a : Arena) (x d : Nat) (a' : Arena) :
    (resetF f a x d = some a' → resetF g a x d = some a') ∧
    (pruneF f a x = some a' → pruneF g a x = some a') :=
  ⟨resetF_mono f g hfg a x d a', pruneF_mono f g hfg a x a'⟩

/-- non-vacuity: a concrete three-node arena satisfies the invariant's Boolean form -/
example : checkInv ((addChildNamed (addChildNamed (add #[] none).1 0 (some 3) none).1 0 none (some "x")).1) = true := by
  decide

end C03
