import PhyloModel.Props.C01
/-! # C16 — every Newick output format is the full output minus exactly the omitted fields

`NW.nodeText`/`NW.toNewickF` mirror `Node::to_newick(format)`/`Tree::to_newick_impl` for the nine
`NewickFormat` values (tables `FM.keepName`, `FM.keepLen`, `FM.keepComment`); `NW.strip f` erases from a
rose tree exactly the fields format `f` omits. -/
namespace C16
open NW
variable {L : Type} {parseLen : Label → Option L} {showLen : L → Label}

/-- the text of format `f` is the full-format text of the stripped tree, for all nine formats -/
theorem format_is_strip (f : FM.Fmt) (t : RTree L) :
    writeF showLen f t = write showLen (strip f t) := by
  rw [NW.format_is_strip showLen f t, writeF_all]

/-- the arena writer, on any arena layout representing `t`, produces that text -/
theorem arena_format (f : FM.Fmt) (a : Array (PNode L)) (i : Nat) (t : RTree L) (h : RepN a i t)
    (fuel : Nat) (hf : ht t ≤ fuel) :
    toNewickF showLen fuel f a i = some (write showLen (strip f t)) := by
  rw [toNewickF_rep showLen f a t fuel i h hf, format_is_strip]

/-- parsing the formatted text yields the same topology carrying only the retained fields -/
theorem format_parses_to_strip (hc : Codec parseLen showLen) (f : FM.Fmt) (t : RTree L)
    (hwf : WFT (strip f t)) :
    ∃ a, parse parseLen (writeF showLen f t ++ [';']) = .done a ∧ Layout a 0 none (strip f t) := by
  rw [format_is_strip]
  exact C01.roundtrip hc (strip f t) hwf

mutual
/-- stripping keeps a tree inside the round-trip domain -/
theorem strip_wf (f : FM.Fmt) : ∀ t : RTree L, WFT t → WFT (strip f t)
  | .node n l c [], h => by
    rw [WFT] at h; rw [strip, WFT]
    refine ⟨?_, ?_, by simp [WFL]⟩
    · unfold keepIf; split <;> simp_all [nameWF]
    · unfold keepIf; split <;> simp_all [commentWF]
  | .node n l c (k :: ks), h => by
    rw [WFT] at h; rw [strip, WFT]
    obtain ⟨h1, h2, h3⟩ := h
    rw [WFL] at h3
    refine ⟨?_, ?_, ?_⟩
    · unfold keepIf; split <;> simp_all [nameWF]
    · unfold keepIf; split <;> simp_all [commentWF]
    · rw [WFL]; exact ⟨strip_wf f k h3.1, stripL_wf f ks h3.2⟩
theorem stripL_wf (f : FM.Fmt) : ∀ ts : List (RTree L), WFL ts → WFL (stripL f ts)
  | [], _ => by simp [stripL, WFL]
  | k :: ks, h => by
    rw [WFL] at h; rw [stripL, WFL]
    exact ⟨strip_wf f k h.1, stripL_wf f ks h.2⟩
end

/-- the nine tables, spelled out: which fields each format keeps on tips / internal nodes -/
example : (FM.keepName .topology true, FM.keepLen .onlyLengths false, FM.keepLen .leafLengthsLeafNames false,
    FM.keepName .internalLengthsLeafNames false, FM.keepComment .noComments) = (false, true, false, false, false) := by
  decide

end C16
