import PhyloModel.Misc.GenNames
import PhyloModel.Misc.GenTreeInv
import PhyloModel.Misc.Caterpillar
import PhyloModel.Props.C17
/-! # C17, remaining clauses — tip names of the random generators, and the caterpillar

* A1 (`ete3_names`, `yule_names`): for every oracle, the naming pass numbers exactly the childless slots with
  `0 … n-1`, bijectively (`GEN.NamesOK`, spelled out by `NamesOK.name_unique`, `.slot_unique`, `.named_is_tip`,
  `.number_used`, `.tip_named`).
* `ete3_is_tree`, `yule_is_tree`: the child lists form a rooted tree (`GEN.GTree`: acyclic, connected,
  one parent per non-root slot) — `GInv` only had the counts and the binary shape.
* A2: `GEN.caterpillar n` (the list of `(parent, tip number)` per slot after the root, in creation order) is
  replayable by `add_child` (`caterpillar_replays`), has `2n-1` slots, the tips `Tip_1 … Tip_n`; the tree it
  describes (`GEN.treeOf`, generic in the parent list and faithful to the replayed arena: `treeOf_faithful`)
  is the comb: every internal node has two kids one of which is a tip, Colless index `(n-1)(n-2)/2`
  (`AR.collessR`, the textbook definition used for C12), which is the maximum over binary trees
  (`colless_le_max`). -/
namespace C17
open GEN

/-! ## A1: names -/

/-- ETE3-like generator: for EVERY sequence of front/back choices, the final deque numbering names exactly the
    tips (childless slots) `Tip_0 … Tip_{n-1}`, bijectively; internal nodes stay unnamed -/
theorem ete3_names (bs : List Bool) :
    ∃ s, runG init bs = some s ∧ GInv s bs.length ∧ NamesOK s (namesByDeque s) (bs.length + 1) := by
  obtain ⟨s, h1, h2⟩ := ete3_valid bs
  exact ⟨s, h1, h2, namesByDeque_ok h2⟩

/-- Yule generator: for EVERY sequence of valid candidate choices, numbering the leaves in arena order names
    exactly the tips `Tip_0 … Tip_{n-1}`, bijectively, increasing with the slot -/
theorem yule_names (ks : List Nat) (hks : ∀ (i : Nat) (hi : i < ks.length), ks[i] ≤ i) :
    ∃ s, runY init ks = some s ∧ GInv s ks.length ∧ NamesOK s (namesByArena s) (ks.length + 1) ∧
      ((namesByArena s).map Prod.fst).Pairwise (· < ·) := by
  obtain ⟨s, h1, h2⟩ := yule_valid ks init 0 ginv_init (by simpa using hks)
  have h2' : GInv s ks.length := by simpa using h2
  exact ⟨s, h1, h2', namesByArena_ok h2', namesByArena_sorted s⟩

/-- ETE3-like generator: for every oracle the child lists form a rooted tree with root `0` (children are
    later slots than their parent, every other slot has exactly one parent) -/
theorem ete3_is_tree (bs : List Bool) : ∃ s, runG init bs = some s ∧ GInv s bs.length ∧ GTree s := by
  obtain ⟨s, h1, h2⟩ := ete3_valid bs
  exact ⟨s, h1, h2, runG_gtree bs init 0 ginv_init gtree_init s h1⟩

/-- Yule generator: the same -/
theorem yule_is_tree (ks : List Nat) (hks : ∀ (i : Nat) (hi : i < ks.length), ks[i] ≤ i) :
    ∃ s, runY init ks = some s ∧ GInv s ks.length ∧ GTree s := by
  obtain ⟨s, h1, h2⟩ := yule_valid ks init 0 ginv_init (by simpa using hks)
  exact ⟨s, h1, by simpa using h2, runY_gtree ks init 0 ginv_init gtree_init s h1⟩

/-- non-vacuity / sanity: n = 5, the names and the child lists by evaluation -/
example : (runG init [true, false, true, false]).map namesByDeque = some [(3, 0), (4, 1), (5, 2), (7, 3), (8, 4)] ∧
    (runG init [true, false, true, false]).map (fun s => (List.range s.size).map s.kids) =
      some [[1, 2], [5, 6], [3, 4], [], [], [], [7, 8], [], []] := by decide
example : (runY init [0, 1, 0, 2]).map namesByArena = some [(4, 0), (5, 1), (6, 2), (7, 3), (8, 4)] ∧
    (runY init [0, 1, 0, 2]).map (fun s => (List.range s.size).map s.kids) =
      some [[1, 2], [3, 4], [5, 6], [7, 8], [], [], [], [], []] := by decide
example : ∀ (i : Nat) (hi : i < [0, 1, 0, 2].length), [0, 1, 0, 2][i] ≤ i := by decide

/-! ## A2: the caterpillar -/

/-- `2(n-1)` entries: with the root, `2n-1` slots -/
theorem caterpillar_length (n : Nat) : (caterpillar n).length = 2 * (n - 1) := by
  rw [caterpillar_eq_cat, cat_length]

theorem caterpillar_slots (n : Nat) (hn : 1 ≤ n) : (caterpillar n).length + 1 = 2 * n - 1 := by
  rw [caterpillar_length]; omega

theorem caterpillar_wf (n : Nat) : parentsEarlier 1 (caterpillar n) := by
  rw [caterpillar_eq_cat]; exact cat_parentsEarlier _ _ _ _ (by omega)

/-- the parent of slot `j + 1` is one of the slots `0 … j` -/
theorem caterpillar_parents_earlier (n : Nat) (j : Nat) (h : j < (caterpillar n).length) :
    (caterpillar n)[j].1 ≤ j := by
  have := (parentsEarlier_iff _ _).1 (caterpillar_wf n) j h
  omega

/-- replaying the `add_child` calls never fails; the result has `2n-1` slots, the child lists and tip numbers
    of the list -/
theorem caterpillar_replays (n : Nat) (hn : 1 ≤ n) :
    ∃ s, replay rootOnly (caterpillar n) = some s ∧ s.size = 2 * n - 1 ∧
      (∀ q, s.kids q = childSlots 1 (caterpillar n) q) ∧ s.label 0 = none ∧
      (∀ (j : Nat) (h : j < (caterpillar n).length), s.label (j + 1) = (caterpillar n)[j].2) := by
  obtain ⟨s, e, hs, hk, hl, hn'⟩ := replay_spec (caterpillar n) rootOnly (caterpillar_wf n)
  refine ⟨s, e, ?_, ?_, ?_, ?_⟩
  · rw [hs, caterpillar_length]; simp [rootOnly]; omega
  · intro q; rw [hk q]; simp [rootOnly]
  · rw [hl 0 (by simp [rootOnly])]; rfl
  · intro j h
    have := hn' j h
    simp only [rootOnly] at this
    rw [Nat.add_comm]; exact this

/-- GENERIC: for every well-formed parent list the reconstructed tree `treeOf l` is the abstraction of the
    arena obtained by replaying `add_child`: every node sits in a slot of the arena, its kids are the arena's
    child list of that slot (same order) and it carries the arena's tip number -/
theorem treeOf_faithful (l : List (Nat × Option Nat)) (h : parentsEarlier 1 l) :
    ∃ s, replay rootOnly l = some s ∧ s.size = l.length + 1 ∧
      ∀ x ∈ (treeOf l).nodes, x.slot < s.size ∧ x.kids.map CT.slot = s.kids x.slot ∧ x.label = s.label x.slot := by
  obtain ⟨s, e, hs, hk, hl, hn⟩ := replay_spec l rootOnly h
  have hs' : s.size = l.length + 1 := by rw [hs]; simp [rootOnly]; omega
  refine ⟨s, e, hs', ?_⟩
  intro x hx
  rw [treeOf, CT.nodes_node, List.mem_cons] at hx
  rcases hx with rfl | hx
  · refine ⟨by simp [CT.slot, hs'], ?_, ?_⟩
    · simp only [CT.kids, CT.slot]; rw [forest_slots, hk 0]; simp [rootOnly]
    · simp only [CT.label, CT.slot]; rw [hl 0 (by simp [rootOnly])]; rfl
  · obtain ⟨h1, j, hj, h2, h3⟩ := forest_faithful l 1 0 h x hx
    refine ⟨by omega, ?_, ?_⟩
    · rw [h1, hk x.slot]; simp [rootOnly]
    · have := hn j hj
      simp only [rootOnly] at this
      rw [h3, h2, this]

/-- the tree of the caterpillar generator -/
def catTree (n : Nat) : CT := treeOf (caterpillar n)

theorem catTree_eq (n : Nat) : catTree n = .node 0 none (combKids (n - 1) 1 1) := treeOf_caterpillar n

/-- the caterpillar tree is the abstraction of the arena built by the `add_child` calls -/
theorem catTree_faithful (n : Nat) (hn : 1 ≤ n) :
    ∃ s, replay rootOnly (caterpillar n) = some s ∧ s.size = 2 * n - 1 ∧
      ∀ x ∈ (catTree n).nodes, x.slot < s.size ∧ x.kids.map CT.slot = s.kids x.slot ∧ x.label = s.label x.slot := by
  obtain ⟨s, e, hs, hx⟩ := treeOf_faithful (caterpillar n) (caterpillar_wf n)
  exact ⟨s, e, by rw [hs]; exact caterpillar_slots n hn, hx⟩

/-! ### the nodes of the comb -/

theorem nodesL_comb_one (i sz : Nat) :
    CT.nodesL (combKids 1 i sz) = [.node sz (some i) [], .node (sz + 1) (some (i + 1)) []] := by
  simp [combKids, CT.nodesL_cons, CT.nodes_node, CT.nodesL_nil]

theorem nodesL_comb_succ (m i sz : Nat) :
    CT.nodesL (combKids (m + 2) i sz) =
      .node sz none (combKids (m + 1) (i + 1) (sz + 2)) ::
        (CT.nodesL (combKids (m + 1) (i + 1) (sz + 2)) ++ [.node (sz + 1) (some i) []]) := by
  simp [combKids, CT.nodesL_cons, CT.nodes_node, CT.nodesL_nil]

/-- a comb level has two kids, the second one a numbered tip -/
theorem combKids_two : ∀ (m i sz : Nat), ∃ a b, combKids (m + 1) i sz = [a, b] ∧ b.kids = [] ∧ b.label.isSome
  | 0, i, sz => ⟨_, _, by rw [combKids], rfl, rfl⟩
  | m + 1, i, sz => ⟨_, _, by rw [combKids], rfl, rfl⟩

/-- the property of a node of a comb: a numbered tip, or an unnumbered node with exactly two kids at least
    one of which is a tip -/
def CombNode (x : CT) : Prop :=
  (x.kids = [] ∧ x.label.isSome) ∨ (x.label = none ∧ ∃ a b, x.kids = [a, b] ∧ (a.kids = [] ∨ b.kids = []))

theorem combNode_inner (s m i sz : Nat) : CombNode (.node s none (combKids (m + 1) i sz)) := by
  obtain ⟨a, b, h, hb, _⟩ := combKids_two m i sz
  exact Or.inr ⟨rfl, a, b, by simp [CT.kids, h], Or.inr hb⟩

theorem comb_nodes : ∀ (m i sz : Nat), ∀ x ∈ CT.nodesL (combKids m i sz), CombNode x
  | 0, _, _ => by simp [combKids, CT.nodesL_nil]
  | 1, i, sz => by
    rw [nodesL_comb_one]
    intro x hx
    simp only [List.mem_cons, List.not_mem_nil, or_false] at hx
    rcases hx with rfl | rfl <;> exact Or.inl ⟨rfl, rfl⟩
  | m + 2, i, sz => by
    rw [nodesL_comb_succ]
    intro x hx
    simp only [List.mem_cons, List.mem_append, List.not_mem_nil, or_false] at hx
    rcases hx with rfl | hx | rfl
    · exact combNode_inner _ _ _ _
    · exact comb_nodes (m + 1) (i + 1) (sz + 2) x hx
    · exact Or.inl ⟨rfl, rfl⟩

theorem comb_slots : ∀ (m i sz : Nat), ((CT.nodesL (combKids m i sz)).map CT.slot).Perm (List.range' sz (2 * m))
  | 0, _, _ => by simp [combKids, CT.nodesL_nil]
  | 1, i, sz => by rw [nodesL_comb_one]; simp [CT.slot, List.range']
  | m + 2, i, sz => by
    rw [nodesL_comb_succ]
    have ih := comb_slots (m + 1) (i + 1) (sz + 2)
    have e : 2 * (m + 2) = 2 * (m + 1) + 1 + 1 := by omega
    rw [e, List.range'_succ, List.range'_succ]
    simp only [List.map_cons, List.map_append, List.map_nil, CT.slot]
    refine List.Perm.cons _ ?_
    refine List.perm_append_comm.trans ?_
    simpa using ih

theorem comb_labels : ∀ (m i sz : Nat),
    ((CT.nodesL (combKids (m + 1) i sz)).filterMap CT.label).Perm (List.range' i (m + 2))
  | 0, i, sz => by rw [nodesL_comb_one]; simp [CT.label, List.range']
  | m + 1, i, sz => by
    rw [nodesL_comb_succ]
    have ih := comb_labels m (i + 1) (sz + 2)
    rw [List.range'_succ]
    simp only [List.filterMap_cons, List.filterMap_append, List.filterMap_nil, CT.label]
    refine List.perm_append_comm.trans ?_
    simpa using ih

/-! ### the caterpillar tree: slots, tips, shape -/

/-- the tree contains every slot `0 … 2n-2` exactly once -/
theorem catTree_slots (n : Nat) (hn : 1 ≤ n) : ((catTree n).nodes.map CT.slot).Perm (List.range (2 * n - 1)) := by
  rw [catTree_eq, CT.nodes_node, List.map_cons, List.range_eq_range']
  have e : 2 * n - 1 = 2 * (n - 1) + 1 := by omega
  rw [e, List.range'_succ]
  exact List.Perm.cons _ (comb_slots (n - 1) 1 1)

theorem catTree_size (n : Nat) (hn : 1 ≤ n) : (catTree n).nodes.length = 2 * n - 1 := by
  have := (catTree_slots n hn).length_eq
  simpa using this

/-- the tip numbers in creation order are `1, 2, …, n` (`Tip_1 … Tip_n`) -/
theorem cat_tip_numbers : ∀ (m i p sz : Nat), (cat (m + 1) i p sz).filterMap Prod.snd = List.range' i (m + 2)
  | 0, i, p, sz => by simp [cat, List.range']
  | m + 1, i, p, sz => by
    rw [cat, List.range'_succ]
    simp [cat_tip_numbers m (i + 1) sz (sz + 2)]

theorem caterpillar_tip_numbers (n : Nat) (hn : 2 ≤ n) : (caterpillar n).filterMap Prod.snd = List.range' 1 n := by
  obtain ⟨m, rfl⟩ : ∃ m, n = m + 2 := ⟨n - 2, by omega⟩
  rw [caterpillar_eq_cat]
  exact cat_tip_numbers m 1 0 1

/-- every node of the caterpillar tree is either a numbered tip or an unnumbered internal node with exactly
    two kids, at least one of them a tip: the comb -/
theorem catTree_comb (n : Nat) (hn : 2 ≤ n) : ∀ x ∈ (catTree n).nodes, CombNode x := by
  obtain ⟨m, rfl⟩ : ∃ m, n = m + 2 := ⟨n - 2, by omega⟩
  rw [catTree_eq, CT.nodes_node]
  intro x hx
  rcases List.mem_cons.1 hx with rfl | hx
  · exact combNode_inner _ _ _ _
  · exact comb_nodes _ _ _ x hx

/-- a node is a tip iff it carries a number -/
theorem catTree_tip_iff_numbered (n : Nat) (hn : 2 ≤ n) : ∀ x ∈ (catTree n).nodes, (x.kids = [] ↔ x.label.isSome) := by
  intro x hx
  rcases catTree_comb n hn x hx with ⟨h1, h2⟩ | ⟨h1, a, b, h2, _⟩
  · simp [h1, h2]
  · simp [h1, h2]

/-- the numbers carried by the nodes are `1 … n`, each exactly once: exactly `n` tips, uniquely named -/
theorem catTree_tip_numbers (n : Nat) (hn : 2 ≤ n) : ((catTree n).nodes.filterMap CT.label).Perm (List.range' 1 n) := by
  obtain ⟨m, rfl⟩ : ∃ m, n = m + 2 := ⟨n - 2, by omega⟩
  rw [catTree_eq, CT.nodes_node]
  simp only [List.filterMap_cons, CT.label]
  exact comb_labels m 1 1

/-- the number of tips is `n` -/
theorem catTree_tip_count (n : Nat) (hn : 2 ≤ n) : ((catTree n).nodes.filter (fun x => x.kids.isEmpty)).length = n := by
  have h1 := (catTree_tip_numbers n hn).length_eq
  rw [List.length_range'] at h1
  have : ∀ l : List CT, (∀ x ∈ l, (x.kids = [] ↔ x.label.isSome)) →
      (l.filter (fun x => x.kids.isEmpty)).length = (l.filterMap CT.label).length := by
    intro l
    induction l with
    | nil => simp
    | cons a l ih =>
      intro h
      have ha := h a (by simp)
      have ih' := ih (fun x hx => h x (by simp [hx]))
      cases hl : a.label with
      | none =>
        have : a.kids ≠ [] := by rw [hl] at ha; simpa using ha
        simp [hl, this, ih', List.isEmpty_iff]
      | some v =>
        have : a.kids = [] := by rw [hl] at ha; simpa using ha
        simp [hl, this, ih']
  exact (this _ (catTree_tip_iff_numbered n hn)).trans h1

/-! ### shape statistics (the C12 definitions) -/

mutual
theorem nodesNL_toNL : ∀ t : CT, AR.nodesNL (toNL t) = t.nodes.map toNL
  | .node s l ks => by rw [toNL, AR.nodesNL, CT.nodes, List.map_cons, nodesNLL_toNLL ks, toNL]
theorem nodesNLL_toNLL : ∀ ts : List CT, AR.nodesNLL (toNLL ts) = (CT.nodesL ts).map toNL
  | [] => by rw [toNLL, AR.nodesNLL, CT.nodesL]; rfl
  | t :: ts => by rw [toNLL, AR.nodesNLL, CT.nodesL, List.map_append, nodesNL_toNL t, nodesNLL_toNLL ts]
end

theorem toNLL_length : ∀ ts : List CT, (toNLL ts).length = ts.length
  | [] => by simp [toNLL]
  | t :: ts => by rw [toNLL, List.length_cons, List.length_cons, toNLL_length ts]

theorem toNL_kids (t : CT) : (toNL t).kids = toNLL t.kids := by
  cases t; rw [toNL]; rfl

theorem collessNL_tip (x : Option String) : AR.collessNL (.node x none []) = 0 := by
  rw [AR.collessNL_node]; simp [AR.collessTermNL, AR.RoseNL.kids]

/-- tip count and Colless index of a comb level -/
theorem comb_stats : ∀ (m s : Nat) (l : Option Nat) (i sz : Nat),
    AR.nLeavesNL (toNL (.node s l (combKids (m + 1) i sz))) = m + 2 ∧
    2 * AR.collessNL (toNL (.node s l (combKids (m + 1) i sz))) = (m + 1) * m
  | 0, s, l, i, sz => by
    simp only [combKids, toNL, toNLL]
    rw [AR.nLeavesNL_inner, AR.collessNL_node]
    simp [AR.nLeavesNL_tip, AR.collessNL_node, AR.collessTermNL, AR.RoseNL.kids, AR.absDiff]
  | m + 1, s, l, i, sz => by
    obtain ⟨ih1, ih2⟩ := comb_stats m sz none (i + 1) (sz + 2)
    simp only [combKids, toNL, toNLL] at ih1 ih2 ⊢
    rw [AR.nLeavesNL_inner, AR.collessNL_node]
    simp only [AR.collessTermNL, AR.RoseNL.kids, List.map_cons, List.map_nil, List.sum_cons, List.sum_nil, ih1,
      AR.nLeavesNL_tip, collessNL_tip, AR.absDiff]
    constructor
    · omega
    · have : ¬ (m + 2 ≤ 1) := by omega
      simp only [this, ↓reduceIte, Nat.add_zero]
      have e : (m + 1 + 1) * (m + 1) = (m + 1) * m + 2 * (m + 1) := by
        simp only [Nat.add_mul, Nat.mul_add]; omega
      omega

/-- the caterpillar tree as the statistics see it (C12): `n` leaves, rooted, binary, and its Colless index is
    `(n-1)(n-2)/2` -/
theorem catTree_stats (n : Nat) (hn : 2 ≤ n) :
    AR.nLeavesR (toRose 0 (catTree n)) = n ∧ AR.isRootedR (toRose 0 (catTree n)) = true ∧
    AR.isBinaryR (toRose 0 (catTree n)) = true ∧
    AR.collessR (toRose 0 (catTree n)) = (n - 1) * (n - 2) / 2 := by
  simp only [AR.nLeavesR, AR.isRootedR, AR.isBinaryR, AR.collessR, erase_toRose]
  obtain ⟨m, rfl⟩ : ∃ m, n = m + 2 := ⟨n - 2, by omega⟩
  have hc := catTree_comb (m + 2) hn
  rw [catTree_eq] at hc ⊢
  obtain ⟨h1, h2⟩ := comb_stats m 0 none 1 1
  have e1 : m + 2 - 1 = m + 1 := by omega
  rw [e1] at hc ⊢
  obtain ⟨a, b, hab, _, _⟩ := combKids_two m 1 1
  refine ⟨h1, ?_, ?_, ?_⟩
  · simp [AR.isRootedNL, toNL_kids, toNLL_length, CT.kids, hab]
  · simp only [AR.isBinaryNL, toNL_kids, toNLL_length, CT.kids, nodesNLL_toNLL, Bool.and_eq_true,
      decide_eq_true_eq, List.all_eq_true, List.mem_map]
    refine ⟨by rw [hab]; simp, ?_⟩
    rintro _ ⟨x, hx, rfl⟩
    rw [toNL_kids, toNLL_length]
    have := hc x (by rw [CT.nodes_node]; exact List.mem_cons_of_mem _ hx)
    rcases this with ⟨h, _⟩ | ⟨_, a', b', h, _⟩ <;> simp [h]
  · have e2 : m + 2 - 2 = m := by omega
    rw [e2, ← h2]; omega

mutual
theorem nodesR_toRose : ∀ (t : CT) (d : Nat), (AR.nodesR (toRose d t)).map AR.Rose.id = t.nodes.map CT.slot
  | .node s l ks, d => by
    rw [toRose, AR.nodesR, CT.nodes, List.map_cons, List.map_cons, nodesRL_toRoseL ks (d + 1)]; rfl
theorem nodesRL_toRoseL : ∀ (ts : List CT) (d : Nat),
    (AR.nodesRL (toRoseL d ts)).map AR.Rose.id = (CT.nodesL ts).map CT.slot
  | [], d => by rw [toRoseL, AR.nodesRL, CT.nodesL]; rfl
  | t :: ts, d => by
    rw [toRoseL, AR.nodesRL, CT.nodesL, List.map_append, List.map_append, nodesR_toRose t d, nodesRL_toRoseL ts d]
end

/-- as an abstract arena tree the caterpillar has the node ids `0 … 2n-2`, each once -/
theorem catTree_ids (n : Nat) (hn : 1 ≤ n) : (AR.idsR (toRose 0 (catTree n))).Perm (List.range (2 * n - 1)) := by
  rw [AR.idsR, nodesR_toRose]; exact catTree_slots n hn

/-- C17, caterpillar, all clauses together: for `n ≥ 2` the `add_child` calls never fail and build `2n-1`
    slots; the tree they describe contains every slot once, its numbered nodes are exactly the tips and
    carry `1 … n` once each, every internal node has exactly two kids at least one of which is a tip, and
    the C12 statistics see `n` leaves, a rooted binary tree and Colless index `(n-1)(n-2)/2` -/
theorem caterpillar_summary (n : Nat) (hn : 2 ≤ n) :
    (∃ s, replay rootOnly (caterpillar n) = some s ∧ s.size = 2 * n - 1 ∧
      ∀ x ∈ (catTree n).nodes, x.slot < s.size ∧ x.kids.map CT.slot = s.kids x.slot ∧ x.label = s.label x.slot) ∧
    ((catTree n).nodes.map CT.slot).Perm (List.range (2 * n - 1)) ∧
    ((catTree n).nodes.filterMap CT.label).Perm (List.range' 1 n) ∧
    (∀ x ∈ (catTree n).nodes, CombNode x) ∧
    AR.nLeavesR (toRose 0 (catTree n)) = n ∧ AR.isRootedR (toRose 0 (catTree n)) = true ∧
    AR.isBinaryR (toRose 0 (catTree n)) = true ∧
    AR.collessR (toRose 0 (catTree n)) = (n - 1) * (n - 2) / 2 :=
  ⟨catTree_faithful n (by omega), catTree_slots n (by omega), catTree_tip_numbers n hn, catTree_comb n hn,
    catTree_stats n hn⟩

/-! ### `(n-1)(n-2)/2` is the largest Colless index of a binary tree with `n` leaves -/

/-- `tri k = k(k-1)/2`, subtraction-free -/
def tri : Nat → Nat
  | 0 => 0
  | k + 1 => tri k + k

theorem tri_add (a : Nat) : ∀ b, tri (a + b + 1) = tri a + tri b + a * b + a + b
  | 0 => by simp [tri]
  | b + 1 => by
    have ih := tri_add a b
    have e : a + (b + 1) + 1 = (a + b + 1) + 1 := by omega
    rw [e, tri, ih, tri, Nat.mul_succ]; omega

theorem two_tri : ∀ k, 2 * tri (k + 1) = (k + 1) * k
  | 0 => by simp [tri]
  | k + 1 => by
    have ih := two_tri k
    rw [tri, Nat.mul_add, ih]
    simp only [Nat.add_mul, Nat.mul_add]; omega

theorem tri_eq (k : Nat) : tri k = k * (k - 1) / 2 := by
  cases k with
  | zero => simp [tri]
  | succ k => have := two_tri k; simp only [Nat.add_sub_cancel]; omega

/-- plain binary tree shapes -/
inductive BT where
  | tip
  | node (l r : BT)

def BT.leaves : BT → Nat
  | .tip => 1
  | .node l r => l.leaves + r.leaves

/-- textbook Colless index: sum over the internal nodes of `|L − R|` -/
def BT.colless : BT → Nat
  | .tip => 0
  | .node l r => AR.absDiff l.leaves r.leaves + l.colless + r.colless

/-- a binary shape as a tree of the statistics -/
def BT.toNL : BT → AR.RoseNL
  | .tip => .node none none []
  | .node l r => .node none none [l.toNL, r.toNL]

/-- `BT.leaves`, `BT.colless` are the C12 definitions on binary shapes -/
theorem BT.toNL_stats : ∀ t : BT, AR.nLeavesNL t.toNL = t.leaves ∧ AR.collessNL t.toNL = t.colless
  | .tip => by simp [BT.toNL, BT.leaves, BT.colless, AR.nLeavesNL_tip, collessNL_tip]
  | .node l r => by
    obtain ⟨h1, h2⟩ := BT.toNL_stats l
    obtain ⟨h3, h4⟩ := BT.toNL_stats r
    rw [BT.toNL, AR.nLeavesNL_inner, AR.collessNL_node]
    simp [AR.collessTermNL, AR.RoseNL.kids, h1, h2, h3, h4, BT.leaves, BT.colless]; omega

theorem BT.leaves_pos : ∀ t : BT, 1 ≤ t.leaves
  | .tip => by simp [BT.leaves]
  | .node l r => by have := BT.leaves_pos l; simp [BT.leaves]; omega

theorem colless_le_tri : ∀ t : BT, t.colless ≤ tri (t.leaves - 1)
  | .tip => by simp [BT.colless]
  | .node l r => by
    have h1 := colless_le_tri l
    have h2 := colless_le_tri r
    have p1 := BT.leaves_pos l
    have p2 := BT.leaves_pos r
    obtain ⟨a, ha⟩ : ∃ a, l.leaves = a + 1 := ⟨l.leaves - 1, by omega⟩
    obtain ⟨b, hb⟩ : ∃ b, r.leaves = b + 1 := ⟨r.leaves - 1, by omega⟩
    simp only [BT.colless, BT.leaves, AR.absDiff, ha, hb] at h1 h2 ⊢
    have e0 : a + 1 + (b + 1) - 1 = a + b + 1 := by omega
    rw [e0, tri_add]
    simp only [Nat.add_sub_cancel] at h1 h2
    split <;> omega

/-- no binary tree with `n` leaves has a larger Colless index than `(n-1)(n-2)/2`, the caterpillar's -/
theorem colless_le_max (t : BT) : t.colless ≤ (t.leaves - 1) * (t.leaves - 2) / 2 := by
  have h := colless_le_tri t
  rw [tri_eq] at h
  have e : t.leaves - 1 - 1 = t.leaves - 2 := by omega
  rwa [e] at h

/-- the same, for the C12 definitions -/
theorem collessNL_le_max (t : BT) :
    AR.collessNL t.toNL ≤ (AR.nLeavesNL t.toNL - 1) * (AR.nLeavesNL t.toNL - 2) / 2 := by
  rw [(BT.toNL_stats t).1, (BT.toNL_stats t).2]; exact colless_le_max t

/-! ### non-vacuity: n = 2, 3, 5 by evaluation -/

example : caterpillar 2 = [(0, some 1), (0, some 2)] := by decide
example : caterpillar 3 = [(0, none), (0, some 1), (1, some 2), (1, some 3)] := by decide
example : caterpillar 5 = [(0, none), (0, some 1), (1, none), (1, some 2), (3, none), (3, some 3), (5, some 4), (5, some 5)] := by
  decide
example : (catTree 2).nodes.map CT.slot = [0, 1, 2] ∧ (catTree 2).nodes.filterMap CT.label = [1, 2] ∧
    AR.collessR (toRose 0 (catTree 2)) = 0 ∧ AR.nLeavesR (toRose 0 (catTree 2)) = 2 := by decide
example : (catTree 3).nodes.map CT.slot = [0, 1, 3, 4, 2] ∧ (catTree 3).nodes.filterMap CT.label = [2, 3, 1] ∧
    AR.collessR (toRose 0 (catTree 3)) = 1 ∧ AR.nLeavesR (toRose 0 (catTree 3)) = 3 := by decide
example : (catTree 5).nodes.map CT.slot = [0, 1, 3, 5, 7, 8, 6, 4, 2] ∧
    (catTree 5).nodes.filterMap CT.label = [4, 5, 3, 2, 1] ∧
    AR.collessR (toRose 0 (catTree 5)) = 6 ∧ AR.nLeavesR (toRose 0 (catTree 5)) = 5 ∧
    AR.isBinaryR (toRose 0 (catTree 5)) = true ∧ AR.isRootedR (toRose 0 (catTree 5)) = true ∧
    AR.sackinR (toRose 0 (catTree 5)) = 14 := by decide
example : catTree 3 = .node 0 none [.node 1 none [.node 3 (some 2) [], .node 4 (some 3) []], .node 2 (some 1) []] := rfl
example : (replay rootOnly (caterpillar 5)).map (fun s => (s.size, (List.range s.size).map s.kids, (List.range s.size).map s.label)) =
    some (9, [[1, 2], [3, 4], [], [5, 6], [], [7, 8], [], [], []],
      [none, none, some 1, none, some 2, none, some 3, some 4, some 5]) := by decide
/-- a list with a forward reference is refused by the replay -/
example : (replay rootOnly [(0, none), (3, some 1)]).isNone = true := by decide

end C17
