#!/usr/bin/env python3
"""lean/translate_formats.py [repo]  -> writes lean/PhyloModel/PhyloModel/Props/C16Source.lean

A small TRANSLATOR (the second kind of tie named in DESIGN.md): the per-format field selection of `Node::to_newick`
(src/tree/node.rs) and the list of `NewickFormat` variants (src/tree/mod.rs) are table-like code.  This script reads them from the
CURRENT source and regenerates a Lean table from what the code says now, together with the theorem that the hand-written model
(`FM.keepName` / `FM.keepLen` / `FM.keepComment`, which every C16 theorem is about and the driver runs) selects exactly the same
fields for every format and for tips and internal nodes.  `check` runs it before building C16's proof obligations, so a change of
the table in the source breaks a proof obligation.

The translator only understands the shape the function has today (three selections: `match format { A | B => repr += &self.format_x(),
C => { if [!]self.is_tip() { repr += ... } } _ => () }` and `if let NewickFormat::X = format { ... format_comment() }`).  When the
source no longer has that shape (a rewrite), it says so in the generated file (`recognised := false`, no agreement theorem) and the
table stays tied by the correspondence check alone — a changed shape is not a violation."""
import os, re, sys

REPO = sys.argv[1] if len(sys.argv) > 1 else os.environ.get("VERIF_REPO", "/repo")
HERE = os.path.dirname(os.path.abspath(__file__))
OUT = os.path.join(HERE, "PhyloModel", "PhyloModel", "Props", "C16Source.lean")
LEAN_NAMES = {"AllFields": "allFields", "Topology": "topology", "NoComments": "noComments", "OnlyNames": "onlyNames", "OnlyLengths": "onlyLengths",
              "LeafLengthsAllNames": "leafLengthsAllNames", "LeafLengthsLeafNames": "leafLengthsLeafNames",
              "InternalLengthsLeafNames": "internalLengthsLeafNames", "AllLengthsLeafNames": "allLengthsLeafNames"}

def strip_comments(s):
    return re.sub(r"//[^\n]*", "", s)

def matching_brace(s, i):
    """index of the brace closing the one at s[i]"""
    d = 0
    for k in range(i, len(s)):
        if s[k] == "{": d += 1
        elif s[k] == "}":
            d -= 1
            if d == 0: return k
    return -1

def parse():
    mod = strip_comments(open(os.path.join(REPO, "src/tree/mod.rs")).read())
    m = re.search(r"pub enum NewickFormat\s*\{", mod)
    if not m: return None, "enum NewickFormat not found"
    body = mod[m.end():matching_brace(mod, m.end() - 1)]
    variants = [v.strip() for v in body.split(",") if v.strip()]
    if sorted(variants) != sorted(LEAN_NAMES): return None, f"the variants of NewickFormat are {variants}"
    node = strip_comments(open(os.path.join(REPO, "src/tree/node.rs")).read())
    m = re.search(r"pub fn to_newick\(&self, format: NewickFormat\) -> String\s*\{", node)
    if not m: return None, "Node::to_newick(&self, format: NewickFormat) not found"
    fn = node[m.end():matching_brace(node, m.end() - 1)]
    sel = {"name": {}, "length": {}, "comment": {}}
    pos = 0
    blocks = []
    while True:
        mm = re.compile(r"match format\s*\{").search(fn, pos)
        if not mm: break
        end = matching_brace(fn, mm.end() - 1)
        blocks.append(fn[mm.end():end]); pos = end
    rest = fn
    for b in blocks: rest = rest.replace(b, "")
    if len(blocks) != 2: return None, f"{len(blocks)} `match format` blocks (2 expected)"
    for b in blocks:
        which = "name" if "format_name" in b else "length" if "format_length" in b else None
        if which is None or ("format_name" in b and "format_length" in b): return None, "a match block that selects neither exactly the name nor exactly the length"
        # arms: patterns => body ; bodies are either an expression up to the comma or a braced block
        i = 0; seen_default = False
        while i < len(b):
            am = re.compile(r"\s*((?:NewickFormat::\w+\s*\|?\s*)+|_)\s*=>\s*").match(b, i)
            if not am:
                if b[i:].strip() in ("", ","): break
                return None, f"unrecognised arm near: {b[i:i+60]!r}"
            pats = re.findall(r"NewickFormat::(\w+)", am.group(1))
            j = am.end()
            if b[j] == "{":
                e = matching_brace(b, j); arm_body = b[j + 1:e]; j = e + 1
            else:
                e = b.find(",", j); e = len(b) if e < 0 else e; arm_body = b[j:e]; j = e
            while j < len(b) and b[j] in ", \n\t": j += 1
            i = j
            if am.group(1).strip() == "_":
                if arm_body.strip() not in ("()", ""): return None, "the default arm does something"
                seen_default = True; continue
            if f"format_{which}" not in arm_body: return None, f"an arm of the {which} block does not call format_{which}"
            cond = "tips" if re.search(r"if\s+self\.is_tip\(\)", arm_body) else "internal" if re.search(r"if\s+!\s*self\.is_tip\(\)", arm_body) else "always"
            if cond == "always" and "if" in arm_body: return None, "a condition that is neither is_tip() nor !is_tip()"
            for p in pats:
                if p in sel[which]: return None, f"{p} appears in two arms"
                sel[which][p] = cond
        if not seen_default and len(sel[which]) != len(variants): return None, "no default arm"
    cm = re.search(r"if let NewickFormat::(\w+)\s*=\s*format\s*\{([^}]*)\}", rest)
    if not cm or "format_comment" not in cm.group(2): return None, "the comment selection is not `if let NewickFormat::X = format { .. format_comment() }`"
    sel["comment"][cm.group(1)] = "always"
    return (variants, sel), None

def lean_sel(c): return {"always": "fun _ => true", "tips": "fun tip => tip", "internal": "fun tip => !tip", "never": "fun _ => false"}[c]

res, why = parse()
head = ("import PhyloModel.Misc.FormatStrip\n"
        "/-! # C16 — the field-selection table REGENERATED FROM THE SOURCE on every run (lean/translate_formats.py)\n\n"
        "GENERATED FILE — do not edit.  Source: `Node::to_newick` in src/tree/node.rs and `enum NewickFormat` in src/tree/mod.rs of the\n"
        "working tree the check runs against. -/\nnamespace C16\nopen FM\n\n")
if res is None:
    body = (f"/-- the translator did not recognise the shape of `Node::to_newick` ({why}): no table was generated and the model's\n"
            "    table is tied to the code by the correspondence check alone -/\ndef sourceTableRecognised : Bool := false\n\n")
else:
    variants, sel = res
    def table(which):
        arms = "\n".join(f"  | .{LEAN_NAMES[v]} => {lean_sel(sel[which].get(v, 'never'))}" for v in variants)
        return f"def src{which.capitalize()} : Fmt → Bool → Bool\n{arms}\n"
    body = ("def sourceTableRecognised : Bool := true\n\n"
            f"/-- the variants of `NewickFormat` in declaration order, as the source lists them -/\ndef srcVariants : List String := {variants!r}\n\n".replace("'", '"')
            + "/-- which formats print the NAME, as a function of `is_tip()` — read off the source -/\n" + table("name")
            + "\n/-- which formats print the LENGTH — read off the source -/\n" + table("length")
            + "\n/-- which formats print the COMMENT — read off the source -/\n" + table("comment")
            + "\n/-- **the hand-written model selects exactly the fields the source selects**, for each of the nine formats and for tips and\n"
              "    internal nodes: every C16 theorem (`format_is_strip`, parse-back, Nexus) is therefore about the table the code has NOW -/\n"
              "theorem model_table_is_source_table (f : Fmt) (tip : Bool) :\n"
              "    keepName f tip = srcName f tip ∧ keepLen f tip = srcLength f tip ∧ keepComment f = srcComment f tip := by\n"
              "  cases f <;> cases tip <;> decide\n\n"
              "/-- the source lists nine formats -/\ntheorem source_lists_nine_formats : srcVariants.length = 9 := by decide\n\n")
text = head + body + "end C16\n"
old = open(OUT).read() if os.path.exists(OUT) else None
if old != text:
    open(OUT, "w").write(text)
print("recognised" if res is not None else f"not recognised: {why}")
