import sys, json
pid=sys.argv[1]
o=[json.loads(l) for l in open('/verif/properties.jsonl') if json.loads(l)['id']==pid][0]
prop=f"{pid}: {o.get('title','')}\n\nStatement: {o['statement']}\n\nQuantified over: {o['quantifier']['text']}\n"
wt=f"/tmp/wt2_{pid}"
print(f"""You are helping to evaluate a verification tool by producing realistic faulty changes to a Rust crate.

The crate is phylotree-rs (phylogenetic trees: Newick/Phylip parsing and writing, arena-based tree, traversals, Robinson-Foulds comparisons, distance matrices, UPGMA, a CLI). You have your OWN scratch git worktree of it at {wt} (work ONLY there; never touch /repo or /verif; do not read anything under /verif). The sandbox has no network; build with `cargo build --offline` / `cargo test --workspace --no-fail-fast --offline` inside the worktree (set CARGO_TARGET_DIR={wt}/target).

Here is a semantic property the crate is supposed to satisfy:

{prop}

TASK: produce TWO independent changes ("mutations", C and D) to the crate's source (src/**), each of which
  1. BREAKS the property above (for some input / history / argument choice),
  2. still compiles, and the crate's EXISTING test suite (`cargo test --workspace --no-fail-fast --offline`: 48 unit tests + doc tests) still passes with the change,
  3. is realistic: the kind of slip, refactoring accident or 'optimisation' a maintainer could plausibly commit,
  4. is HARD TO NOTICE: it must NOT fail on ordinary inputs. It should manifest only through something specific such as
       - a degenerate but legal input (empty, a single node, zero-length or missing branch lengths, duplicate or empty labels, a value at a boundary such as exactly the threshold, sizes around 32/64 elements),
       - state carried from one call to a later call (caches, partially updated records, a second invocation on the same object, an error path that leaves something half-done),
       - a numeric corner (NaN, infinity, negative zero, very large or very small magnitudes, f32 versus f64),
       - a rarely used option or argument combination,
       - a data layout only reachable through editing operations (removed nodes in the middle of the arena, ids not in creation order, nodes regrouped under later-created parents),
       - or two cooperating sites that each look fine alone.
     Think about which inputs a randomised differential tester that generates ordinary trees/matrices would be UNLIKELY to produce, and aim there.
The two mutations must touch different mechanisms and different kinds of trigger. Each is made against the clean worktree (git stash / git checkout between them).

For each mutation X in {{C,D}} write into {wt}/MUTATION_X/ :
  - patch.diff : output of `git diff` (source change only, applies with `git apply` to the clean worktree)
  - demo.rs : a small demonstration as an integration test file (placed by you at tests/demo_X.rs while testing; keep a copy here) containing one #[test] that FAILS with the mutation applied and PASSES on the clean worktree. Verify both facts yourself by running it.
  - meta.json : {{"property": "{pid}", "title": short title, "what_changed": ..., "why_it_breaks_the_property": ..., "what_it_needs_to_manifest": ..., "commands_run": [...], "existing_tests_pass_with_mutation": true/false, "demo_fails_with_mutation": true/false, "demo_passes_without": true/false}}
Leave the worktree clean (no mutation applied, no tests/demo_*.rs left) when you finish, but keep the MUTATION_C / MUTATION_D directories (they are untracked; note the repository's .gitignore ignores *.json, the files still exist on disk). Do not commit anything. Finish with a brief summary of the two mutations.""")
