import sys, json
pid=sys.argv[1]
o=[json.loads(l) for l in open('/verif/properties.jsonl') if json.loads(l)['id']==pid][0]
prop=f"{pid}: {o.get('title','')}\n\nStatement: {o['statement']}\n\nQuantified over: {o['quantifier']['text']}\n"
wt=f"/tmp/wt4_{pid}"
print(f"""You are helping to evaluate a verification tool by producing realistic faulty changes to a Rust crate.

The crate is phylotree-rs (phylogenetic trees: Newick/Phylip parsing and writing, arena-based tree, traversals, Robinson-Foulds comparisons, distance matrices, UPGMA, a CLI). You have your OWN scratch git worktree of it at {wt} (work ONLY there; never touch /repo or /verif; do not read anything under /verif). The sandbox has no network; build with `cargo build --offline` / `cargo test --workspace --no-fail-fast --offline` inside the worktree (set CARGO_TARGET_DIR={wt}/target).

Here is a semantic property the crate is supposed to satisfy:

{prop}

TASK: produce TWO independent changes ("mutations", G and H) to the crate's source (src/**), each of which
  1. BREAKS the property above (for some input / history / argument choice),
  2. still compiles, and the crate's EXISTING test suite (`cargo test --workspace --no-fail-fast --offline`: 48 unit tests + 37 doc tests) still passes with the change,
  3. is realistic: the kind of slip, refactoring accident, 'optimisation', dependency-API misunderstanding or merge accident a maintainer could plausibly commit and a reviewer could plausibly wave through,
  4. is HARD TO NOTICE: it must NOT fail on ordinary inputs. It has to need something specific to manifest, for example
       - a multi-step sequence of operations on the SAME object (state carried between calls: caches, memoised values, partially updated records, an error path that returns Err but leaves something half-done, a second invocation behaving differently from the first),
       - an unusual but legal input (degenerate sizes 0/1/2, exactly-at-a-threshold values, sizes around 32/33/64/65 elements, very deep or very wide trees, empty / duplicate / very long / non-ASCII labels, labels that look like numbers or keywords),
       - a numeric corner (NaN, infinities, negative zero, subnormals, magnitudes near 1e-300 or 1e300, f32 versus f64, values whose decimal text is long),
       - a rarely used option, argument order or argument combination (both arguments equal, arguments swapped, a flag together with another flag),
       - a data layout only reachable through editing operations (removed nodes in the middle of the arena, the root not in slot 0, parents created after their children, several parentless nodes),
       - or two cooperating sites that each look fine alone (a producer and a consumer that silently disagree).
     Think about which inputs a randomised differential tester that generates ordinary AND moderately unusual trees/matrices would still be UNLIKELY to produce, and aim there. Prefer a mutation whose effect is a WRONG ANSWER over one whose effect is a crash.
IMPORTANT — be original. Earlier rounds of this exercise already used the following ideas; do NOT use them again (or close variants): a new or existing cache / memo that is not invalidated or not reset; reading a stale per-node distance cache; an absolute or relative epsilon tolerance in a comparison; a name lookup that can return an internal node instead of a leaf; a file opened without truncation; NaN treated as a missing value or breaking a comparison; printing f64 through the f32 formatter or parsing f32 through f64; skipping arena slot 0 "as the root"; assuming children have larger ids than parents; a process-wide memoised sampler; a recursion that overflows the stack; escaped-quote handling in the parser; deferring the depth fix-up of compress to the end; `add_child` pushing before validating. Look for faults of a DIFFERENT nature: an off-by-one that only bites at a particular size or position, a wrong operand or swapped argument that cancels out on symmetric inputs, an iteration order dependence (HashMap/HashSet order, sort stability, ties), integer arithmetic (usize underflow guarded the wrong way, rounding of an integer division, overflow of an intermediate product), a boundary in text handling (trailing or leading characters, empty fields, `\r`, a sign, an exponent, a very long field), an `Option`/`Result` combinator that swallows an error, an early `return`/`continue`/`break` that skips a later step for one class of inputs, a condition that is true for all but one enum variant, two code paths for the same quantity that drift apart (e.g. the report version vs the stand-alone version), a copy-paste between two similar match arms.
The two mutations must touch different mechanisms and need different kinds of trigger. Each is made against the clean worktree (use `git checkout -- src` between them; do not use git stash, the git directory is shared).

For each mutation X in {{G,H}} write into {wt}/MUTATION_X/ :
  - patch.diff : output of `git diff` (source change only, applies with `git apply` to the clean worktree)
  - demo.rs : a small demonstration as an integration test file (placed by you at tests/demo_X.rs while testing; keep a copy here) containing one #[test] that FAILS with the mutation applied and PASSES on the clean worktree. Verify both facts yourself by running it.
  - meta.json : {{"property": "{pid}", "title": short title, "what_changed": ..., "why_it_breaks_the_property": ..., "what_it_needs_to_manifest": ..., "commands_run": [...], "existing_tests_pass_with_mutation": true/false, "demo_fails_with_mutation": true/false, "demo_passes_without": true/false}}
Leave the worktree clean (no mutation applied, no tests/demo_*.rs left) when you finish, but keep the MUTATION_G / MUTATION_H directories (they are untracked; note the repository's .gitignore ignores *.json, the files still exist on disk). Do not commit anything. Note: the crate has a module src/verif.rs and some `#[cfg(phylotree_verif)]` items (test hooks, inactive by default); leave them alone. Finish with a brief summary of the two mutations.""")
