import sys
wid, area = sys.argv[1], sys.argv[2]
props=open('/verif/properties.jsonl').read()
import json
lines=[json.loads(l) for l in props.splitlines()]
ptxt="\n".join(f"- {p['id']} {p['title']}: {p['statement']}" for p in lines)
print(f"""You are helping to evaluate a verification tool for FALSE ALARMS by producing harmless refactorings of a Rust crate.

The crate is phylotree-rs (phylogenetic trees: Newick/Phylip parsing and writing, arena-based tree, traversals, Robinson-Foulds comparisons, distance matrices, UPGMA, a CLI). You have your OWN scratch git worktree of it at /tmp/wt_{wid} (work ONLY there; never touch /repo or /verif; do not read anything under /verif). No network; build with `cargo build --offline` / `cargo test --workspace --no-fail-fast --offline` inside the worktree (set CARGO_TARGET_DIR=/tmp/wt_{wid}/target). Do not use `git stash` (shared git dir); use `git checkout -- src` to restore.

These are the semantic properties the crate is supposed to satisfy (for orientation — your changes must NOT break any of them):
{ptxt}

TASK: produce FOUR independent, realistic REFACTORINGS ("rewrites" R1..R4) of the crate's source in this area: {area}.
Each rewrite must
  1. change the code in a non-trivial way a maintainer could plausibly commit (restructure a loop, replace recursion by an explicit stack or vice versa, use a different but equivalent data structure e.g. BTreeMap/Vec instead of HashMap, different iteration order where the result does not depend on it, reorder independent statements, replace the stored canonical side of a bipartition by the other equivalent choice, return a different but equally valid error variant where no property names the error kind, hoist/merge checks, change float summation order only where sums are exact or where a 1e-9 relative tolerance is acceptable, etc.),
  2. PRESERVE every property listed above for every input (observable behaviour as described by the properties stays the same; internal representation, arena id allocation order is better left unchanged since ids are public API),
  3. compile, and keep the existing test suite passing (`cargo test --workspace --no-fail-fast --offline`: 48 unit tests + 37 doc tests).
Make the four rewrites touch different functions/mechanisms. Each is made against the clean worktree.

For each rewrite Rk write into /tmp/wt_{wid}/REWRITE_Rk/ :
  - patch.diff : `git diff` output (applies with `git apply` to the clean worktree)
  - meta.json : {{"title": ..., "what_changed": ..., "why_every_property_still_holds": ..., "existing_tests_pass": true/false}}
Leave the worktree clean when you finish (keep the untracked REWRITE_* directories). Do not commit. Finish with a brief summary. Note: the crate has a module src/verif.rs and some `#[cfg(phylotree_verif)]` items (verification hooks: a raw arena view, a seedable RNG selected by cfg attributes at the thread_rng() call sites, index re-exports); keep them compiling under `RUSTFLAGS="--cfg phylotree_verif" cargo build --offline` as well.""")
