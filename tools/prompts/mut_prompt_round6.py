import sys, json
wid, area = sys.argv[1], sys.argv[2]
lines=[json.loads(l) for l in open('/verif/properties.jsonl')]
ptxt="\n".join(f"- {p['id']} {p.get('title','')}: {p['statement']} [Quantified over: {p['quantifier']['text']}]" for p in lines)
wt=f"/tmp/wt6_{wid}"
print(f"""You are helping to evaluate a verification tool by producing realistic faulty changes to a Rust crate.

The crate is phylotree-rs (phylogenetic trees: Newick/Phylip parsing and writing, arena-based tree, traversals, Robinson-Foulds comparisons, distance matrices, UPGMA, a CLI). You have your OWN scratch git worktree of it at {wt} (work ONLY there; never touch /repo or /verif; do not read anything under /verif). The sandbox has no network; build with `cargo build --offline` / `cargo test --workspace --no-fail-fast --offline` inside the worktree (set CARGO_TARGET_DIR={wt}/target).

These are the semantic properties the crate is supposed to satisfy:
{ptxt}

YOUR AREA of the source: {area}

TASK: produce FOUR independent changes ("mutations" M1..M4) to the crate's source INSIDE YOUR AREA, each of which
  1. BREAKS at least one of the properties above (for some input / history / argument choice) — you choose which; say which one(s) in meta.json (field "property" = the ONE property id it breaks most directly, e.g. "C18"),
  2. still compiles, and the crate's EXISTING test suite (`cargo test --workspace --no-fail-fast --offline`: 48 unit tests + 37 doc tests) still passes with the change,
  3. is realistic: the kind of slip, refactoring accident, 'optimisation', dependency-API misunderstanding or merge accident a maintainer could plausibly commit and a reviewer could plausibly wave through,
  4. is HARD TO NOTICE: it must NOT fail on ordinary inputs; it needs something specific to manifest (a multi-step history on the same object, an unusual but legal input, a numeric corner, a rarely used option or argument combination, a data layout only reachable through editing, two cooperating sites that silently disagree). Think about which inputs a randomised differential tester that generates ordinary AND moderately unusual trees/matrices/command lines would still be UNLIKELY to produce, and aim there. Prefer a WRONG ANSWER over a crash.
Be original: earlier rounds of this exercise (which worked property by property and mostly changed src/tree/tree_impl.rs) already used, among others: caches not invalidated or reset; tolerances in comparisons; NaN as a missing value; f32/f64 mix-ups in printing and parsing; arena slot 0 taken for the root; children assumed to have larger ids than parents; recursion depth limits and truncated paths; quote handling in the Newick parser; a BOM or a character filter in the parser; label comparison modulo case or white space or "natural order"; zero or infinity used as sentinels; `is_normal` / `is_sign_negative` guards; `dedup` of consecutive items; arena length used for the live node count; double-sweep diameter; the root's own length counted or left unscaled; early `continue`s before bookkeeping; error paths of compress / merge_children / set_taxa that leave the object half-edited; a hand-written Clone that revives removed slots; `to_map` filled by position; thread-local or static state in the generators; rounding of sampled lengths; `<` vs `<=` at the collapse threshold; the +2 correction of RF in the report; labels cut at a byte offset. Do NOT reuse these. The four mutations must use different mechanisms and different kinds of trigger.
Each is made against the clean worktree (use `git checkout -- src` between them; do not use git stash, the git directory is shared).

For each mutation Mk write into {wt}/MUTATION_Mk/ :
  - patch.diff : output of `git diff` (source change only, applies with `git apply` to the clean worktree)
  - demo.rs : a small demonstration as an integration test file (placed by you at tests/demo_Mk.rs while testing; keep a copy here) containing one #[test] that FAILS with the mutation applied and PASSES on the clean worktree (for the CLI use env!("CARGO_BIN_EXE_phylotree")). Verify both facts yourself by running it.
  - meta.json : {{"property": "Cxx", "title": short title, "what_changed": ..., "why_it_breaks_the_property": ..., "what_it_needs_to_manifest": ..., "existing_tests_pass_with_mutation": true/false, "demo_fails_with_mutation": true/false, "demo_passes_without": true/false}}
Leave the worktree clean (no mutation applied, no tests/demo_*.rs left) when you finish, but keep the MUTATION_* directories (untracked; note the repository's .gitignore ignores *.json and test*/ — the files still exist on disk). Do not commit anything. The crate has a module src/verif.rs and some `#[cfg(phylotree_verif)]` items (test hooks, inactive by default); leave them alone. Keep each of your individual messages and tool inputs short (write files with shell heredocs or several small writes). Finish with a brief summary of the four mutations.""")
