import sys
pid=sys.argv[1]
prop=open(f'/tmp/prop_{pid}.txt').read()
print(f"""You are helping to evaluate a verification tool by producing realistic faulty changes to a Rust crate.

The crate is phylotree-rs (phylogenetic trees: Newick/Phylip parsing and writing, arena-based tree, traversals, Robinson-Foulds comparisons, distance matrices, UPGMA, a CLI). You have your OWN scratch git worktree of it at /tmp/wt_{pid} (work ONLY there; never touch /repo or /verif; do not read anything under /verif). The sandbox has no network; build with `cargo build --offline` / `cargo test --workspace --no-fail-fast --offline` inside the worktree (set CARGO_TARGET_DIR=/tmp/wt_{pid}/target).

Here is a semantic property the crate is supposed to satisfy:

{prop}

TASK: produce TWO independent changes ("mutations", A and B) to the crate's source (src/**), each of which
  1. BREAKS the property above (for some input / history / argument choice),
  2. still compiles, and the crate's EXISTING test suite (`cargo test --workspace --no-fail-fast --offline`: 48 unit tests + doc tests) still passes with the change,
  3. is realistic: the kind of slip or 'optimisation' a maintainer could plausibly commit (off-by-one, wrong operand, dropped update of a second record, wrong condition, early return, changed format spec, ...),
  4. needs something SPECIFIC to manifest rather than failing on every ordinary use: an unusual input, a particular argument, a multi-step sequence of operations, a particular arena layout, or two cooperating sites that each look fine alone. Prefer subtle over blatant.
The two mutations must touch different mechanisms. Each is made against the clean worktree (git stash / git checkout between them).

For each mutation X in {{A,B}} write into /tmp/wt_{pid}/MUTATION_X/ :
  - patch.diff : output of `git diff` (source change only, applies with `git apply` to the clean worktree)
  - demo.rs : a small demonstration as an integration test file (placed by you at tests/demo_X.rs while testing; keep a copy here) containing one #[test] that FAILS with the mutation applied and PASSES on the clean worktree. Verify both facts yourself by running it.
  - meta.json : {{"property": "{pid}", "title": short title, "what_changed": ..., "why_it_breaks_the_property": ..., "what_it_needs_to_manifest": ..., "commands_run": [...], "existing_tests_pass_with_mutation": true/false, "demo_fails_with_mutation": true/false, "demo_passes_without": true/false}}
Leave the worktree clean (no mutation applied, no tests/demo_*.rs left) when you finish, but keep the MUTATION_A / MUTATION_B directories (they are untracked). Do not commit anything. Finish with a brief summary of the two mutations.""")
