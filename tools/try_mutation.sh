#!/bin/bash
# usage: try_mutation.sh <patch> <prop> [<prop>...] ; applies the patch to /repo, runs the checks, reverts
P=$1; shift
cd /repo && git apply $P || { echo "patch does not apply to /repo"; exit 2; }
cd /verif
for prop in "$@"; do
  out=$(./check $prop 2>&1); rc=$?
  echo "[$prop] rc=$rc $(echo "$out" | grep -c VIOLATION) violation lines; first: $(echo "$out" | grep -m1 -E 'VIOLATION|OK ')"
done
git -C /repo checkout -- .
