#!/bin/bash
# usage: try_rewrite.sh <patch> [props...] ; applies a (supposedly property-preserving) rewrite to /repo, runs the quick checks, reverts.
P=$1; shift
PROPS=${@:-C01 C02 C03 C04 C05 C06 C07 C08 C09 C10 C11 C12 C13 C14 C15 C16 C17 C18 C19 C20}
cd /repo && git apply $P || { echo "patch does not apply to /repo"; exit 2; }
cd /verif
for prop in $PROPS; do
  out=$(./check $prop 2>&1); rc=$?
  echo "[$prop] rc=$rc $(echo "$out" | grep -c VIOLATION) violation lines; first: $(echo "$out" | grep -m1 -E 'VIOLATION|OK ')"
done
git -C /repo checkout -- .
