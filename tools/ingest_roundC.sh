#!/bin/bash
# usage: ingest_round2.sh <prop> ; confirms the round-2 mutations C and D of a property in their scratch worktree, stores them
# under seeded/<prop>-C|D and removes the worktree with its build output
P=$1; WT=/tmp/wtC_$P
KEEP=
for X in I J K; do
  [ -f $WT/MUTATION_$X/patch.diff ] || { echo "$P-$X: no patch"; continue; }
  out=$(/verif/tools/verify_mutation.sh $WT MUTATION_$X 2>&1)
  :
  clean=$(echo "$out" | sed -n '/demo on clean/,/existing tests/p' | grep -c "test result: ok")
  suite=$(echo "$out" | sed -n '/existing tests/,/demo with mutation/p' | grep -c "test result: ok")
  fails=$(echo "$out" | sed -n '/demo with mutation/,$p' | grep -c "FAILED\|test failed")
  if [ "$clean" -ge 1 ] && [ "$suite" -ge 2 ] && [ "$fails" -ge 1 ]; then
    mkdir -p /verif/seeded/$P-12$X
    cp $WT/MUTATION_$X/patch.diff $WT/MUTATION_$X/demo.rs $WT/MUTATION_$X/meta.json /verif/seeded/$P-12$X/
    python3 - <<PY
import json
p='/verif/seeded/$P-12$X/meta.json'; o=json.load(open(p)); o["round"]=12
o['confirmed_here']='tools/verify_mutation.sh: demo passes on the clean worktree, fails with the patch; 48 unit + 37 doc tests pass with the patch'
json.dump(o,open(p,'w'),indent=1)
PY
    echo "$P-$X CONFIRMED and stored"
  else
    echo "$P-$X NOT CONFIRMED (clean=$clean suite=$suite fails=$fails)"; KEEP=1
  fi
done
# the worktree is only removed when nothing is left to look at
if [ -z "$KEEP" ]; then git -C /repo worktree remove --force $WT; git -C /repo worktree prune; else echo "worktree $WT kept (something was not confirmed)"; fi
