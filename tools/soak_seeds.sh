#!/bin/bash
# usage: tools/soak_seeds.sh <seed> ...   — every quick check with each of the given seeds on the unchanged tree; prints the checks that alarm
# (false-alarm hunt for seed-dependent generators; also what a changed tree's extra seeds will run)
cd "$(dirname "$0")/.."
./check setup >/dev/null 2>&1
for s in "$@"; do
  for i in $(seq -w 1 20); do
    out=$(./check C$i --tier quick --seed $s 2>&1 | grep -v KNOWN-FINDING | tail -3)
    echo "$out" | grep -q VIOLATION && { echo "seed=$s C$i"; echo "$out"; for f in $(echo "$out" | grep -o 'replays/[^ ]*json'); do python3 -c "
import json;e=json.load(open('$f'));print({k:(str(v)[:600]) for k,v in e.items() if k in('kind','oracle','stream','signature','case','impl_observed','model_observed','detail')})"; done; }
  done
  echo "seed $s done"
done
