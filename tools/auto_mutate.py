#!/usr/bin/env python3
"""Systematic small mutations of /repo's source (operator / constant / condition flips), as a complement to the externally written
seeded changes: for each sampled mutant — in a scratch worktree, never in /repo — (1) it must compile and keep the crate's own
test suite green (otherwise it is of no interest), (2) the quick checks of the properties whose streams EXECUTE the mutated line
(per-line data of tools/coverage.sh) are run with one seed.  Survivors (suite green, no check alarmed) are listed for triage:
each is either an equivalent mutant or a blind spot.
usage: tools/auto_mutate.py [-j N] [-n COUNT] [--seed S] [--files a.rs,b.rs]      needs /tmp/cov/out/lines.json (tools/coverage.sh)"""
import json, os, re, random, subprocess, sys, shutil, threading, queue

VERIF = '/verif'; ROOT = '/tmp/am'
args = sys.argv[1:]; J = 4; N = 60; SEED = 1; FILES = None
i = 0
while i < len(args):
    if args[i] == '-j': J = int(args[i + 1]); i += 2
    elif args[i] == '-n': N = int(args[i + 1]); i += 2
    elif args[i] == '--seed': SEED = int(args[i + 1]); i += 2
    elif args[i] == '--files': FILES = args[i + 1].split(','); i += 2
    else: i += 1
lines = json.load(open('/tmp/cov/out/lines.json'))

OPS = [
    (r'(?<![<>=!-])<(?![<=])(?!\w*>)', '<=', 'lt->le'), (r'<=', '<', 'le->lt'), (r'(?<![-=])>(?![>=])', '>=', 'gt->ge'), (r'>=', '>', 'ge->gt'),
    (r'==', '!=', 'eq->ne'), (r'!=', '==', 'ne->eq'), (r'&&', '||', 'and->or'), (r'\|\|', '&&', 'or->and'),
    (r'(?<=[\w\)\]]) \+ (?=[\w\(])', ' - ', 'plus->minus'), (r'(?<=[\w\)\]]) - (?=[\w\(])', ' + ', 'minus->plus'),
    (r'\+= 1\b', '+= 2', 'inc1->inc2'), (r'\b0\.\b(?!\d)', '1.', '0.->1.'), (r'\b1\b(?![\.\w])', '2', '1->2'), (r'\b2\b(?![\.\w])', '3', '2->3'), (r'\b0\b(?![\.\w])', '1', '0->1'),
    (r'\btrue\b', 'false', 'true->false'), (r'\bfalse\b', 'true', 'false->true'), (r'\.is_some\(\)', '.is_none()', 'some->none'), (r'\.is_none\(\)', '.is_some()', 'none->some'),
    (r'\.is_empty\(\)', '.len() == 1', 'empty->len1'), (r'!(?=\w+\.)', '', 'drop-not'), (r'\.min\(', '.max(', 'min->max'), (r'\.max\(', '.min(', 'max->min'),
    (r'\.rev\(\)', '', 'drop-rev'), (r'\.skip\(1\)', '', 'drop-skip1'), (r'\.first\(\)', '.last()', 'first->last'), (r'\.last\(\)', '.first()', 'last->first'),
    (r'continue;', 'break;', 'continue->break'), (r'Some\(0\.0\)', 'None', 'some0->none'),
]

def candidates():
    out = []
    for f, cov in lines.items():
        if FILES and not any(f.endswith(x) for x in FILES): continue
        src = open(f'/repo/{f}').read().split('\n')
        # stop at the test module
        end = next((k for k, l in enumerate(src) if l.strip().startswith('#[cfg(test)]')), len(src))
        for ln_s, props in cov.items():
            ln = int(ln_s)
            if ln - 1 >= end or not props: continue
            text = src[ln - 1]
            code = text.split('//')[0]
            if 'phylotree_verif' in text or code.strip().startswith('#') or '"' in code and ('panic' in code or 'println' in code or 'format' in code): continue
            for pat, rep, name in OPS:
                # angle brackets of generics are not comparisons
                if name in ('lt->le', 'gt->ge') and re.search(r'->|::<|\b(Result|Option|Vec|HashMap|HashSet|Box|impl|fn|struct|dyn|Formatter|RefCell|Iterator)\b|<\s*[A-Z_\']', code):
                    continue
                for m in re.finditer(pat, code):
                    out.append((f, ln, m.start(), m.end(), rep, name, props))
    return out

cands = candidates()
random.Random(SEED).shuffle(cands)
# spread over files and operators: at most 2 mutants per line
seen = {}; picked = []
for c in cands:
    k = (c[0], c[1])
    if seen.get(k, 0) >= 1: continue
    seen[k] = seen.get(k, 0) + 1
    picked.append(c)
    if len(picked) >= N: break
print(f'{len(cands)} candidate mutations, {len(picked)} sampled', flush=True)

def sh(cmd, **kw): return subprocess.run(cmd, capture_output=True, text=True, **kw)
def setup(k):
    w = f'{ROOT}/{k}'; shutil.rmtree(w, ignore_errors=True); os.makedirs(w)
    sh(['git', '-C', '/repo', 'worktree', 'prune'])
    r = sh(['git', '-C', '/repo', 'worktree', 'add', '--detach', f'{w}/repo', 'HEAD']); assert r.returncode == 0, r.stderr
    v = f'{w}/verif'; os.makedirs(v)
    for name in ['check', 'known_findings.json', 'properties.jsonl', 'MANIFEST.json']: shutil.copy2(f'{VERIF}/{name}', f'{v}/{name}')
    sh(['cp', '-a', f'{VERIF}/lean', f'{v}/lean']); os.makedirs(f'{v}/harness')
    for name in ['Cargo.toml', 'Cargo.lock', 'src', '.cargo', 'target']: sh(['cp', '-a', f'{VERIF}/harness/{name}', f'{v}/harness/{name}'])
    t = open(f'{v}/harness/Cargo.toml').read().replace('path = "/repo"', f'path = "{w}/repo"'); open(f'{v}/harness/Cargo.toml', 'w').write(t)
    c = open(f'{v}/harness/.cargo/config.toml').read().replace('/verif/harness/target', f'{v}/harness/target'); open(f'{v}/harness/.cargo/config.toml', 'w').write(c)
    return w

q = queue.Queue(); [q.put(c) for c in picked]; results = []; lock = threading.Lock()
def worker(k):
    w = setup(k)
    env = dict(os.environ, CARGO_NET_OFFLINE='true', CARGO_TARGET_DIR=f'{w}/repo-target', VERIF_REPO=f'{w}/repo', VERIF_NO_EXTRA_SEEDS='1')
    while True:
        try: f, ln, a, b, rep, name, props = q.get_nowait()
        except queue.Empty: break
        path = f'{w}/repo/{f}'
        orig = open(path).read()
        src = orig.split('\n'); old = src[ln - 1]; src[ln - 1] = old[:a] + rep + old[b:]
        open(path, 'w').write('\n'.join(src))
        rec = {'file': f, 'line': ln, 'op': name, 'before': old.strip(), 'after': src[ln - 1].strip(), 'props': props}
        r = sh(['cargo', 'test', '--workspace', '--no-fail-fast', '--offline'], cwd=f'{w}/repo', env=env)
        oks = len(re.findall(r'^test result: ok', r.stdout, flags=re.M)); bad = 'FAILED' in r.stdout or 'error' in r.stderr and 'could not compile' in r.stderr
        if 'could not compile' in r.stderr: rec['status'] = 'does-not-compile'
        elif bad or oks < 3: rec['status'] = 'killed-by-the-crates-own-tests'
        else:
            alarms = []
            for p in props:
                c = sh(['./check', p, '--tier', 'quick'], cwd=f'{w}/verif', env=env)
                if 'VIOLATION' in c.stdout or c.returncode != 0: alarms.append(p)
            rec['status'] = 'detected' if alarms else 'SURVIVED'; rec['alarms'] = alarms
        open(path, 'w').write(orig)
        with lock:
            results.append(rec); print(f"{rec['status']:32s} {f}:{ln} {name}: {rec['before'][:70]}  =>  {rec['after'][:70]}  {rec.get('alarms', '')}", flush=True)
    sh(['git', '-C', '/repo', 'worktree', 'remove', '--force', f'{w}/repo']); shutil.rmtree(w, ignore_errors=True)
ts = [threading.Thread(target=worker, args=(k,)) for k in range(J)]
[t.start() for t in ts]; [t.join() for t in ts]
sh(['git', '-C', '/repo', 'worktree', 'prune'])
out = f'{VERIF}/seeded/AUTO_MUTANTS.json'
prev = json.load(open(out)) if os.path.exists(out) else []
key = lambda r: (r['file'], r['line'], r['op'], r['before'])
merged = {key(r): r for r in prev}; merged.update({key(r): r for r in results})
json.dump(sorted(merged.values(), key=lambda r: (r['file'], r['line'], r['op'])), open(out, 'w'), indent=1)
from collections import Counter
print(Counter(r['status'] for r in results))
