#!/usr/bin/env python3
"""Runs every seeded change in /verif/seeded against the check of the property it targets (and optional extra
properties): applies the patch to /repo, runs ./check, reverts. Writes seeded/RESULTS.json and prints a table.
usage: tools/run_seeded.py [id-prefix ...]"""
import json, os, subprocess, sys, glob
os.chdir('/verif')
sel = sys.argv[1:]
res = json.load(open('seeded/RESULTS.json')) if os.path.exists('seeded/RESULTS.json') else {}
for d in sorted(glob.glob('seeded/*/')):
    sid = os.path.basename(d.rstrip('/'))
    if sel and not any(sid.startswith(s) for s in sel): continue
    prop = sid.split('-')[0]
    # a change written against an earlier commit of /repo is kept as written (patch.diff) next to its port to the
    # current head (patch.rebased.diff: same mutation, context adjusted to later fix: commits)
    patch = os.path.abspath(d + ('patch.rebased.diff' if os.path.exists(d + 'patch.rebased.diff') else 'patch.diff'))
    assert subprocess.run(['git','-C','/repo','status','--porcelain','--untracked-files=no'],capture_output=True,text=True).stdout.strip()=='' , 'repo dirty'
    if subprocess.run(['git','-C','/repo','apply',patch]).returncode != 0:
        res[sid] = {'property': prop, 'applies': False}; continue
    try:
        p = subprocess.run(['./check', prop], capture_output=True, text=True, timeout=3600)
        lines = [l for l in p.stdout.splitlines() if l.startswith('VIOLATION')]
        kinds = {}
        for l in lines:
            path = l.split('replay=')[1].split()[0]
            try:
                o = json.load(open(path)); k = o['kind'] + ':' + (o.get('oracle') or o.get('stream') or o.get('theorem_or_module') or '') + ':' + o.get('signature','')
            except Exception: k = '?'
            kinds[k] = kinds.get(k,0)+1
        res[sid] = {'property': prop, 'applies': True, 'detected': p.returncode == 1 and bool(lines), 'exit': p.returncode,
                    'violation_lines': len(lines), 'with_failing_input': sum(1 for l in lines if 'no-failing-input-found' not in l), 'by': kinds}
    finally:
        subprocess.run(['git','-C','/repo','checkout','--','.'])
    print(sid, 'DETECTED' if res[sid].get('detected') else 'MISSED', res[sid].get('by'))
json.dump(res, open('seeded/RESULTS.json','w'), indent=1)
