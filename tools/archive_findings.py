#!/usr/bin/env python3
"""archive the smallest oracle failure per signature of a pvh result file into /verif/findings (pre-fix replays)"""
import json,sys,re
d=json.load(open(sys.argv[1])); prop=d['property']; note=sys.argv[2] if len(sys.argv)>2 else ''
best={}
for f in d['failures']:
    if f['kind']!='oracle': continue
    k=(f['name'],f['signature'])
    if k not in best or len(f['case'])<len(best[k]['case']): best[k]=f
for (n,s),f in best.items():
    name=f"/verif/findings/{prop}-{n}-{re.sub('[^A-Za-z0-9]+','-',s)}.json"
    json.dump({"property":prop,"kind":"oracle","oracle":n,"signature":s,"case":f['case'],"impl_observed":f['impl_observed'],"count_in_run":d['fail_counts'].get(f"oracle:{n}:{s}"),"note":"pre-fix replay. "+note},open(name,'w'),indent=1)
    print(name)
