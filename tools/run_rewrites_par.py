#!/usr/bin/env python3
"""Runs every property-preserving rewrite of /verif/rewrites against ALL twenty quick checks in scratch copies (same
mechanism as run_seeded_par.py: scratch git worktree of /repo's HEAD + scratch copy of /verif, never touches /repo).
A rewrite must raise NO alarm.  Results are merged into rewrites/RESULTS.json.
usage: tools/run_rewrites_par.py [-j N] [id-prefix ...]"""
import json, os, subprocess, sys, glob, shutil, threading, queue
sys.argv = [sys.argv[0]] + sys.argv[1:]
VERIF = '/verif'; ROOT = '/tmp/rw'
args = sys.argv[1:]; J = 4; sel = []
i = 0
while i < len(args):
    if args[i] == '-j': J = int(args[i + 1]); i += 2
    else: sel.append(args[i]); i += 1
ids = [os.path.basename(d.rstrip('/')) for d in sorted(glob.glob(f'{VERIF}/rewrites/*/'))]
ids = [s for s in ids if not sel or any(s.startswith(x) for x in sel)]
PROPS = ['C%02d' % k for k in range(1, 21)]
def sh(cmd, **kw): return subprocess.run(cmd, capture_output=True, text=True, **kw)
def setup(k):
    w = f'{ROOT}/{k}'; shutil.rmtree(w, ignore_errors=True); os.makedirs(w)
    sh(['git', '-C', '/repo', 'worktree', 'prune'])
    r = sh(['git', '-C', '/repo', 'worktree', 'add', '--detach', f'{w}/repo', 'HEAD']); assert r.returncode == 0, r.stderr
    v = f'{w}/verif'; os.makedirs(v)
    for name in ['check', 'known_findings.json', 'properties.jsonl']: shutil.copy2(f'{VERIF}/{name}', f'{v}/{name}')
    sh(['cp', '-a', f'{VERIF}/lean', f'{v}/lean']); os.makedirs(f'{v}/harness')
    for name in ['Cargo.toml', 'Cargo.lock', 'src', '.cargo', 'target']: sh(['cp', '-a', f'{VERIF}/harness/{name}', f'{v}/harness/{name}'])
    t = open(f'{v}/harness/Cargo.toml').read().replace('path = "/repo"', f'path = "{w}/repo"'); open(f'{v}/harness/Cargo.toml', 'w').write(t)
    return w
q = queue.Queue(); [q.put(s) for s in ids]; results = {}; lock = threading.Lock()
def worker(k):
    w = setup(k)
    while True:
        try: rid = q.get_nowait()
        except queue.Empty: break
        d = f'{VERIF}/rewrites/{rid}/'
        patch = d + ('patch.rebased.diff' if os.path.exists(d + 'patch.rebased.diff') else 'patch.diff')
        meta = json.load(open(d + 'meta.json')) if os.path.exists(d + 'meta.json') else {}
        if sh(['git', '-C', f'{w}/repo', 'apply', patch]).returncode != 0:
            res = {'applies': False, 'title': meta.get('title', '')}
        else:
            alarms = []
            env = dict(os.environ, VERIF_REPO=f'{w}/repo')
            for p in PROPS:
                r = subprocess.run(['./check', p], cwd=f'{w}/verif', capture_output=True, text=True, timeout=3600, env=env)
                if r.returncode != 0 or 'VIOLATION' in r.stdout:
                    alarms.append({'property': p, 'exit': r.returncode, 'first': next((l for l in r.stdout.splitlines() if l.startswith('VIOLATION')), r.stdout[-300:])})
            sh(['git', '-C', f'{w}/repo', 'checkout', '--', '.'])
            res = {'applies': True, 'checks_run': len(PROPS), 'alarms': alarms, 'title': meta.get('title', '')}
        with lock:
            results[rid] = res
            print(rid, 'NO ALARM' if res.get('applies') and not res['alarms'] else ('PATCH-DOES-NOT-APPLY' if not res.get('applies') else f"ALARMS {res['alarms']}"), flush=True)
    sh(['git', '-C', '/repo', 'worktree', 'remove', '--force', f'{w}/repo']); shutil.rmtree(w, ignore_errors=True)
ts = [threading.Thread(target=worker, args=(k,)) for k in range(max(1, min(J, len(ids))))]
[t.start() for t in ts]; [t.join() for t in ts]
sh(['git', '-C', '/repo', 'worktree', 'prune'])
path = f'{VERIF}/rewrites/RESULTS.json'
res = json.load(open(path)) if os.path.exists(path) else {}
res.update(results)
# a rewrite that a later `fix:` commit made obsolete keeps its explanation (recorded in its meta.json)
for rid in res:
    try:
        note = json.load(open(f'/verif/rewrites/{rid}/meta.json')).get('superseded')
        if note: res[rid]['superseded'] = note
    except Exception:
        pass
json.dump(dict(sorted(res.items())), open(path, 'w'), indent=1)
