#!/bin/bash
# usage: verify_mutation.sh <worktree> <MUTATION_dir-name> ; confirms: demo passes clean, existing tests pass with mutation, demo fails with mutation
set -u
WT=$1; M=$2
cd $WT || exit 2
export CARGO_TARGET_DIR=$WT/target CARGO_NET_OFFLINE=true
git checkout -q -- . ; rm -rf tests/demo_verify.rs
mkdir -p tests; cp $M/demo.rs tests/demo_verify.rs
echo "== demo on clean tree"; cargo test --offline --test demo_verify 2>&1 | grep -E "^test result|error" | head -3
git apply $M/patch.diff || { echo "PATCH DOES NOT APPLY"; exit 1; }
echo "== existing tests with mutation"; cargo test --offline --lib 2>&1 | grep -E "^test result|error\[" | head -3; cargo test --offline --doc 2>&1 | grep -E "^test result|error\[" | head -3
echo "== demo with mutation"; cargo test --offline --test demo_verify 2>&1 | grep -E "^test result|error\[|error: test failed|signal" | head -4
git checkout -q -- . ; rm -f tests/demo_verify.rs; rmdir tests 2>/dev/null
