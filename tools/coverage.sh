#!/bin/bash
# usage: tools/coverage.sh [tier]   (default quick)
# Measures which source lines of /repo the correspondence harness actually executes: the harness (and, for C18, the real CLI
# binary) is rebuilt with `-C instrument-coverage` in a scratch target directory under /tmp, every property's stream is run
# once, and the profiles are merged with the llvm tools of the nightly toolchain.  Output: COVERAGE.md (per property and in
# total: lines of /repo/src executed; the list of lines never executed by any check).  Not a check: a measuring tool for the
# generators ("generator quality bounds what the correspondence sees").
set -u
TIER=${1:-quick}
V=/verif; W=/tmp/cov; B=$(ls -d /root/.rustup/toolchains/nightly-x86_64-unknown-linux-gnu/lib/rustlib/*/bin | head -1)
mkdir -p $W/raw $W/out; rm -f $W/raw/*.profraw
export CARGO_NET_OFFLINE=true
# instrumented build scripts and proc-macros write a profile when they run: keep those out of /repo and /verif
export LLVM_PROFILE_FILE=$W/raw/build-%p-%m.profraw
( cd $V/harness && CARGO_TARGET_DIR=$W/target RUSTFLAGS="-C instrument-coverage --cfg phylotree_verif" cargo build --offline 2>&1 | tail -1 )
( cd /repo && CARGO_TARGET_DIR=$W/cli RUSTFLAGS="-C instrument-coverage" cargo build --offline --bin phylotree 2>&1 | tail -1 )
PVH=$W/target/debug/pvh; CLI=$W/cli/debug/phylotree; DRV=$V/lean/PhyloModel/.lake/build/bin/driver
rm -f $W/raw/build-*.profraw /repo/default_*.profraw $V/harness/default_*.profraw
cd $V
for i in $(seq -w 1 20); do
  P=C$i; mkdir -p $W/raw/$P
  LLVM_PROFILE_FILE=$W/raw/$P/%p-%m.profraw PVH_CLI=$CLI $PVH run $P --tier $TIER --seed ${VERIF_SEED:-1} --driver $DRV --out $W/out/$P.json >/dev/null 2>&1
  echo "$P rc=$? $(ls $W/raw/$P | wc -l) profiles"
  $B/llvm-profdata merge -sparse $W/raw/$P/*.profraw -o $W/out/$P.profdata
  rm -rf $W/raw/$P
done
$B/llvm-profdata merge -sparse $W/out/C*.profdata -o $W/out/ALL.profdata
python3 $V/tools/coverage_report.py $B $PVH $CLI $W/out $TIER > $V/COVERAGE.md
tail -30 $V/COVERAGE.md
