#!/usr/bin/env python3
"""merge_props.py <Cxx> <path/to/Props/Extra.lean> <ExtraNamespace>
Appends the theorems of a separately developed property file (namespace <ExtraNamespace>) to
lean/PhyloModel/PhyloModel/Props/<Cxx>.lean (namespace <Cxx>): its imports are added at the top, its module doc comment
becomes a section comment, its body goes before `end <Cxx>`.  Then regenerates Audit/<Cxx>.lean."""
import re, sys, subprocess
prop, extra, ns = sys.argv[1], sys.argv[2], sys.argv[3]
root = '/verif/lean/PhyloModel/PhyloModel'
main = f'{root}/Props/{prop}.lean'
m = open(main).read()
e = open(extra).read()
imports = [l for l in e.splitlines() if l.startswith('import ')]
body = e[e.index(f'namespace {ns}') + len(f'namespace {ns}'):e.rindex(f'end {ns}')]
doc = re.search(r'/-!(.*?)-/', e, flags=re.S)
body = re.sub(rf'\b{ns}\.', f'{prop}.', body)
head_imports = [l for l in m.splitlines() if l.startswith('import ')]
new_imports = [i for i in imports if i not in head_imports]
last = max(i for i, l in enumerate(m.splitlines()) if l.startswith('import '))
lines = m.splitlines()
lines[last + 1:last + 1] = new_imports
m = '\n'.join(lines) + '\n'
section = ''
if doc:
    section = '\n/-! ##' + doc.group(1).lstrip().lstrip('#') + '-/\n'
idx = m.rindex(f'end {prop}')
m = m[:idx] + section + body.rstrip() + '\n\n' + m[idx:]
open(main, 'w').write(m)
subprocess.run(['python3', '/verif/tools/mkaudit.py', prop])
