#!/usr/bin/env python3
"""writes PhyloModel/Audit/Cxx.lean (#print axioms for every theorem of Props/Cxx.lean)"""
import re,sys,os
root='/verif/lean/PhyloModel/PhyloModel'
for p in sys.argv[1:]:
    src=open(f'{root}/Props/{p}.lean').read()
    src=re.sub(r"/-.*?-/","",src,flags=re.S); src=re.sub(r"--.*","",src)
    names=re.findall(r"^\s*theorem\s+([A-Za-z0-9_.']+)",src,flags=re.M)
    open(f'{root}/Audit/{p}.lean','w').write(f"import PhyloModel.Props.{p}\n"+"".join(f"#print axioms {p}.{n}\n" for n in names))
    print(p,len(names))
