#!/usr/bin/env python3
"""writes PhyloModel/Audit/Cxx.lean (#print axioms for every theorem of Props/Cxx.lean)"""
import re,sys,os
root='/verif/lean/PhyloModel/PhyloModel'
import glob
for p in sys.argv[1:]:
    # a property's theorems live in Props/Cxx.lean and, where a helper file has to import the first part, in further
    # files Props/Cxx<Suffix>.lean (all in namespace Cxx)
    files=sorted(glob.glob(f'{root}/Props/{p}*.lean'))
    names=[]
    for f in files:
        src=open(f).read()
        src=re.sub(r"/-.*?-/","",src,flags=re.S); src=re.sub(r"--.*","",src)
        names+=re.findall(r"^\s*theorem\s+([A-Za-z0-9_.']+)",src,flags=re.M)
    mods=[os.path.basename(f)[:-5] for f in files]
    open(f'{root}/Audit/{p}.lean','w').write("".join(f"import PhyloModel.Props.{m}\n" for m in mods)+"".join(f"#print axioms {p}.{n}\n" for n in names))
    print(p,len(names))
