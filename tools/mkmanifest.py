#!/usr/bin/env python3
"""Regenerates MANIFEST.json from the table below (run from /verif)."""
import json, subprocess
props = [json.loads(l)["id"] for l in open("properties.jsonl")]
hooks_commits = subprocess.run(["git", "-C", "/repo", "log", "--format=%H %s"], capture_output=True, text=True).stdout.splitlines()
hook_shas = [l.split()[0] for l in hooks_commits if "verif hook" in l]

NOTE = ("Trusted: Lean 4.33 kernel (axioms per theorem printed on every run, subset of propext/Classical.choice/Quot.sound; no sorry, "
        "native_decide, bv_decide or user axioms), the Lean compiler for the driver executable, rustc/std, and the correspondence "
        "harness pvh (generators, canonicalisation) which is the only tie between the hand-written model and /repo. ")

FLOATTXT = ("Modelled, not verified: Rust's Display/FromStr for f64 (the theorems assume exactly the three codec laws of NW.Codec: "
            "printed text parses back to the same value, uses only plain characters, is non-empty; the harness checks real to_newick/from_newick "
            "text and bit patterns against the model on every run, including -0, subnormals, 1e300 and infinities); char::is_whitespace (transcribed table); "
            "stack depth of the recursive writer on extremely deep trees. ")

EXACT = ("Modelled, not verified: f64 rounding (the model computes over exact integers; the harness uses lengths that are multiples of 2^-10 so that every "
         "sum and product the crate forms is exact and compares for exact equality), sqrt (the model returns KF squared; the harness applies sqrt and compares bits), "
         "FixedBitSet's ordering (which of the two sides is stored cannot be observed once splits are compared as unordered pairs; the model fixes one), "
         "HashMap/HashSet iteration order (sorted away). ")

ARQ = ("Modelled, not verified: f64 rounding (exact integer lengths, multiples of 2^-10, exact comparison); the model's recursion fuel (2*size+3) stands for Rust's "
       "unbounded recursion, adequacy is a theorem under the arena invariant (depth < size by pigeonhole); stack depth on extremely deep trees. ")

CLAIMS = {
 "C19": dict(
   text="Kernel-checked theorems on the exact-angle model of radial_layout, for every tree: exactly one segment (and labelled point) per non-root node, in pre-order; sibling wedges are "
        "consecutive in child order, each starting where the previous one ends, of width leaves(child)/leaves(root); the wedges of a node's children together are exactly as wide as the "
        "node's own wedge (nested; the root's children fill the full turn); for any direction on the unit circle the drawn segment has squared Euclidean length equal to the squared "
        "branch length; rescaling commutes with the construction; a missing length is refused. PARTIAL by nature: cos, sin and rounding are modelled, not verified — the harness applies "
        "the real cos/sin to the model's exact angles and compares every coordinate with the crate's within 1e-9 of the drawing's extent, and checks on the real layout: segment starts "
        "at the parent's point, ends at the node's point, Euclidean length = branch length, direction = bisector of the wedge computed from leaf counts, labels, rescale.",
   note=NOTE + "Modelled, not verified: f64 cos/sin/atan2 and rounding; the angle is a rational fraction of a turn in the model.",
   technique="Lean 4 proofs on an exact-angle layout model (wedge partition, one segment per node, length identity on the unit circle) + coordinate-level differential execution within 1e-9", ref="5 C19"),
 "C17": dict(
   text="Kernel-checked theorems quantifying over EVERY outcome of the random choices (the generators are functions of an explicit oracle): for the ETE3-like generator and every "
        "sequence of front/back choices, and for the Yule generator and every sequence of valid candidate choices (Vec::swap_remove bookkeeping included), the loop never fails and "
        "after n-1 iterations there are 2n-1 slots, exactly n tips (the loop's leaf count grows by one per iteration, so the Yule loop terminates after exactly n-1 iterations), a "
        "slot is a tip iff it has no children and every other slot has exactly two distinct children. Tied to the crate through the seedable-RNG hook: the choices are read back from "
        "the real result and the model must rebuild the identical tree and tip numbering; the caterpillar generator (deterministic) is compared exactly. Oracles on the real result: "
        "arena invariant, rooted binary, n leaves, 2n-1 nodes, unique Tip_i names on tips only, lengths all present and inside the distribution's support / all absent, comb shape "
        "and Colless = (n-1)(n-2)/2 for the caterpillar.",
   note=NOTE + "Modelled, not verified: rand / rand_distr (theorems hold for every oracle; the supports Uniform[0.002,1), Exp(0.15) >= 0, Gamma(4,1) > 0 are checked on the drawn values only).",
   technique="Lean 4 invariant proofs over all oracles for the generator loops + oracle read-back differential execution through the seedable-RNG hook", ref="5 C17"),
 "C15": dict(
   text="Kernel-checked theorems over exact rationals on the abstract agglomeration state (active indices, distances, ghost member lists, heights): the code's "
        "size-weighted update is average linkage of the merged cluster; one step of the code (reuse index a, retire b, weighted update) keeps every live distance equal to the "
        "average of the ORIGINAL distances between the two clusters it joins; merging a minimal pair keeps merge heights monotone and makes both new branch lengths non-negative; "
        "a weighted mean is at least the smaller value (reducibility). PARTIAL: the refinement from the transcribed loop (triangular vector, retired rows, first minimum in cell "
        "order, tree assembly) to that abstract step, the equidistance bookkeeping and recovery of ultrametric inputs are decided by running the exact rational transcription "
        "against the crate on every case (topology, child order, names, lengths exactly whenever every intermediate value is dyadic — ties included — else 1e-9; cases where a tie or a "
        "margin below 1e-6 would be decided by rounding are not compared) and by oracles on the real result: well-formed arena incl. depths, rooted binary, leaves = taxa, equidistant "
        "leaves, non-negative lengths, naive average-linkage clustering from its definition whenever unambiguous, reproduction of ultrametric inputs.",
   note=NOTE + "Modelled, not verified: f64 rounding (exact Rat in the model); 'non-negative' is read as finite non-negative (integer entries).",
   technique="Lean 4 proofs of the average-linkage step invariants over Rat + differential execution of an exact rational transcription of the UPGMA loop", ref="5 C15"),
 "C08": dict(
   text="Kernel-checked theorems, for every tree shape and every assignment of lengths: the contributions the fast algorithm adds into the triangular vector, written by "
        "structural recursion on the rose tree with the per-node leaf-distance caches, are keyed by every pair of leaves exactly once and each equals the textbook path length "
        "(deepest node containing both leaves, two legs); the per-node cache holds exactly the leaves below the node with their distances. PARTIAL: the arena-level fold "
        "(reversed level order, per-slot caches, keyed accumulation) is tied to that recursion by executing both, plus the recursive algorithm's model, on every case and "
        "comparing each with the crate for EXACT equality (dyadic lengths), not by a loop-invariant proof. Oracles on the real code (stream B: decimal lengths, 1e-9): both "
        "algorithms against an independent path walk (two-sided), against each other and against get_distance, sorted taxa, edge counts when no length is present, "
        "refusal of missing lengths by the recursive algorithm.",
   note=NOTE + EXACT + "accurate::NaiveSum is treated as f64 addition.", technique="Lean 4 proof that the fast algorithm's contributions are the path lengths, each pair once (rose level) + exact differential execution of three model computations", ref="5 C08"),
 "C14": dict(
   text="Kernel-checked theorems on the character-level model of the Phylip writer and the three parsing entry points (str::lines, split_whitespace, usize::from_str "
        "transcribed; entries through a codec): strictness — a text accepted by the strict parser has exactly as many rows as its declared size, every row exactly the "
        "required number of distances (size, or the row number), and a zero diagonal in the square layout; totality of the triangular parser and of the strict parser's row "
        "loop (no panic branch is reachable for any text); a missing or non-numeric header is rejected by every entry point; the string layer of the round trip (fields joined "
        "by blanks split back, terminated lines come back). Tied to the crate by comparing outcome class, taxa and every value (bit patterns through Rust's own float parser) on "
        "EVERY string up to a length bound over 0 1 . a space newline for all three entry points, mutated valid files, and matrices with f64 and f32 entries incl. arbitrary bit "
        "patterns written in both layouts (text compared byte for byte) and parsed back; oracles on the real code: no panic, bit-exact round trip, the strictness conditions re-derived "
        "with Rust's own lines/split_whitespace. The full cell-for-cell round-trip theorem and the absence of a panic in the by-name fill are decided by these checks, not yet by theorems.",
   note=NOTE + FLOATTXT + "The symmetry test of the strict parser compares f64 values; the model compares the exact decimal values of the lexemes (equal for every generated pair). Texts declaring a size above 2000 are skipped (allocation limits are outside the property).",
   technique="Lean 4 proofs on the character-level Phylip parser model (strictness, totality) + exhaustive short-text and bit-exact round-trip differential execution", ref="5 C14"),
 "C13": dict(
   text="Kernel-checked theorems for EVERY matrix size: the triangular index maps unordered pairs of distinct taxa below n injectively into [0, n(n-1)/2), symmetric in its "
        "arguments, with an explicit integer inverse proved to be a two-sided inverse (so cells and pairs are in bijection); by-index and by-name store laws (a value set for a pair "
        "is read back for that pair in either order and for no other pair; identical taxa read zero; set on identical taxa accepted iff zero); indexed iteration lists every cell once "
        "under the pair the index assigns; the pair-keyed map is exactly all ordered pairs with get's values; extremum search returns an iterated entry. Tied to the crate on every "
        "size 0..40 over all cells (reads, sets with full read-back, iteration, map, extrema with ties) and random set/get sequences. The crate's FLOATING-POINT inverse is compared with an "
        "integer inverse through the hook at triangular-number boundaries below 2^50 (all of them in the thorough tier).",
   note=NOTE + "Modelled, not verified: the f64 sqrt/floor inverse rowvec_to_tril_index (boundary sweep + IEEE monotonicity argument, a check and not a theorem); entries are small integers held exactly in f64.",
   technique="Lean 4 proofs of the index bijection and store laws for all sizes + exhaustive small-size differential execution + boundary sweep of the float inverse", ref="5 C13"),
 "C04": dict(
   text="Kernel-checked theorems (1) on a state-machine model of the two RefCell caches: after the documented reset a query returns the value for the current tree, any number of "
        "queries return that value and never change the tree (induction over the query list), an edit followed by the reset is seen by every later query, and without the reset a "
        "stale answer is possible (witness); (2) on the arena model: removed slots are never listed, found, used as root or entered by the abstraction all rose-level queries go "
        "through. The crate's cached queries are tied to the cache-free model by random edit histories in six arena layouts interleaved with the reset and with all queries in random "
        "order and multiplicity (id-level answers vs the model), and the property itself is evaluated on the real code: a 31-query battery answered by name on the edited tree, "
        "on a tree freshly parsed from its Newick text, and a second time in another order.",
   note=NOTE + ARQ + "The per-node subtree_distances cache is covered by the battery (distance_matrix on edited trees vs fresh parse) and by C08, not by a theorem of its own.",
   technique="Lean 4 proofs on a cache state machine and on the arena queries + differential execution of interleaved edit/query histories vs model and vs fresh parse", ref="5 C04"),
 "C11": dict(
   text="Kernel-checked theorems: prune terminates and removes exactly the chosen subtree (a slot dies iff it lies below the node; every other slot is unchanged except the parent's "
        "child list); the regrouping step of merge_children/resolve has the exact frame (new node = fresh slot with children [c1,c2], parent's list = old list minus them plus the new "
        "node, every other slot untouched) and with the depth repair preserves the invariant; merging non-siblings, a node with itself or a removed node is refused with the arena "
        "unchanged; splicing out unary nodes keeps every leaf-to-leaf path length (rose level); rescale multiplies both records of every length and nothing else; ladderize's sort is a "
        "permutation ordered by descendant count. Tied to the crate by executing every operation with EVERY argument on every small shape (plus random) in five arena layouts, "
        "comparing the arena slot by slot with the model and with rose-level expectations computed by the harness (exact result for prune/merge/rescale; leaf set, all leaf-pair "
        "distances and the postcondition for compress/resolve/ladderize). resolve: the random choices are read back from the result and replayed through the model.",
   note=NOTE + ARQ + "resolve's postcondition (no node with more than two children) over the whole loop is decided by oracle and correspondence; the theorem covers one round.",
   technique="Lean 4 frame/invariant proofs for the mutators + exhaustive-argument differential execution with rose-level expectations", ref="5 C11"),
 "C09": dict(
   text="Kernel-checked theorems on the arena model of get_path_from_root / get_common_ancestor / get_distance under the structural arena invariant, for arenas of "
        "any size: the root path exists, is unique and is what the query returns (fuel adequacy by pigeonhole); for two distinct nodes of the same tree the reported "
        "ancestor is an ancestor of both and every common ancestor is an ancestor of it (deepest), the edge count is the length of the two legs, the length is the sum "
        "over both legs when all are present and absent otherwise; symmetric; zero for a node with itself; dead ids are errors. Tied to the crate on every ordered pair of "
        "node ids (incl. removed and out-of-range) of every shape up to a node bound with three length masks and random larger trees in four arena layouts; brute-force ancestor oracle.",
   note=NOTE + ARQ, technique="Lean 4 proof of the deepest-common-ancestor theorem on the arena model + all-pairs differential execution", ref="5 C09"),
 "C10": dict(
   text="Kernel-checked refinement theorems through a layout-independent abstraction (slot i represents rose tree t): pre-order = node then children's pre-orders in "
        "child order, post-order = children's post-orders then node and a permutation of pre-order, the arena's level-order queue loop emits exactly the rose-level "
        "queue loop's ids whose levels never decrease, listings are defined from the traversals, dead start nodes are errors, in-order refuses more than two children, "
        "nothing outside the subtree is listed; the abstraction is total and unique under the invariant. Tied to the crate on every start node (incl. removed and "
        "out-of-range ids) of every shape up to a node bound and random trees to 150 nodes in four layouts incl. removed slots; order-predicate oracles.",
   note=NOTE + ARQ + "In-order's left/node/right order is decided by correspondence and oracle (the theorem covers refusal and dead starts).", technique="Lean 4 refinement proofs (arena traversal = rose traversal) + differential execution from every start node", ref="5 C10"),
 "C12": dict(
   text="Kernel-checked theorems: under the arena invariant the sum of CACHED tip depths (what sackin adds up) equals the textbook Sackin index (sum over internal nodes of "
        "leaves below) of the represented tree; the two-branch root test of is_binary accepts exactly root arities up to three; height/diameter's fold is a maximum "
        "attained by some leaf (pair); indices are refused on unrooted and on non-binary trees. All statistics of the model are tied to the crate on every shape up to a "
        "node bound, every rooted binary shape up to a leaf bound, random and edited trees in four layouts, and re-derived from the topology by an independent oracle; "
        "Yule/PDA normalisations are recomputed in f64 from the textbook closed forms.",
   note=NOTE + ARQ + "Modelled, not verified: ln, powf and the harmonic sum in f64 (Yule/PDA normalisations; compared within 1e-12 relative).", technique="Lean 4 proofs (Sackin two definitions through the invariant, binarity test) + differential execution + independent recomputation", ref="5 C12"),
 "C05": dict(
   text="Kernel-checked theorems on the bitmask model of init_partitions for every tree: the reported set is exactly the set of canonical representatives of "
        "the splits induced by non-root internal branches with at least two leaves on each side (partitions_exact), without duplicates, a side and its "
        "complement have the same representative, the trivial-split test is symmetric in the two sides, the stored side depends only on the set of leaf names "
        "below the branch (transfer principle partitions_congr); Spec-level invariance theorems for child reordering, unary nodes and two- vs three-child "
        "roots. Tied to the crate by comparing get_partitions with the model on every shape up to a bound crossed with EVERY permutation of the leaf names, "
        "block-boundary leaf counts and random trees in three arena layouts; oracles on the real code: brute-force split enumeration, four metamorphic invariances.",
   note=NOTE + EXACT, technique="Lean 4 proofs about the bitmask partition model + differential execution over all name permutations", ref="5 C05"),
 "C06": dict(
   text="Kernel-checked theorems on the model of robinson_foulds / robinson_foulds_norm / compare_topologies for all trees: RF is the symmetric-difference "
        "count of the two split sets or that count plus two, the latter only when both roots have two children and the root split sets differ; equals the count "
        "whenever a root is not a two-child root; symmetric; zero for identical split sets; equal to the report's value; normalised value is the quotient by the "
        "total and the count never exceeds the total; different leaf indices are rejected. Tied to the crate on every ordered pair of leaf-labelled shapes up to a "
        "bound, random pairs and pairs with different leaf sets; oracles: symmetry, renaming, reordering, report agreement, brute-force count, rejection.",
   note=NOTE + EXACT + "rf_norm with zero splits is the IEEE quotient 0/0 (NaN), pinned by the correspondence.", technique="Lean 4 proofs about the RF model + exhaustive ordered-pair differential execution", ref="5 C06"),
 "C07": dict(
   text="Kernel-checked theorems on the model of weighted_robinson_foulds / khuner_felsenstein (squared) / compare_topologies / compare_branch_lengths: both "
        "distances are the sums over the union of split sets of |difference| resp. squared difference with 0 for an absent split; branches inducing the same split are "
        "one split with summed length and a missing length poisons the sum; a missing length yields MissingBranchLengths from all three entry points; the report "
        "carries exactly these values; common rescaling by k multiplies wRF by |k| and KF squared by k squared; the branch listing is exactly only-first / only-second / "
        "common with those lengths. Tied to the crate on exhaustive and random pairs with exact dyadic lengths (exact equality, bit-equal sqrt); oracles: brute-force "
        "sums, symmetry, scaling, reordering, report agreement, missing-length error. Symmetry of the sums is decided by oracle and correspondence, not yet by a theorem.",
   note=NOTE + EXACT, technique="Lean 4 proofs about the weighted-distance model + exact differential execution on dyadic lengths", ref="5 C07"),
 "C01": dict(
   text="Kernel-checked theorem, by structural induction over all trees and all codecs satisfying three laws, that parsing the written form "
        "of any tree in the property's domain yields an arena representing exactly that tree (shape, child order, names, comments, length values), "
        "for every arena layout (writer refinement theorem over a layout-independent abstraction), and that writing the re-parsed arena reproduces "
        "the text. The character-level parser model and the arena writer model are tied to the crate by comparing to_newick text and complete "
        "from_newick arenas (length bit patterns) on generated trees in four arena layouts, plus a write/parse/compare/write oracle on the real code.",
   note=NOTE + FLOATTXT, technique="Lean 4 structural-induction proof of the round trip + differential execution of parser/writer models against the crate", ref="5 C01"),
 "C02": dict(
   text="Kernel-checked theorems over ALL character lists: the parser model terminates, never takes a panic branch, and every returned arena is one "
        "rooted tree containing all slots (state invariant over the 12 arms of the step function); text without ';' is rejected; for quote-free text the "
        "returned arena's written form parses back to an arena representing the same tree and is written identically (normal form). The model is tied "
        "to from_newick by comparing outcome class and the complete arena on every string up to a length bound over the token alphabet (exhaustive), all "
        "short float lexemes, mutated valid Newick and random Unicode; oracles on the real code: no unwinding, single root, reachability, normal form, rejection.",
   note=NOTE + FLOATTXT + "The unbalanced-parentheses clause is decided by the exhaustive correspondence and the rejection oracle, not yet by a theorem.",
   technique="Lean 4 state-invariant proofs over the parser automaton + exhaustive short-string differential execution", ref="5 C02"),
 "C16": dict(
   text="Kernel-checked theorems for all nine formats and all trees: the format's text is the full-format text of the tree with exactly the omitted "
        "fields erased (strip), the arena writer produces it on every arena layout, stripping stays inside the round-trip domain, and parsing the text "
        "yields the stripped tree (via C01). Tied to the crate by comparing to_formatted_newick for all nine formats and to_nexus with the model on "
        "generated trees in four layouts; oracle: parse back and compare with the harness's own strip; Nexus NTAX / TAXLABELS / embedded text.",
   note=NOTE + FLOATTXT, technique="Lean 4 structural-induction proof (format = write of stripped tree) + differential execution of all nine formats", ref="5 C16"),
 "C03": dict(
   text="Kernel-checked theorems that every arena mutator of the model (add_child, recursive prune, compress_node with the depth repair, "
        "the regrouping step of merge_children/resolve, reset_depth_impl) preserves the arena invariant for every argument and terminates, "
        "for arenas of any size; the model's executable operations are tied to the real crate by executing the same edit histories "
        "(exhaustive op/argument sequences on all small shapes, long random walks, five arena layouts) and comparing the complete arena "
        "after every step; the invariant itself is also evaluated on the real arena (raw-slot hook) after every step.",
   note=NOTE + "Modelled, not verified: f64 arithmetic (histories use lengths that are multiples of 2^-10 so every sum is exact); rand's shuffle in resolve "
        "(the choices are read back from the real result and handed to the model as its oracle; theorems hold for every oracle).",
   technique="Lean 4 invariant-preservation proofs + differential execution of model and crate on edit histories",
   ref="5 C03"),
}

checks = []
for p in props:
    if p in CLAIMS:
        c = CLAIMS[p]
        checks.append({
            "property_id": p,
            "quick_cmd": f"./check {p} --tier quick",
            "thorough_cmd": f"./check {p} --tier thorough",
            "evidence_file": f"/verif/evidence/{p}.json",
            "replay_cmd_template": f"./check {p} --replay {{path}}",
            "engine": "lean-proof+correspondence",
            "level_claimed": {"category": "proof", "text": c["text"], "design_ref": "DESIGN.md section " + c["ref"]},
            "level_note": c["note"],
            "technique": c["technique"],
        })
m = {
 "version": 1,
 "setup_cmd": "./check setup",
 "hooks": {"guard": "phylotree_verif",
           "enable": "rustflags = [\"--cfg\", \"phylotree_verif\"] in /verif/harness/.cargo/config.toml (the harness is the only consumer)",
           "baseline_off_cmd": "cd /repo && cargo test --workspace --no-fail-fast --offline",
           "source_commits": hook_shas, "add_only": True},
 "engines": [{"name": "lean-proof+correspondence", "path": "/verif/check",
              "serves_properties": [p for p in props if p in CLAIMS],
              "kind_free_text": "Lean 4 project /verif/lean/PhyloModel (model, theorems, axiom audit, compiled line-protocol driver) + Rust harness /verif/harness (pvh: drives the real crate built from /repo's working tree and the driver on the same inputs, evaluates the property oracles on the implementation)"}],
 "checks": checks,
 "notes": "See DESIGN.md. Known findings: /verif/known_findings.json. Pre-fix replays of the repaired defects: /verif/findings/.",
 "not_applicable": [{"property_id": p, "reason": "check under construction in this build round (model and harness stream not landed yet); planned per DESIGN.md section 5, not a limit of the technique"} for p in props if p not in CLAIMS],
}
json.dump(m, open("MANIFEST.json", "w"), indent=1)
print("claimed:", [p for p in props if p in CLAIMS])
