#!/usr/bin/env python3
"""Regenerates MANIFEST.json from the table below (run from /verif)."""
import json, subprocess
props = [json.loads(l)["id"] for l in open("properties.jsonl")]
hooks_commits = subprocess.run(["git", "-C", "/repo", "log", "--format=%H %s"], capture_output=True, text=True).stdout.splitlines()
hook_shas = [l.split()[0] for l in hooks_commits if "verif hook" in l]

NOTE = ("Trusted: Lean 4.33 kernel (axioms per theorem printed on every run, subset of propext/Classical.choice/Quot.sound; no sorry, "
        "native_decide, bv_decide or user axioms), the Lean compiler for the driver executable, rustc/std, and the correspondence "
        "harness pvh (generators, canonicalisation) which is the only tie between the hand-written model and /repo. ")

FLOATTXT = ("Modelled, not verified: Rust's Display/FromStr for f64 (the theorems assume exactly the three codec laws of NW.Codec: "
            "printed text parses back to the same value, uses only plain characters, is non-empty; the harness checks real to_newick/from_newick "
            "text and bit patterns against the model on every run, including -0, subnormals, 1e300 and infinities); char::is_whitespace (transcribed table); "
            "stack depth of the recursive writer on extremely deep trees. ")

EXACT = ("Modelled, not verified: f64 rounding (the model computes over exact integers; the harness uses lengths that are multiples of 2^-10 so that every "
         "sum and product the crate forms is exact and compares for exact equality), sqrt (the model returns KF squared; the harness applies sqrt and compares bits), "
         "FixedBitSet's ordering (which of the two sides is stored cannot be observed once splits are compared as unordered pairs; the model fixes one), "
         "HashMap/HashSet iteration order (sorted away). ")

ARQ = ("Modelled, not verified: f64 rounding (exact integer lengths, multiples of 2^-10, exact comparison); the model's recursion fuel (2*size+3) stands for Rust's "
       "unbounded recursion, adequacy is a theorem under the arena invariant (depth < size by pigeonhole); stack depth on extremely deep trees. ")

CLAIMS = {
 "C18": dict(
   text="Kernel-checked theorems on the model of the tool's own logic over the WHOLE loops: collapse on a well-formed arena with a root always succeeds, leaves children, parent, name, comment, depth of "
        "every slot untouched, sets a node's length to 0 exactly when it has a parent, a length below the threshold and is not an excluded tip, updates the parent's record of that length consistently, "
        "touches nothing outside the root's tree, and keeps the arena well formed; remove (prune each named tip, prune the ancestors that lost all children, compress): when it succeeds the arena is well "
        "formed with one root, no one-child non-root node is left, no slot is revived, NO NEW TIP appears (a tip of the result was a tip of the input that was not removed — with the precise corner case of "
        "the root once every tip is gone), every named node was a live tip carrying that name at its turn and is gone, and every tip-to-tip path length among the remaining tips is unchanged (C11's distance "
        "theorems chained through the loop); otherwise it is one of four named error exits, never a fuel or panic outcome; rescale / resolve are the library operations (C11). The REAL binary built from "
        "the working tree (without the verification cfg) is run on generated tree files for stats, matrix (both layouts), distance, compare, collapse (-e), rescale, remove (random tips and "
        "whole sibling groups) and resolve: report outputs are compared with the library in-process, with independent computations (path walks, brute-force splits) and with the arena / "
        "split / matrix models; transform outputs are parsed back and compared with the CLI model's arena and with the contract; -o for every subcommand into a PRE-EXISTING longer file must leave exactly the plain run's output.",
   note=NOTE + ARQ + "Modelled, not verified: clap argument parsing, the file system, process exit codes (a panic exit is an error exit); generate is run and judged by C17's oracles; not covered: draw, deduplicate, completion (not in the property).",
   technique="Lean 4 proofs on the CLI-logic model (collapse and remove contracts over the whole loops) + runs of the real binary compared with library, independent computations and models", ref="5 C18"),
 "C20": dict(
   text="Kernel-checked totality theorems per function family of the model, where every partial Rust operation is an explicit panic outcome and unbounded recursion is running out of fuel: "
        "the Newick parser never panics (all strings); the triangular Phylip parser never panics (all texts); the generator loops never fail (all oracles); recursive prune and "
        "reset_depth_impl terminate with the model's fuel on every arena satisfying the FOREST invariant (no single-root clause), from the pigeonhole bound depth < size; the path / "
        "common-ancestor / distance, root / rootedness and traversal queries never reach a panic outcome for ANY arena and ANY ids (removed, out of range, different components). The "
        "property itself is evaluated on the real crate on every run: the cross product of every public function of Tree (all argument classes, nine comparison partners), DistanceMatrix "
        "(sizes 0-3, non-finite matrices) and the generators (n = 0..3 in a watchdogged child process) with sixteen classes of degenerate value plus trees degenerated by random edit "
        "histories, each call isolated by catch_unwind; outcome classes of the calls that have a model counterpart are compared with the model. Also proved (wrappers of C03, C08, C14, C15, C18): the strict Phylip parser, the fast distance matrix on any well-formed forest, the UPGMA loop, every editing operation with arbitrary arguments and the CLI collapse loop never reach a panic / fuel outcome. Also executed: numeric-corner subjects (NaN, infinities, subnormal, huge lengths), stale leaf index with unchanged leaf count, unlabelled matrices, file functions, print functions, neighbor_joining (a todo!() stub: known finding), and after EVERY mutating call — whether it succeeded or returned an error — a follow-up battery of 22 calls on the object it left behind.",
   note=NOTE + ARQ + "Cannot be exhibited by the model: stack exhaustion on extremely deep trees, allocation failure for absurd declared sizes. Cyclic arenas (only constructible by assigning public fields by hand) are outside 'constructible through the public API'.",
   technique="Lean 4 totality proofs (no reachable panic / fuel adequacy) per function family + isolated cross-product execution of the public API on degenerate values", ref="5 C20"),
 "C19": dict(
   text="Kernel-checked theorems on the exact-angle model of radial_layout, for every tree: exactly one segment (and labelled point) per non-root node, in pre-order; sibling wedges are "
        "consecutive in child order, each starting where the previous one ends, of width leaves(child)/leaves(root); the wedges of a node's children together are exactly as wide as the "
        "node's own wedge (nested; the root's children fill the full turn); for any direction on the unit circle the drawn segment has squared Euclidean length equal to the squared "
        "branch length; rescaling commutes with the construction; a missing length is refused. PARTIAL by nature: cos, sin and rounding are modelled, not verified — the harness applies "
        "the real cos/sin to the model's exact angles and compares every coordinate with the crate's within 1e-9 of the drawing's extent, and checks on the real layout: segment starts "
        "at the parent's point, ends at the node's point, Euclidean length = branch length, direction = bisector of the wedge computed from leaf counts, labels, rescale. Also on the real code: the drawing of the tree rescaled by 2^-70, 2^-300, 2^100 must be the drawing multiplied by that factor exactly; six arena layouts incl. bottom-up.",
   note=NOTE + "Modelled, not verified: f64 cos/sin/atan2 and rounding; the angle is a rational fraction of a turn in the model.",
   technique="Lean 4 proofs on an exact-angle layout model (wedge partition, one segment per node, length identity on the unit circle) + coordinate-level differential execution within 1e-9", ref="5 C19"),
 "C17": dict(
   text="Kernel-checked theorems quantifying over EVERY outcome of the random choices (the generators are functions of an explicit oracle): for the ETE3-like generator and every "
        "sequence of front/back choices, and for the Yule generator and every sequence of valid candidate choices (Vec::swap_remove bookkeeping included), the loop never fails and "
        "after n-1 iterations there are 2n-1 slots, exactly n tips (the loop's leaf count grows by one per iteration, so the Yule loop terminates after exactly n-1 iterations), a "
        "slot is a tip iff it has no children and every other slot has exactly two distinct children. Tied to the crate through the seedable-RNG hook: the choices are read back from "
        "the real result and the model must rebuild the identical tree and tip numbering; the caterpillar generator (deterministic) is compared exactly. Oracles on the real result: "
        "arena invariant, rooted binary, n leaves, 2n-1 nodes, unique Tip_i names on tips only, lengths all present and inside the distribution's support / all absent, comb shape "
        "and Colless = (n-1)(n-2)/2 for the caterpillar. Also: the distributions are visited in a rotating order that never starts with the first enum variant; extreme raw draws injected through hook H4 drive the uniform sampler to both ends of its support; requests of 40 000 (thorough: up to 150 000) leaves (oracles only).",
   note=NOTE + "Modelled, not verified: rand / rand_distr (theorems hold for every oracle; the supports Uniform[0.002,1), Exp(0.15) >= 0, Gamma(4,1) > 0 are checked on the drawn values only).",
   technique="Lean 4 invariant proofs over all oracles for the generator loops + oracle read-back differential execution through the seedable-RNG hook", ref="5 C17"),
 "C15": dict(
   text="Kernel-checked theorems over exact rationals about the EXECUTABLE transcription of DistanceMatrix::upgma (triangular vector, retired rows set to infinity, first strict minimum in "
        "cell order, cardinality-weighted update, heights, tree assembly — what the driver runs against the crate): one loop iteration picks a pair of distinct live clusters at minimal "
        "distance, cannot fail on a well-formed state, and refines the abstract agglomeration step, for which the size-weighted update IS average linkage of the merged cluster and every live "
        "cell stays the average of the ORIGINAL distances between the clusters it joins; hence for EVERY symmetric non-negative matrix on two or more taxa the result is a tree that is binary at "
        "every internal node with a two-child root, whose leaf names are a permutation of the taxa, whose leaves are all at the same distance from the root, whose branch lengths are all "
        "non-negative, and whose internal nodes (leaf set, height) are exactly the merge events of a complete run of average-linkage clustering from its definition (each merge joins a pair "
        "minimising the average of the original distances, at half that average; with a unique minimiser any valid step merges the same pair at the same height); and when the input satisfies "
        "the three-point condition the matrix of leaf-to-leaf path lengths of the tree IS the input. Tied to the crate by running that exact transcription on every case (topology, child order, "
        "names; lengths exactly whenever every intermediate value is dyadic — ties included — else 1e-9; cases where a tie or a margin below 1e-6 would be decided by rounding are not compared), "
        "including matrices presented at magnitudes 2^-200..2^200 and matrices with repeated / empty taxon labels, and by oracles on the real result: well-formed arena incl. depths, rooted binary, "
        "leaves = taxa, equidistant leaves, non-negative lengths, naive average-linkage clustering from its definition whenever unambiguous, reproduction of ultrametric inputs.",
   note=NOTE + "Modelled, not verified: f64 rounding (exact Rat in the model); 'non-negative' is read as finite non-negative. Global determinism of the whole run under unambiguous minima is proved one step at a time (avg_step_unique), not as one theorem about complete runs.",
   technique="Lean 4 refinement and loop-invariant proofs on the exact rational transcription of the UPGMA loop (shape, equidistance, non-negativity, average linkage, ultrametric recovery) + differential execution of that transcription", ref="5 C15"),
 "C08": dict(
   text="Kernel-checked theorems, for every tree shape, arena layout and assignment of lengths: (rose level) the contributions the fast algorithm adds into the triangular vector are keyed by "
        "every pair of leaves exactly once and each equals the textbook path length (deepest node containing both leaves, two legs); (arena level, by a loop-invariant proof over the reversed "
        "level order — every node is listed after its parent — with the per-slot caches and the keyed accumulation) under the arena invariant every cell the EXECUTABLE fold returns IS the path "
        "length between the two taxa of that cell in the tree the arena represents, taxa being the leaves stably sorted by name; a missing length counts as the unit (edge counts when no length "
        "is present); the fold never reaches a panic / unwrap / missing-cache outcome (it answers UnnamedLeaves, RootNotFound for an emptied arena, or a matrix); it equals the rose-level "
        "recursion whenever tip names are pairwise different (kernel-checked counterexample with a repeated name: outside the property's domain). Tied to the crate by executing the fold, the "
        "rose recursion and the recursive algorithm's model on every case and comparing each with the crate for EXACT equality (dyadic lengths). Oracles on the real code (stream B: decimal "
        "lengths, 1e-9): both algorithms against an independent path walk (two-sided), against each other and against get_distance, sorted taxa, edge counts when no length is present, "
        "refusal of missing lengths by the recursive algorithm, recomputation after an edit of an already-queried object.",
   note=NOTE + EXACT + "accurate::NaiveSum is treated as f64 addition. The recursive algorithm (distance_matrix_recursive) is tied by differential execution of its model (which is the textbook path length by definition), not by a separate loop proof.", technique="Lean 4 loop-invariant proof that the executable arena fold returns the path lengths (each pair once) + exact differential execution of three model computations", ref="5 C08"),
 "C14": dict(
   text="Kernel-checked theorems on the character-level model of the Phylip writer and the parsing entry points (str::lines, split_whitespace, usize::from_str transcribed, usize Display/FromStr "
        "proved from the core digit lemmas; entries through a codec with two laws): ROUND TRIP, cell for cell and with the same taxa in the same order, for every matrix whose names are non-empty "
        "whitespace-free words (repeated names allowed): triangular text through from_phylip_tril and through from_phylip_strict, square text through from_phylip_strict (there every stored value "
        "must equal itself: NaN cannot pass the symmetry test, kernel-checked example); TOTALITY of all entry points for every text (no panic branch reachable, also inside the positional fill); "
        "STRICTNESS for every accepted text: as many rows as the declared size, every row exactly the required number of distances, zero diagonal, the lower entry equal to the stored upper "
        "entry, stored cells = the upper-triangle entries; an asymmetric text is answered with an error; exact acceptance criterion (iff); a missing or non-numeric header is rejected. The "
        "hypothesis 'pairwise different names' that the first proof of the symmetry clause forced exposed a genuine defect of the crate (an asymmetric matrix with a repeated row label was "
        "accepted), repaired by filling by position. Tied to the crate by comparing outcome class, taxa and every value (bit patterns through Rust's own float parser) on EVERY string up to a "
        "length bound over 0 1 . a space newline for all three entry points, mutated valid files (also with repeated labels), and matrices with f64 and f32 entries incl. arbitrary bit patterns, "
        "repeated labels, written in both layouts (text compared byte for byte) and parsed back; oracles on the real code: no panic, bit-exact round trip, the strictness conditions re-derived "
        "with Rust's own lines/split_whitespace.",
   note=NOTE + FLOATTXT + "The symmetry test of the strict parser compares f64 values; the model compares the exact decimal values of the lexemes (equal for every generated pair). Texts declaring a size above 2000 are skipped (allocation limits are outside the property). Known finding: an EMPTY taxon name cannot be carried by Phylip text (see known_findings.json).",
   technique="Lean 4 proofs on the character-level Phylip model (cell-for-cell round trip in both layouts, totality, strictness iff) + exhaustive short-text and bit-exact round-trip differential execution", ref="5 C14"),
 "C13": dict(
   text="Kernel-checked theorems for EVERY matrix size: the triangular index maps unordered pairs of distinct taxa below n injectively into [0, n(n-1)/2), symmetric in its "
        "arguments, with an explicit integer inverse proved to be a two-sided inverse (so cells and pairs are in bijection); by-index and by-name store laws (a value set for a pair "
        "is read back for that pair in either order and for no other pair; identical taxa read zero; set on identical taxa accepted iff zero); indexed iteration lists every cell once "
        "under the pair the index assigns; the pair-keyed map is exactly all ordered pairs with get's values; extremum search returns an iterated entry; relabelling (set_taxa) with as many distinct "
        "labels succeeds, changes no cell, and afterwards the pair of new labels at positions (i,j) reads what the old labels at those positions read (a wrong number of labels is refused). Tied to the crate on every "
        "size 0..40 over all cells (reads, sets with full read-back, iteration, map, extrema with ties, extrema over matrices with infinite entries) and random set/get/set_taxa sequences against a positional table. The crate's FLOATING-POINT inverse is a theorem under ONE explicit hypothesis about the hardware square root (float_inverse_correct: if the returned value s satisfies m <= s <-> m^2 <= 8k+1 for every natural m — "
        "true of a correctly rounded IEEE sqrt whenever 8k+1 < 2^53 — the pair the code returns is the integer inverse); that hypothesis is what the hook-based sweep checks on the real f64::sqrt at the "
        "triangular-number boundaries below 2^50 (all of them in the thorough tier).",
   note=NOTE + "Modelled, not verified: the f64 sqrt/floor inverse rowvec_to_tril_index (boundary sweep + IEEE monotonicity argument, a check and not a theorem); entries are small integers held exactly in f64.",
   technique="Lean 4 proofs of the index bijection and store laws for all sizes + exhaustive small-size differential execution + boundary sweep of the float inverse", ref="5 C13"),
 "C04": dict(
   text="Kernel-checked theorems (1) on a state-machine model of the two RefCell caches: after the documented reset a query returns the value for the current tree, any number of "
        "queries return that value and never change the tree (induction over the query list), an edit followed by the reset is seen by every later query, and without the reset a "
        "stale answer is possible (witness); (2) on the arena model: EVERY id-free query (leaf count and names, rooted, binary, length, cherries, Colless, Sackin, height, diameter, name searches, "
        "the six traversals / listings read as names, bipartitions and the comparison functions, node-to-node distances and common ancestors with nodes addressed by pre-order position, both "
        "distance matrices) refines a function of the abstract tree alone; hence two well-formed one-rooted arenas representing the same tree give the same answers whatever their layout, removed "
        "slots or history (answers_depend_only_on_tree), and the arena reached by ANY admissible edit history answers exactly like the arena built afresh from its current tree by add + add_child in "
        "pre-order, as the parser builds it (C04_history_vs_fresh); get_by_name after any history returns the node of the current tree with the smallest id carrying the name, never a removed slot; "
        "removed slots are never listed, found, used as root or entered by the abstraction. The crate's cached queries are tied to the cache-free model by random edit histories in seven arena "
        "layouts interleaved with the reset and with all queries in random order and multiplicity (id-level answers vs the model), and the property itself is evaluated on the real code: a 31-query "
        "battery answered by name on the edited tree, on a tree freshly parsed from its Newick text, and a second time in another order; plus the cache PROTOCOL matrix (one cache-touching query x "
        "one kind of edit x reset x everything).",
   note=NOTE + ARQ + "The per-node subtree_distances cache is covered by the battery, the protocol matrix and C08. The statement is ONE composed theorem through the modelled writer and the modelled parser (same_answers_as_freshly_parsed: the arena is converted to the parser model's arena type, written by the modelled to_newick, parsed by the modelled from_newick with its finishing pass, converted back; every id-free answer coincides), for labels in C01's domain; outside it (a tip named 'a,b') the property fails, with a kernel-checked witness.",
   technique="Lean 4 proofs on a cache state machine + refinement of every arena query to a function of the abstract tree (layout / history independence) + differential execution of interleaved edit/query histories vs model and vs fresh parse", ref="5 C04"),
 "C11": dict(
   text="Kernel-checked theorems: prune terminates and removes exactly the chosen subtree (a slot dies iff it lies below the node; every other slot is unchanged except the parent's "
        "child list); the regrouping step of merge_children/resolve has the exact frame (new node = fresh slot with children [c1,c2], parent's list = old list minus them plus the new "
        "node, every other slot untouched) and with the depth repair preserves the invariant; merging non-siblings, a node with itself or a removed node is refused with the arena "
        "unchanged; splicing out unary nodes keeps every leaf-to-leaf path length (rose level); rescale multiplies both records of every length and nothing else; ladderize's sort is a "
        "permutation ordered by descendant count and ladderize changes nothing but the order inside child lists; POSTCONDITIONS over the whole loops on every arena satisfying the "
        "invariant: a successful compress leaves no live non-root node with exactly one child, resolve (for every outcome of its random choices) leaves no node with more than two "
        "children, and compress / resolve / ladderize keep the set of tips; every operation keeps the invariant and terminates (C03). ON THE EXECUTABLE OPERATIONS, for every arena satisfying the invariant: get_distance after rescale k is the answer before with the length multiplied by k (all ids); ladderize changes no answer of get_distance / get_path_from_root; compress_node keeps the length of the connecting path of any two distinct live nodes other than the spliced one, compress (whatever its outcome, also when it stops half-way on a mixed pair) and resolve (for EVERY outcome of its random choices) keep the tip set and the path length between any two tips (one summary theorem over applyOp: old length times the operation's factor); prune changes no distance between surviving nodes; ladderize's sort key IS the number of proper descendants (the count array of the reversed-level-order fold is proved correct: children are listed after their parent in level order) and every node's child list in the result is the stable sort of the old list by that key. Tied to the crate by executing every operation with EVERY argument on every small shape (plus random) in five arena layouts, "
        "comparing the arena slot by slot with the model and with rose-level expectations computed by the harness (exact result for prune/merge/rescale; leaf set, all leaf-pair "
        "distances and the postcondition for compress/resolve/ladderize). resolve: the random choices are read back from the result and replayed through the model.",
   note=NOTE + ARQ + "Nothing of the property's logic is left to testing alone; f64 rounding of the sums is modelled (exact integers).",
   technique="Lean 4 frame/invariant proofs for the mutators + exhaustive-argument differential execution with rose-level expectations", ref="5 C11"),
 "C09": dict(
   text="Kernel-checked theorems on the arena model of get_path_from_root / get_common_ancestor / get_distance under the structural arena invariant, for arenas of "
        "any size: the root path exists, is unique and is what the query returns (fuel adequacy by pigeonhole); for two distinct nodes of the same tree the reported "
        "ancestor is an ancestor of both and every common ancestor is an ancestor of it (deepest), the edge count is the length of the two legs, the length is the sum "
        "over both legs when all are present and absent otherwise; symmetric; zero for a node with itself; dead ids are errors. Tied to the crate on every ordered pair of "
        "node ids (incl. removed and out-of-range) of every shape up to a node bound with three length masks and random larger trees in four arena layouts; brute-force ancestor oracle. Also on the real code: trees with NaN / +inf / -inf / -0 lengths (a NaN or infinite length is a PRESENT length: Some(sum), None exactly when a length is missing), six arena layouts incl. bottom-up, objects with a past.",
   note=NOTE + ARQ, technique="Lean 4 proof of the deepest-common-ancestor theorem on the arena model + all-pairs differential execution", ref="5 C09"),
 "C10": dict(
   text="Kernel-checked refinement theorems through a layout-independent abstraction (slot i represents rose tree t): pre-order = node then children's pre-orders in "
        "child order, post-order = children's post-orders then node and a permutation of pre-order, the arena's level-order queue loop emits exactly the rose-level "
        "queue loop's ids whose levels never decrease, listings are defined from the traversals, dead start nodes are errors, in-order refuses more than two children, "
        "nothing outside the subtree is listed; the abstraction is total and unique under the invariant; CLOSED FORM under the invariant with no fuel or representation "
        "hypothesis left: pre-, post- and level-order succeed with the executable model's fuel (the represented tree has at most as many nodes as the arena has slots) and "
        "each lists exactly the nodes below the start node, each exactly once. Tied to the crate on every start node (incl. removed and "
        "out-of-range ids) of every shape up to a node bound and random trees to 150 nodes in four layouts incl. removed slots; order-predicate oracles.",
   note=NOTE + ARQ + "In-order is proved equal to the rose-level in-order (left subtree, node, right subtree; single child = left) of the represented tree.", technique="Lean 4 refinement proofs (arena traversal = rose traversal) + differential execution from every start node", ref="5 C10"),
 "C12": dict(
   text="Kernel-checked refinement theorems: for every arena satisfying the invariant and holding one tree, each statistic the executable model computes by scanning ALL arena slots (as the crate does) "
        "equals the textbook value computed from the topology and branch lengths of the represented tree: leaf count, rooted (root arity two), binary (every node at most two children, the root at most "
        "three), total length (sum, refused when a length is missing), cherries (nodes with exactly two tip children), Colless (sum over internal nodes of |L-R| in tips, the code's |L-0| on one-child "
        "nodes stated as such), Sackin (sum of CACHED tip depths = sum over internal nodes of leaves below, through the depth clause of the invariant), height and diameter (maxima over root-to-tip paths / "
        "tip pairs of the path length, a missing length counting as one edge unit); the indices are refused with the named error on unrooted and on non-binary trees and defined on rooted binary ones. "
        "All statistics are tied to the crate on every shape up to a node bound, every rooted binary shape up to a leaf bound, random and edited trees in six layouts, and re-derived from the topology by "
        "an independent oracle; Yule/PDA normalisations are recomputed in f64 from the textbook closed forms.",
   note=NOTE + ARQ + "Modelled, not verified: ln, powf and the harmonic sum in f64 (Yule/PDA normalisations; compared within 1e-12 relative). The empty arena and the arena whose nodes were all removed are treated by the correspondence only.", technique="Lean 4 refinement proofs (slot scans = rose-level textbook definitions) + differential execution + independent recomputation", ref="5 C12"),
 "C05": dict(
   text="Kernel-checked theorems on the bitmask model of init_partitions for every tree: the reported set is exactly the set of canonical representatives of "
        "the splits induced by non-root internal branches with at least two leaves on each side (partitions_exact), without duplicates, a side and its "
        "complement have the same representative, the trivial-split test is symmetric in the two sides, the stored side depends only on the set of leaf names "
        "below the branch (transfer principle partitions_congr); Spec-level invariance theorems for child reordering, unary nodes and two- vs three-child "
        "roots. Tied to the crate by comparing get_partitions with the model on every shape up to a bound crossed with EVERY permutation of the leaf names, "
        "block-boundary leaf counts and random trees in three arena layouts; oracles on the real code: brute-force split enumeration, four metamorphic invariances. Also proved ON THE EXECUTABLE FUNCTIONS: the reported set (as a set; the list order may change) is unchanged by any reordering of children anywhere in the tree, by inserting or removing one-child nodes incl. a one-child root, by drawing the root with two or with three-or-more children, and is transported by any injective renaming of the taxa although every bit position changes (read back as name sets); arena bridges: ladderize, compress (any outcome) and rescale keep the bipartitions of the arena's tree.",
   note=NOTE + EXACT, technique="Lean 4 proofs about the bitmask partition model + differential execution over all name permutations", ref="5 C05"),
 "C06": dict(
   text="Kernel-checked theorems on the model of robinson_foulds / robinson_foulds_norm / compare_topologies for all trees: RF is the symmetric-difference "
        "count of the two split sets or that count plus two, the latter only when both roots have two children and the root split sets differ; equals the count "
        "whenever a root is not a two-child root; symmetric; zero for identical split sets; equal to the report's value; normalised value is the quotient by the "
        "total and the count never exceeds the total; different leaf indices are rejected. Tied to the crate on every ordered pair of leaf-labelled shapes up to a "
        "bound, random pairs and pairs with different leaf sets; oracles: symmetry, renaming, reordering, report agreement, brute-force count, rejection. Also on the real code: the same objects compared again after an edit and the documented reset (leaf names swapped; growth below an internal node after distance matrices and comparisons), look-alike labels (quoted / case / suffix variants are distinct taxa), root not in slot 0. Also proved on the executable functions: RF = 0 between a tree and any child-reordering, unary variant or root-style variant of itself; RF (value, the +2 correction, the rejection, the normalised value, the report) is unchanged by reordering either tree and by any consistent injective renaming of both trees, without hypothesis.",
   note=NOTE + EXACT + "rf_norm with zero splits is the IEEE quotient 0/0 (NaN), pinned by the correspondence.", technique="Lean 4 proofs about the RF model + exhaustive ordered-pair differential execution", ref="5 C06"),
 "C07": dict(
   text="Kernel-checked theorems on the model of weighted_robinson_foulds / khuner_felsenstein (squared) / compare_topologies / compare_branch_lengths: both "
        "distances are the sums over the union of split sets of |difference| resp. squared difference with 0 for an absent split; branches inducing the same split are "
        "one split with summed length and a missing length poisons the sum; a missing length yields MissingBranchLengths from all three entry points; the report "
        "carries exactly these values; common rescaling by k multiplies wRF by |k| and KF squared by k squared; the branch listing is exactly only-first / only-second / "
        "common with those lengths. Tied to the crate on exhaustive and random pairs with exact dyadic lengths (exact equality, bit-equal sqrt); oracles: brute-force "
        "sums, symmetry, scaling, reordering, report agreement, missing-length error. Symmetry of both sums (for split maps without repeated splits, which the partition map guarantees) is a theorem. Also on the real code: common rescaling by 2^-70, 2^-300, 2^200 compared EXACTLY (scaling by a power of two is exact, sqrt correctly rounded), the same objects after rescale + reset, look-alike labels. Also proved on the executable functions: both distances are 0 between a tree and any reordering of itself (the accumulated length of a split does not depend on the order of its inducing branches), unchanged by reordering either tree, scale by |k| resp. k^2 under rescale k of both, and are unchanged by a consistent renaming of two trees on the same leaf set (the hypothesis is necessary: kernel-checked counterexample on different leaf sets, which are outside the property's domain).",
   note=NOTE + EXACT, technique="Lean 4 proofs about the weighted-distance model + exact differential execution on dyadic lengths", ref="5 C07"),
 "C01": dict(
   text="Kernel-checked theorem, by structural induction over all trees and all codecs satisfying three laws, that parsing the written form "
        "of any tree in the property's domain yields an arena representing exactly that tree (shape, child order, names, comments, length values), "
        "for every arena layout (writer refinement theorem over a layout-independent abstraction), and that writing the re-parsed arena reproduces "
        "the text. The character-level parser model and the arena writer model are tied to the crate by comparing to_newick text and complete "
        "from_newick arenas (length bit patterns) on generated trees in four arena layouts, plus a write/parse/compare/write oracle on the real code. Also: seven arena layouts incl. the agglomerative bottom-up build (slot 0 a tip, parents created after their children), NaN lengths (all NaNs identified), objects queried before they are written, and a second write of the same object after an in-place payload edit through each public mutable accessor.",
   note=NOTE + FLOATTXT, technique="Lean 4 structural-induction proof of the round trip + differential execution of parser/writer models against the crate", ref="5 C01"),
 "C02": dict(
   text="Kernel-checked theorems over ALL character lists (quotes and comments anywhere): the parser model terminates, never takes a panic branch, and every returned arena is one "
        "rooted tree containing all slots (state invariant over the arms of the step function); every label it stores lies in the domain of the round-trip theorem (labels_ok_all: the quote flag "
        "and the name buffer stay in step), so for EVERY accepted text the returned arena's written form parses back to an arena representing the same tree and is written identically (normal_form_all); "
        "text without ';' is rejected; REJECTION under the plain three-mode lexical reading of the format (plain / inside double quotes / inside a bracket comment, independent of the parser's fields): "
        "whatever is accepted has a structural ';' and balanced structural parentheses before it with no prefix closing more than it opened — for every number parser that refuses a lexeme containing a "
        "double quote, proved of the recogniser the driver runs (reject_unbalanced_float, no hypothesis left); with the exact field-aware tokenizer no assumption at all; a quote inside a branch length is "
        "always an error. The proof attempt forced the hypothesis 'no quote is read inside a branch length' and thereby exposed a genuine defect (accepted unbalanced text, written form not parseable), "
        "repaired in the crate. The model is tied to from_newick by comparing outcome class and the complete arena on every string up to a length bound over the token alphabet (exhaustive), every label "
        "up to a bound over quote / backslash / bracket characters, all short float lexemes, mutated valid Newick (incl. quotes after lengths) and random Unicode; balanced text nested 10^4..10^6 deep is "
        "parsed in a child process; oracles on the real code: no unwinding, single root, reachability, normal form, rejection under the lexical reading for every text.",
   note=NOTE + FLOATTXT,
   technique="Lean 4 state-invariant proofs over the parser automaton (totality, well-formedness, label domain, normal form, lexical rejection) + exhaustive short-string differential execution", ref="5 C02"),
 "C16": dict(
   text="Kernel-checked theorems for all nine formats and all trees: the format's text is the full-format text of the tree with exactly the omitted "
        "fields erased (strip), the arena writer produces it on every arena layout, stripping stays inside the round-trip domain, and parsing the text "
        "yields the stripped tree (via C01). Tied to the crate by comparing to_formatted_newick for all nine formats and to_nexus with the model on "
        "generated trees in four layouts; oracle: parse back and compare with the harness's own strip; Nexus NTAX / TAXLABELS / embedded text. Also: NaN lengths, the bottom-up arena layout, objects with a past (caches filled) and Nexus export after an un-reset edit of a queried object.",
   note=NOTE + FLOATTXT, technique="Lean 4 structural-induction proof (format = write of stripped tree) + differential execution of all nine formats", ref="5 C16"),
 "C03": dict(
   text="Kernel-checked theorems, for arenas of any size and histories of any length: EVERY executable operation of the model (add, add_child, "
        "set name, recursive prune, compress_node and compress with the depth repair, rescale, merge_children incl. two parentless nodes, resolve for every "
        "outcome of its random choices, ladderize, reset_depths) with ARBITRARY arguments maps an arena satisfying the invariant to one satisfying it and never "
        "exhausts the model's recursion fuel (applyOp_good); hence the invariant holds after every history from the empty arena (every_history); the stored "
        "depth is the number of edges to the root; no operation but add creates a parentless live node, so along every history that calls add only on a rootless "
        "arena the live nodes form exactly one tree below the node get_root returns (one_rooted_tree). The model's executable operations are tied to the real "
        "crate by executing the same edit histories (exhaustive op/argument sequences on all small shapes, long random walks, six arena layouts) and comparing "
        "the complete arena after every step; the invariant itself is also evaluated on the real arena (raw-slot hook) after every step.",
   note=NOTE + "Modelled, not verified: f64 arithmetic (histories use lengths that are multiples of 2^-10 so every sum is exact); rand's shuffle in resolve "
        "(the choices are read back from the real result and handed to the model as its oracle; theorems hold for every oracle).",
   technique="Lean 4 invariant-preservation proofs + differential execution of model and crate on edit histories",
   ref="5 C03"),
}

# what the correspondence / oracle streams gained after the fourth round of seeded changes (appended to the claim texts)
TIE_ADDENDA = {
 "C01": " Inputs also include repeated tip labels, lengths on internal branches only / on tips only, and the `tomb2` arena layout (tips that had children, a lone root in an arena of several slots).",
 "C03": " Starting trees include partially annotated ones with lengths on internal branches only or on tips only (the two records of a branch are compared from step 0). Histories also contain add_child whose node argument is a COPY of a node of the tree (it arrives with that node's links) and branch lengths overwritten in place through the public setters, both records; both requests are model definitions with invariant theorems (Props/C03Protocol.lean: add_child_of_a_copy_preserves, length_overwrite_preserves, every_extended_history).",
 "C04": " The battery also holds the length-aware bipartition answers (weighted RF, branch score and the comparison report against a fixed reference tree on the same taxa and against the object itself, Ok/Err included).",
 "C05": " Label sets include look-alikes that differ only by blanks, invisible characters, case or quoting (API-built).",
 "C09": " A 70 000-level caterpillar (thorough: 300 000) is queried for root paths, common ancestors and distances on the real crate.",
 "C10": " Every traversal and listing is also run from three start nodes of a 16 000-level caterpillar (thorough: 80 000) on a 1 GiB stack on the real crate.",
 "C11": " Every operation is also judged on the object after one or two of its branch lengths were overwritten in place through the public setters.",
 "C12": " A third of the trees carry a length on the root itself (it belongs to no branch).",
 "C13": " Matrices with REPEATED labels (through new and set_taxa): to_map agrees with get, identical labels read zero, a label names its first position (to_map_functional: entries under one key agree).",
 "C14": " Square texts that are symmetric except in one mirrored pair, over zero-rich values, must be rejected whichever entry was changed.",
 "C15": " Global determinism (Props/C15Det.lean): under unambiguous minima the sequence of merges, read as (member set, height), is determined by the matrix — two complete average-linkage runs from equivalent states agree position by position; the executable UPGMA on the same labelled matrix in ANY taxon order returns the same (leaf-name set, height) nodes, and the executable's own tie=false flag certifies the hypothesis; a kernel-checked tie shows the hypothesis is needed.",
 "C16": " Inputs also include repeated tip labels and the `tomb2` arena layout.",
 "C19": " Layout::rescale is exercised with ordinary, negative, zero (either sign), subnormal, huge and infinite factors, each group on a fresh drawing.",
 "C20": " Every mutating matrix call, accepted or refused, is followed by a battery of every reader and writer on the object it leaves behind; Display / Debug of every node on labels mixing 1- to 4-byte characters; add_child / add with a copy of a node of the tree. The outcome class (Ok / Err) of every two-tree comparison on every subject x partner pair with exactly one live root each is compared with the split model: an Ok where the model refuses the pair (or the reverse) is reported.",
}
for _p, _t in TIE_ADDENDA.items():
    CLAIMS[_p]["text"] = CLAIMS[_p]["text"].rstrip() + _t

# streams and theorems added in the fourth session (round 6 of seeded changes, coverage measurement)
SESSION4 = {
 "C01": " Comment texts include strings that are annotations with a meaning elsewhere (&R, &U, NHX, BEAST attributes, support values): a comment is opaque data. Also: CR LF and lines starting with # inside comments and quoted labels, to_file / from_file round trips incl. tree files of several hundred kilobytes with multi-byte labels, short decimal mantissas at far-away exponents (1.5e-29).",
 "C03": " Histories also START from trees built by the random generators (with lengths), by UPGMA (integer, decimal and tied matrices) and from copies of the object; shapes include polytomies of 33-96 children.",
 "C04": " Removed ids and ids never handed out are put to EVERY query that takes a node id (traversals, listings, root path, common ancestor, distance — alone, twice, and paired with a live node in either position): all must refuse. The public entry points of the ancestor / distance queries are model definitions of their own (commonAncestorPub / distancePub, Props/C09Pub). search_nodes shows the caller's predicate the live nodes only, each once, in arena order.",
 "C09": " Props/C09Pub: the public entry points refuse an id that is not a node of the tree in either position and coincide with the functions of the main theorems on nodes of the tree.",
 "C11": " rescale is also judged on copies in which a few branches carry the largest finite, infinite and subnormal lengths (the IEEE product, bit for bit); larger random trees (incl. wide polytomies) get prunes and regroupings at random places.",
 "C13": " Matrices of 4600-6500 taxa (thorough: up to 9000) in BOTH element types are read through indexed_iter / min / max / get against the integer inverse index. Labels that read as positions (0- and 1-based numbers in shuffled order), ten-character prefixes; set(x, x, 0) is accepted and changes no cell.",
 "C14": " Labels that read as numbers (101, 7, 1e3, inf); every fifth random matrix also travels through to_file / from_file (fresh path or existing longer file, file content = to_phylip); square texts with ONE diagonal entry replaced (other spellings of zero accepted, negative / tiny / infinite / NaN rejected). from_file is compared with the strict parser on arbitrary texts; labels with commas, quote characters, comment markers, ten-character prefixes; a thousand taxa; to_file on a device that refuses data.",
 "C15": " Non-negativity is judged WITHOUT tolerance; decimal matrices with many ties (tenths, correctly rounded) are judged by the oracles on the real result (this found the negative-branch defect repaired by the clamp); the clamp is part of the executable model (UPG.upgmaC, Props/C15Clamp: equal to the unclamped transcription on the property's domain, non-negative lengths for EVERY input) and matrices with negative entries are compared with it. UPGMA through the arena (Props/C15Arena): the arena built by add / add_child / merge_children has the same outcome as the loop model for every input, is well formed with one root at slot 0, represents the loop's tree including the child order under every node, has 2n-1 slots with the taxa in slots 1..n; the raw arena of every compared real result (slot numbers, child order, records) is compared with it.",
 "C08": " distance_matrix_recursive is a TRANSCRIPTION now (DMF.walkF / dmRecWalk: the undirected walk from every tip, per-tip rows, the by-name store) with the theorem that it equals the path-length specification under the invariant with at most one root, fuel adequacy, totality and cells = get_distance (Props/C08Walk); trees carry a length on the root now and then, also when no branch has one.",
 "C12": " The Yule normalisation of Sackin is modelled as an exact rational function and the two PDA normalisations by their squares (Props/C12Norm); the crate's floats must agree with the harness's own exact fractions to 1e-12 and those fractions are the model's.",
 "C16": " TRANSLATOR (second kind of tie, for this table-like code): before C16's obligations are built, lean/translate_formats.py reads the per-format field selection of Node::to_newick and the variants of NewickFormat from the CURRENT source and regenerates Props/C16Source.lean — the table as the code has it now plus the theorem that the model's keepName / keepLen / keepComment select exactly the same fields (model_table_is_source_table, by case analysis over the nine formats x tip / internal); a changed table breaks that obligation. When the function no longer has the shape the translator understands (a rewrite), the generated file says so and the table stays tied by the correspondence alone.",
 "C17": " A volume stream of 160 000 (thorough: 1.28 million) Yule / ETE3 requests of 48-80 tips with structural oracles only (an event of one step in a million shows); the generate subcommand of the real, unguarded binary runs under C17's oracles as well.",
 "C18": " Also: taxa whose names concatenate ambiguously (a+bc = ab+c; the unary family x, xx, xxx), markup-like labels, collapse -v (same tree on stdout, count on stderr), and the generate subcommand of the unguarded binary (every shape, distribution, -b, -n/-o) judged by C17's oracles. The REPORT subcommands have a model too (Arena/CliReport, Props/C18Report: stats row = library answers with '-' exactly for refusals, distance table = every pair of argument positions once and in order with get_distance values, compare columns consistent with the split sets and with rf, rows independent and numbered in argument order) and its answers are compared with the rows the real binary prints; also: odd file names, a tip named twice, a compared tree on another leaf set, -o naming the input itself or a bare relative file name, input files ending in blank lines or a second tree, numeric arguments in other spellings, tips below a branch of length 2^200.",
 "C19": " Labels with markup / format-string / shell metacharacters; drawings of 1000-2600 leaves (wedges stay proportional however thin). A layout moved by the caller (public fields) is rescaled like any other.",
 "C20": " Node equality over every pair of live nodes and Node::remove_child on non-children are part of the cross product. Every comparison / matrix / bipartition query is asked twice of the same object (a refusal stays a refusal); writers on /dev/full must return an error.",
}
for _p, _t in SESSION4.items():
    CLAIMS[_p]["text"] = CLAIMS[_p]["text"].rstrip() + _t

checks = []
for p in props:
    if p in CLAIMS:
        c = CLAIMS[p]
        checks.append({
            "property_id": p,
            "quick_cmd": f"./check {p} --tier quick",
            "thorough_cmd": f"./check {p} --tier thorough",
            "evidence_file": f"/verif/evidence/{p}.json",
            "replay_cmd_template": f"./check {p} --replay {{path}}",
            "engine": "lean-proof+correspondence",
            "level_claimed": {"category": "proof", "text": c["text"], "design_ref": "DESIGN.md section " + c["ref"]},
            "level_note": c["note"],
            "technique": c["technique"],
        })
m = {
 "version": 1,
 "setup_cmd": "./check setup",
 "hooks": {"guard": "phylotree_verif",
           "enable": "rustflags = [\"--cfg\", \"phylotree_verif\"] in /verif/harness/.cargo/config.toml (the harness is the only consumer)",
           "baseline_off_cmd": "cd /repo && cargo test --workspace --no-fail-fast --offline",
           "source_commits": hook_shas, "add_only": True},
 "engines": [{"name": "lean-proof+correspondence", "path": "/verif/check",
              "serves_properties": [p for p in props if p in CLAIMS],
              "kind_free_text": "Lean 4 project /verif/lean/PhyloModel (model, theorems, axiom audit, compiled line-protocol driver) + Rust harness /verif/harness (pvh: drives the real crate built from /repo's working tree and the driver on the same inputs, evaluates the property oracles on the implementation)"}],
 "checks": checks,
 "notes": "See DESIGN.md. Known findings: /verif/known_findings.json. Pre-fix replays of the repaired defects: /verif/findings/.",
 "not_applicable": [{"property_id": p, "reason": "check under construction in this build round (model and harness stream not landed yet); planned per DESIGN.md section 5, not a limit of the technique"} for p in props if p not in CLAIMS],
}
json.dump(m, open("MANIFEST.json", "w"), indent=1)
print("claimed:", [p for p in props if p in CLAIMS])
