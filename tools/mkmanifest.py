#!/usr/bin/env python3
"""Regenerates MANIFEST.json from the table below (run from /verif)."""
import json, subprocess
props = [json.loads(l)["id"] for l in open("properties.jsonl")]
hooks_commits = subprocess.run(["git", "-C", "/repo", "log", "--format=%H %s"], capture_output=True, text=True).stdout.splitlines()
hook_shas = [l.split()[0] for l in hooks_commits if "verif hook" in l]

NOTE = ("Trusted: Lean 4.33 kernel (axioms per theorem printed on every run, subset of propext/Classical.choice/Quot.sound; no sorry, "
        "native_decide, bv_decide or user axioms), the Lean compiler for the driver executable, rustc/std, and the correspondence "
        "harness pvh (generators, canonicalisation) which is the only tie between the hand-written model and /repo. ")

CLAIMS = {
 "C03": dict(
   text="Kernel-checked theorems that every arena mutator of the model (add_child, recursive prune, compress_node with the depth repair, "
        "the regrouping step of merge_children/resolve, reset_depth_impl) preserves the arena invariant for every argument and terminates, "
        "for arenas of any size; the model's executable operations are tied to the real crate by executing the same edit histories "
        "(exhaustive op/argument sequences on all small shapes, long random walks, five arena layouts) and comparing the complete arena "
        "after every step; the invariant itself is also evaluated on the real arena (raw-slot hook) after every step.",
   note=NOTE + "Modelled, not verified: f64 arithmetic (histories use lengths that are multiples of 2^-10 so every sum is exact); rand's shuffle in resolve "
        "(the choices are read back from the real result and handed to the model as its oracle; theorems hold for every oracle).",
   technique="Lean 4 invariant-preservation proofs + differential execution of model and crate on edit histories",
   ref="5 C03"),
}

checks = []
for p in props:
    if p in CLAIMS:
        c = CLAIMS[p]
        checks.append({
            "property_id": p,
            "quick_cmd": f"./check {p} --tier quick",
            "thorough_cmd": f"./check {p} --tier thorough",
            "evidence_file": f"/verif/evidence/{p}.json",
            "replay_cmd_template": f"./check {p} --replay {{path}}",
            "engine": "lean-proof+correspondence",
            "level_claimed": {"category": "proof", "text": c["text"], "design_ref": "DESIGN.md section " + c["ref"]},
            "level_note": c["note"],
            "technique": c["technique"],
        })
m = {
 "version": 1,
 "setup_cmd": "./check setup",
 "hooks": {"guard": "phylotree_verif",
           "enable": "rustflags = [\"--cfg\", \"phylotree_verif\"] in /verif/harness/.cargo/config.toml (the harness is the only consumer)",
           "baseline_off_cmd": "cd /repo && cargo test --workspace --no-fail-fast --offline",
           "source_commits": hook_shas, "add_only": True},
 "engines": [{"name": "lean-proof+correspondence", "path": "/verif/check",
              "serves_properties": [p for p in props if p in CLAIMS],
              "kind_free_text": "Lean 4 project /verif/lean/PhyloModel (model, theorems, axiom audit, compiled line-protocol driver) + Rust harness /verif/harness (pvh: drives the real crate built from /repo's working tree and the driver on the same inputs, evaluates the property oracles on the implementation)"}],
 "checks": checks,
 "notes": "See DESIGN.md. Known findings: /verif/known_findings.json. Pre-fix replays of the repaired defects: /verif/findings/.",
 "not_applicable": [{"property_id": p, "reason": "check under construction in this build round (model and harness stream not landed yet); planned per DESIGN.md section 5, not a limit of the technique"} for p in props if p not in CLAIMS],
}
json.dump(m, open("MANIFEST.json", "w"), indent=1)
print("claimed:", [p for p in props if p in CLAIMS])
