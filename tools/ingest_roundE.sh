#!/bin/bash
# usage: ingest_round6.sh <area-id> ; confirms the round-6 mutations M1..M4 of an area worktree /tmp/wtE_<id>, stores each under
# seeded/<property>-<letter> (next free letter from K on for that property) and removes the worktree when all are confirmed
W=$1; WT=/tmp/wtE_$W
KEEP=
for X in M1 M2 M3; do
  [ -f $WT/MUTATION_$X/patch.diff ] || { echo "$W-$X: no patch"; continue; }
  P=$(python3 -c "import json;print(json.load(open('$WT/MUTATION_$X/meta.json'))['property'].strip()[:3])")
  out=$(/verif/tools/verify_mutation.sh $WT MUTATION_$X 2>&1)
  clean=$(echo "$out" | sed -n '/demo on clean/,/existing tests/p' | grep -c "test result: ok")
  suite=$(echo "$out" | sed -n '/existing tests/,/demo with mutation/p' | grep -c "test result: ok")
  fails=$(echo "$out" | sed -n '/demo with mutation/,$p' | grep -c "FAILED\|test failed")
  if [ "$clean" -ge 1 ] && [ "$suite" -ge 2 ] && [ "$fails" -ge 1 ]; then
    L=""; for c in 14a 14b 14c 14d 14e 14f 14g; do [ -d /verif/seeded/$P-$c ] || { L=$c; break; }; done
    mkdir -p /verif/seeded/$P-$L
    cp $WT/MUTATION_$X/patch.diff $WT/MUTATION_$X/demo.rs $WT/MUTATION_$X/meta.json /verif/seeded/$P-$L/
    python3 - <<PY
import json
p='/verif/seeded/$P-$L/meta.json'; o=json.load(open(p)); o["round"]=14; o["area"]="$W/$X"
o['confirmed_here']='tools/verify_mutation.sh: demo passes on the clean worktree, fails with the patch; 48 unit + 37 doc tests pass with the patch'
json.dump(o,open(p,'w'),indent=1)
PY
    echo "$W-$X CONFIRMED and stored as $P-$L"
  else
    echo "$W-$X NOT CONFIRMED (clean=$clean suite=$suite fails=$fails)"; echo "$out" | tail -15; KEEP=1
  fi
done
if [ -z "$KEEP" ]; then git -C /repo worktree remove --force $WT; git -C /repo worktree prune; else echo "worktree $WT kept (something was not confirmed)"; fi
