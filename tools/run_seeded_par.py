#!/usr/bin/env python3
"""Parallel variant of run_seeded.py that never touches /repo: every worker owns a scratch git worktree of /repo's HEAD
and a scratch copy of /verif (check, harness with its path dependency and target dir redirected, Lean project with
build output), applies each seeded change there, runs the property's check (VERIF_REPO points at the scratch worktree)
and reverts.  Results are merged into seeded/RESULTS.json of THIS /verif.
usage: tools/run_seeded_par.py [-j N] [--tier quick|thorough] [--also C03,C04] [id-prefix ...]
The scratch directories live under /tmp/sw and are removed at the end (worktrees are pruned)."""
import json, os, subprocess, sys, glob, shutil, threading, queue

VERIF = '/verif'
ROOT = '/tmp/sw'
args = sys.argv[1:]
J = 4
tier = 'quick'
also = []
sel = []
i = 0
while i < len(args):
    if args[i] == '-j': J = int(args[i + 1]); i += 2
    elif args[i] == '--tier': tier = args[i + 1]; i += 2
    elif args[i] == '--also': also = args[i + 1].split(','); i += 2
    else: sel.append(args[i]); i += 1

ids = []
for d in sorted(glob.glob(f'{VERIF}/seeded/*/')):
    sid = os.path.basename(d.rstrip('/'))
    if sel and not any(sid.startswith(s) for s in sel): continue
    ids.append(sid)
J = max(1, min(J, len(ids)))

def sh(cmd, **kw):
    return subprocess.run(cmd, capture_output=True, text=True, **kw)

def setup_worker(k):
    w = f'{ROOT}/{k}'
    shutil.rmtree(w, ignore_errors=True)
    os.makedirs(w)
    sh(['git', '-C', '/repo', 'worktree', 'prune'])
    r = sh(['git', '-C', '/repo', 'worktree', 'add', '--detach', f'{w}/repo', 'HEAD'])
    assert r.returncode == 0, r.stderr
    v = f'{w}/verif'
    os.makedirs(v)
    for name in ['check', 'known_findings.json', 'properties.jsonl']:
        shutil.copy2(f'{VERIF}/{name}', f'{v}/{name}')
    sh(['cp', '-a', f'{VERIF}/lean', f'{v}/lean'])
    os.makedirs(f'{v}/harness')
    for name in ['Cargo.toml', 'Cargo.lock', 'src', '.cargo']:
        sh(['cp', '-a', f'{VERIF}/harness/{name}', f'{v}/harness/{name}'])
    # copy the build output so that only the phylotree crate and the harness are rebuilt
    sh(['cp', '-a', f'{VERIF}/harness/target', f'{v}/harness/target'])
    t = open(f'{v}/harness/Cargo.toml').read().replace('path = "/repo"', f'path = "{w}/repo"')
    open(f'{v}/harness/Cargo.toml', 'w').write(t)
    c = open(f'{v}/harness/.cargo/config.toml').read().replace('/verif/harness/target', f'{v}/harness/target')
    open(f'{v}/harness/.cargo/config.toml', 'w').write(c)
    return w

results = {}
lock = threading.Lock()
q = queue.Queue()
for s in ids: q.put(s)

def run_one(w, sid):
    prop = sid.split('-')[0]
    d = f'{VERIF}/seeded/{sid}/'
    patch = d + ('patch.rebased.diff' if os.path.exists(d + 'patch.rebased.diff') else 'patch.diff')
    repo, v = f'{w}/repo', f'{w}/verif'
    if sh(['git', '-C', repo, 'apply', patch]).returncode != 0:
        return {'property': prop, 'applies': False}
    out = {'property': prop, 'applies': True}
    try:
        env = dict(os.environ, VERIF_REPO=repo)
        for p in [prop] + [x for x in also if x != prop]:
            r = subprocess.run(['./check', p, '--tier', tier], cwd=v, capture_output=True, text=True, timeout=4 * 3600, env=env)
            lines = [l for l in r.stdout.splitlines() if l.startswith('VIOLATION')]
            kinds = {}
            for l in lines:
                path = l.split('replay=')[1].split()[0]
                try:
                    o = json.load(open(path))
                    k = o['kind'] + ':' + (o.get('oracle') or o.get('stream') or o.get('theorem_or_module') or '') + ':' + o.get('signature', '')
                except Exception:
                    k = '?'
                kinds[k] = kinds.get(k, 0) + 1
            rec = {'detected': r.returncode == 1 and bool(lines), 'exit': r.returncode, 'violation_lines': len(lines),
                   'with_failing_input': sum(1 for l in lines if 'no-failing-input-found' not in l), 'by': kinds}
            if p == prop: out.update(rec)
            else: out.setdefault('also', {})[p] = rec
            if r.returncode not in (0, 1) or (r.returncode == 1 and not lines):
                out['log_tail'] = (r.stdout + r.stderr)[-1500:]
    finally:
        sh(['git', '-C', repo, 'checkout', '--', '.'])
    return out

def worker(k):
    w = setup_worker(k)
    while True:
        try: sid = q.get_nowait()
        except queue.Empty: break
        try:
            res = run_one(w, sid)
        except Exception as e:
            res = {'property': sid.split('-')[0], 'applies': True, 'detected': False, 'error': repr(e)}
        with lock:
            results[sid] = res
            print(sid, 'DETECTED' if res.get('detected') else ('MISSED' if res.get('applies') else 'PATCH-DOES-NOT-APPLY'), res.get('by'), flush=True)
    sh(['git', '-C', '/repo', 'worktree', 'remove', '--force', f'{w}/repo'])
    shutil.rmtree(w, ignore_errors=True)

ts = [threading.Thread(target=worker, args=(k,)) for k in range(J)]
for t in ts: t.start()
for t in ts: t.join()
sh(['git', '-C', '/repo', 'worktree', 'prune'])
path = f'{VERIF}/seeded/RESULTS.json'
res = json.load(open(path)) if os.path.exists(path) else {}
res.update(results)
# a change that is outside the property's domain by design keeps its explanation (recorded in its meta.json)
for sid in res:
    try:
        _m = json.load(open(f'{VERIF}/seeded/{sid}/meta.json'))
        note = _m.get('not_detected_by_design') or _m.get('superseded')
        if note: res[sid]['note'] = note
    except Exception:
        pass
json.dump(dict(sorted(res.items())), open(path, 'w'), indent=1)
det = sum(1 for s in ids if results.get(s, {}).get('detected'))
print(f'{det}/{len(ids)} detected; missed: {[s for s in ids if not results.get(s, {}).get("detected")]}')
